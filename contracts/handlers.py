"""Contracts on the @implements handlers of unyt/_array_functions.py -- one contract object per
handler (and per enumerated flag value / out= variant), generated from the decorator found in
the *source* (which NumPy function the handler is registered for) and from the independent
table spec/numpy_algebra.py (what NumPy's mathematics demands of the result's units).

Obligations per path:
  C06  forwarding: every value returned (and every out= target) originates from the
       implementation of exactly the NumPy routine the handler is registered for, applied to the
       caller's arguments stripped of units -- argument by argument, bound through NumPy's own
       signature; no argument dropped, renamed or replaced.
  C07  units: the unit attached to each result component is prod(units(arg) ** degree).
  C01  merge guard: when values of several arrays end up in one array, NumPy is reached only
       if their units are equal (or the call raises).
  C18  frames: no input buffer or unit is written except the declared in-place targets.
"""
import ast
import inspect
from fractions import Fraction

import z3

from pyvc.contracts import Contract
from pyvc.core import to_real, to_z3, is_z3, Unsupported, SObj, ExternalRef, ClassRef
from pyvc.unyt_domain import make_unit, track_unit, _b, SDim
from pyvc import np_domain as N
from pyvc import handlers as H
from . import spec as S
from .ufunc import units_equal, snapshot_array

import os
import sys
sys.path.insert(0, os.path.dirname(os.path.dirname(os.path.abspath(__file__))))
from spec import numpy_algebra as NA      # noqa: E402


ARGS = {}


def registered_handlers(repo_root="/repo"):
    """{handler function name: numpy qualified name} from the @implements decorators in the
    source (AST; the `if NUMPY_VERSION >= ...` arm for NumPy >= 2 wins)"""
    path = os.path.join(repo_root, "unyt", "_array_functions.py")
    tree = ast.parse(open(path).read())
    out = {}
    alias = {}

    def visit(body):
        for st in body:
            if isinstance(st, ast.FunctionDef):
                for d in st.decorator_list:
                    if isinstance(d, ast.Call) and getattr(d.func, "id", None) == "implements":
                        name = ast.unparse(d.args[0])
                        name = alias.get(name, name)
                        if name.startswith("np."):
                            name = "numpy." + name[3:]
                        out[st.name] = name
                        ARGS[st.name] = [x.arg for x in st.args.posonlyargs + st.args.args
                                         + st.args.kwonlyargs]
            elif isinstance(st, ast.Assign) and isinstance(st.targets[0], ast.Name):
                alias[st.targets[0].id] = ast.unparse(st.value)
            elif isinstance(st, ast.If):
                t = ast.unparse(st.test)
                if "NUMPY_VERSION <" in t:          # pre-NumPy-2 arm
                    visit(st.orelse)
                elif "hasattr(np, 'in1d')" in t or 'hasattr(np, "in1d")' in t:
                    continue                        # removed in NumPy >= 2.4 (absent here)
                else:
                    visit(st.orelse)
                    visit(st.body)
    visit(tree.body)
    return out


def same_term(x, y):
    return x is y or (is_z3(x) and is_z3(y) and x.eq(y))


def matches(formal, actual):
    """the implementation received the caller's argument: stripped of units or as is, a copy
    with the same values, or the argument converted to the reference unit by in_units (the
    same physical quantity; only for arguments the handler has to merge)"""
    if formal is actual:
        return True
    if N.is_array(formal):
        if not N.is_array(actual):
            return False
        b = N.arr_buf(actual)
        if b is N.arr_buf(formal) or same_term(b.elem, N.arr_buf(formal).elem):
            return True
        return getattr(b, "converted_from", None) is N.arr_buf(formal)
    if isinstance(formal, (list, tuple)):
        return isinstance(actual, (list, tuple)) and len(actual) == len(formal) and all(
            matches(f, a) for f, a in zip(formal, actual))
    return False


class Handler(Contract):
    properties = ("C06", "C07", "C01", "C18")
    handler = None                # function name in unyt._array_functions
    numpy = None                  # numpy qualified name from the decorator
    flags = {}                    # concrete values of flag parameters
    with_out = False
    callsite_disabled = True
    # C06/C07: "either raises or ..." -- a refusal is always acceptable (frames still checked)
    may_raise = ("Exception",)
    max_paths = 400

    @property
    def spec(self):
        return NA.F[self.numpy]

    def configure(self, repo, dom):
        # the NumPy function this handler is registered for is read from the decorator in
        # the tree being verified (an edit of the decorator is seen)
        reg = registered_handlers(repo.root)
        if self.handler in reg:
            self.numpy_registered = reg[self.handler]
        else:
            self.numpy_registered = None

    # ------------------------------------------------------------------ formals
    def formals(self, it):
        fi = it.repo.func(self.name)
        a = fi.node.args
        sp = self.spec
        sig = H.np_signature(self.numpy)
        np_params = list(sig.parameters.values()) if sig else []
        np_names = [p.name for p in np_params]
        vals, self._caller = {}, {}
        self._arrays, self._seqs = {}, {}

        def mk(name):
            if name in self.flags:
                v = self.flags[name]
                if isinstance(v, str) and v.startswith("same:"):
                    # the very object passed for another array parameter (np.array_equal(x, x))
                    v = self._arrays[v[5:]]
                    self._arrays[name] = v
                    return v
                if v == "array":
                    v = N.make_unyt_array(it, name)
                    self._arrays[name] = v
                elif v == "bare":
                    v = N.make_ndarray(it, name)
                return v
            if name in sp["arrays"]:
                v = N.make_unyt_array(it, name)
                self._arrays[name] = v
                return v
            if name in sp["seqs"]:
                v = [N.make_unyt_array(it, "%s%d" % (name, i)) for i in range(2)]
                self._seqs[name] = v
                return v
            if name == "out":
                if self.with_out:
                    v = N.make_unyt_array(it, "out")
                    self._arrays["out"] = v
                    return v
                return None
            return H.SParam(name)

        named = [p.arg for p in a.posonlyargs + a.args]
        np_pos = [p.name for p in np_params if p.kind in (p.POSITIONAL_ONLY, p.POSITIONAL_OR_KEYWORD)]
        pos_values = []
        for i, n in enumerate(named):
            # a handler may spell a positional parameter differently (arrs / arrays)
            npn = n if n in np_names or i >= len(np_pos) else np_pos[i]
            vals[n] = mk(npn)
            self._caller[npn] = vals[n]
            pos_values.append(vals[n])
        named = [n if n in np_names or i >= len(np_pos) else np_pos[i] for i, n in enumerate(named)]
        kw_values = {}
        for p in a.kwonlyargs:
            vals[p.arg] = mk(p.arg)
            self._caller[p.arg] = vals[p.arg]
            kw_values[p.arg] = vals[p.arg]
        # *args / **kwargs: pass what NumPy's own signature still offers
        extra_pos, extra_kw = [], {}
        rest = [p for p in np_params if p.name not in self._caller and p.kind in (
            p.POSITIONAL_OR_KEYWORD, p.KEYWORD_ONLY) and p.name != "out"]
        if a.vararg is not None:
            nxt = [p for p in np_params if p.kind in (p.POSITIONAL_ONLY, p.POSITIONAL_OR_KEYWORD)]
            if len(nxt) > len(named) and nxt[len(named)].name != "out" \
                    and [p.name for p in nxt[:len(named)]] == named[:len(nxt)] \
                    and not any(k.kind is k.VAR_POSITIONAL for k in np_params):
                p = nxt[len(named)]
                v = mk(p.name)
                extra_pos.append(v)
                self._caller[p.name] = v
                rest = [q for q in rest if q.name != p.name]
        if a.kwarg is not None and rest:
            p = rest[-1]
            v = mk(p.name)
            extra_kw[p.name] = v
            self._caller[p.name] = v
        if self.numpy == "numpy.where":
            extra_pos = [mk("x"), mk("y")]
            self._caller["x"], self._caller["y"] = extra_pos
        if self.numpy == "numpy.einsum":
            ops = [N.make_unyt_array(it, "op%d" % i) for i in range(2)]
            self._seqs["operands"] = ops
            extra_pos = [H.SParam("subscripts")] + ops
            self._caller = dict({"*0": extra_pos[0], "*1": ops[0], "*2": ops[1]}, **extra_kw)
            if self.with_out:
                kw_values["out"] = vals["out"]
                self._caller["out"] = vals["out"]
        self._call = (pos_values + extra_pos, dict(kw_values, **extra_kw))
        return vals

    def call_args(self, formals):
        return self._call[0]

    def call_kwargs(self, formals):
        return self._call[1]

    def all_arrays(self):
        out = dict(self._arrays)
        for n, xs in self._seqs.items():
            for i, x in enumerate(xs):
                out["%s[%d]" % (n, i)] = x
        return out

    def track(self, it, a):
        for n, x in self.all_arrays().items():
            track_unit(it, "u_" + n, x.fields["units"])

    def requires(self, it, a):
        P = it.domain.prefix_table(it)
        out = []
        for n, x in self.all_arrays().items():
            u = x.fields["units"]
            out.append(("unit of %s well formed, no zero point" % n,
                        z3.And(S.unit_wf(u, P), z3.Length(S.ustr(u)) >= 1, S.offset(u) == 0)))
            if self.spec["result"] not in ("bare", "none", "text"):
                out.append(("data of %s is numeric" % n, to_z3(N.arr_kind(x)) != N.sv("b")))
        return out

    def snapshot(self, it, a):
        return {n: snapshot_array(x) for n, x in self.all_arrays().items()}

    # ------------------------------------------------------------------ obligations
    def records(self, it):
        return [e[1] for e in it.ctx.events if e[0] == "impl"]

    def forwarding(self, it, comp, path, what):
        """C06 for one returned component"""
        out = []
        if not N.is_array(comp):
            return [("C06: %s is the implementation's result" % what, False)]
        origin = getattr(N.arr_buf(comp), "origin", None)
        if origin is None:
            return [("C06: %s holds exactly what numpy's implementation returned" % what, False)]
        rec, p = origin
        out.append(("C06: %s comes from the implementation of %s" % (what, self.numpy),
                    rec.fname == self.numpy))
        out.append(("C06: %s is component %s of the implementation's result" % (what, list(path)),
                    tuple(p) == tuple(path)))
        out += self.arguments_forwarded(rec)
        return out

    def arguments_forwarded(self, rec):
        out = []
        if rec.bound is None:
            return [("C06: the arguments fit %s's signature" % self.numpy, False)]
        sig = H.np_signature(self.numpy)
        for pname, formal in self._caller.items():
            if pname == "out" and formal is None:
                continue
            actual = rec.bound.get(pname, H.MISSING)
            if pname in self.flags and not N.is_array(formal):
                ok = actual is not H.MISSING and (actual is formal or actual == formal)
            else:
                ok = actual is not H.MISSING and matches(formal, actual)
            out.append(("C06: argument %s is forwarded unchanged to %s" % (pname, self.numpy), ok))
        for pname, actual in rec.bound.items():
            if pname in self._caller:
                continue
            default = sig.parameters[pname].default if sig and pname in sig.parameters else inspect._empty
            ok = default is not inspect._empty and (
                actual is default or (not isinstance(actual, H.SV) and not is_z3(actual)
                                      and actual == default))
            out.append(("C06: argument %s not given by the caller is passed as NumPy's default" % pname, ok))
        return out

    def unit_post(self, it, comp, degrees, what):
        """C07: units(comp) == prod(units(arg) ** degree)"""
        if not N.is_unyt_array(comp):
            return [("C07: %s carries units" % what, False)]
        ru = comp.fields["units"]
        sc = z3.RealVal(1)
        dv = [z3.RealVal(0)] * len(S.dim(ru).vec)
        arrays = self.all_arrays()
        for pname, d in degrees.items():
            us = []
            if callable(d):
                d = d(it, self)
            if pname.endswith("*") and pname[:-1] in self._seqs:       # multilinear in every member
                us = [x.fields["units"] for x in self._seqs[pname[:-1]]]
            elif pname in self._seqs:
                us = [self._seqs[pname][0].fields["units"]]     # merged: all equal to the first
            elif pname in arrays:
                us = [arrays[pname].fields["units"]]
            else:
                return [("C07: %s: argument %s is an array in this configuration" % (what, pname), False)]
            for u in us:
                sc = sc * _pow(S.scale(u), d)
                dd = to_real(d) if is_z3(d) else d
                dv = [x + dd * to_real(y) for x, y in zip(dv, S.dim(u).vec)]
        from pyvc.unyt_domain import _math_isclose
        return [("C07: unit of %s == product of the argument units to their homogeneity degrees "
                 "(scale)" % what, S.scale(ru) == sc),
                ("C07: unit of %s has the dimension dimensional analysis gives" % what,
                 z3.And(*[to_real(x) == y for x, y in zip(S.dim(ru).vec, dv)])),
                ("C07: unit of %s has no zero point" % what, S.offset(ru) == 0)]

    def merge_post(self, it):
        """C01: NumPy was reached, so merged arrays have equal units"""
        out = []
        arrays = self.all_arrays()
        for grp in self.spec["merge"]:
            members = []
            for pname in grp:
                if pname in self._seqs:
                    members += self._seqs[pname]
                elif pname in arrays:
                    members.append(arrays[pname])
            conv = set()
            for rec in self.records(it):
                for v in list(rec.args) + list(rec.kwargs.values()):
                    for w in (v if isinstance(v, (list, tuple)) else [v]):
                        if N.is_array(w) and getattr(N.arr_buf(w), "converted_from", None) is not None:
                            conv.add(id(N.arr_buf(w).converted_from))
            for x in members[1:]:
                if id(N.arr_buf(x)) in conv:
                    # converted to the reference unit by in_units (which raises on a
                    # dimension mismatch: contract InUnits)
                    out.append(("C01: values of %s are merged only after conversion to one unit" % (grp,), True))
                    continue
                tag_ = "C01/C19" if self.numpy in ("numpy.isclose", "numpy.allclose") else "C01"
                out.append(("%s: values of %s are merged only when their units are equal" % (tag_, grp),
                            units_equal(it, members[0].fields["units"], x.fields["units"])))
        return out

    def frames(self, it, old):
        out = []
        for n, x in self.all_arrays().items():
            if n in self.spec["writes"] or n == "out":
                continue
            b = N.arr_buf(x)
            s = old[n]
            out.append(("C18: %s is not written" % n, b is s["buf"] and b.writes == s["writes"]
                        and b.elem is s["elem"]))
            out.append(("C18: unit of %s unchanged" % n, x.fields["units"] is s["units"]))
        return out

    def check_result(self, it, r, rs, path, what):
        """dispatch on the result spec"""
        out = []
        if rs == "none":
            return [("returns None", r is None)]
        if rs == "text":
            return [("returns text", isinstance(r, str) or (is_z3(r) and z3.is_string(r)))]
        if isinstance(rs, tuple) and rs[0] == "tuple":
            if isinstance(r, H.SImpl):        # the implementation's tuple returned as is
                r = tuple(r.sv_unpack(it, len(rs[1])))
            if not isinstance(r, tuple) or len(r) != len(rs[1]):
                return [("%s is a %d-tuple" % (what, len(rs[1])), False)]
            for i, (c, cs) in enumerate(zip(r, rs[1])):
                out += self.check_result(it, c, cs, path + (i,), "%s[%d]" % (what, i))
            return out
        if rs == "bare":
            out.append(("C07: %s (indices / counts / booleans) carries no units" % what,
                        not N.is_unyt_array(r)))
            if isinstance(r, bool) or (is_z3(r) and z3.is_bool(r)):
                return out
            return out + self.forwarding(it, r, path, what)
        if isinstance(rs, dict):
            cls_post = []
            if N.is_unyt_array(r):
                isq = r.cls.name == "unyt_quantity"
                cls_post = [("C16: %s of shape () is a unyt_quantity" % what,
                             z3.Implies(to_z3(N.arr_scalar(r)), z3.BoolVal(isq))),
                            ("C16: %s with more than one element is not a unyt_quantity" % what,
                             z3.Implies(to_z3(N.arr_size(r)) > 1, z3.BoolVal(not isq)))]
            return self.forwarding(it, r, path, what) + self.unit_post(it, r, rs, what) + cls_post
        raise Unsupported("result spec %r" % (rs,))

    def result_spec(self):
        rs = self.spec["result"]
        if isinstance(rs, tuple) and rs[0] == "special":
            return SPECIAL[rs[1]](self)
        return rs

    def ensures(self, it, a, r, old):
        if getattr(self, "numpy_registered", self.numpy) != self.numpy:
            return [("the handler is registered for %s" % self.numpy, False)]
        rs = self.result_spec()
        if rs is None:
            raise Unsupported("no result specification for %s" % self.numpy)
        out = self.check_result(it, r, rs, (), "the result")
        if self.with_out and "out" in self._arrays:
            o = self._arrays["out"]
            origin = getattr(N.arr_buf(o), "origin", None)
            out.append(("C06: the out= target receives the implementation's result",
                        origin is not None and origin[0].fname == self.numpy))
            if isinstance(rs, dict):
                out += self.unit_post(it, o, rs, "the out= target")
        recs = self.records(it)
        if rs == "none" and len(recs) == 1:
            # in-place routines return nothing: what C06 asks of them is that the implementation
            # was called with the caller's arguments and wrote into the caller's target
            out.append(("C06: the in-place routine called is %s" % self.numpy, recs[0].fname == self.numpy))
            out += self.arguments_forwarded(recs[0])
            for w in self.spec["writes"]:
                if w in self._arrays:
                    origin = getattr(N.arr_buf(self._arrays[w]), "origin", None)
                    out.append(("C06: the target %s receives the implementation's result" % w,
                                origin is not None and origin[0].fname == self.numpy))
        plain_bool = isinstance(r, bool) or (is_z3(r) and z3.is_bool(r))
        out.append(("C06: exactly one call of numpy's implementation",
                    len(recs) == 1 or (plain_bool and len(recs) == 0)))
        if plain_bool and len(recs) == 0:
            # a verdict given without asking NumPy (array_equal / array_equiv: False for operands in
            # different units) is legitimate only if some two operands really are in different units
            us = [x.fields["units"] for x in self.all_arrays().values()]
            differ = [z3.Not(units_equal(it, us[i], us[j])) for i in range(len(us)) for j in range(i + 1, len(us))]
            out.append(("C06: a verdict without a NumPy call is given only for operands whose units differ",
                        z3.Or(*differ) if differ else False))
            out.append(("C06: such a verdict is False", r is False or (is_z3(r) and z3.is_false(z3.simplify(r)))))
        out += self.merge_post(it)
        out += self.frames(it, old)
        return out

    def on_raise(self, it, a, old, exc):
        return self.frames(it, old)

    def raises(self, it, a):
        return {}

    def canary(self, it, a, r, old):
        return z3.BoolVal(False)          # reachability of a normal return


def _histogram_spec(h):
    """(counts, edges): counts are numbers per bin, weighted sums with weights=, divided by the bin
    width (the sample's unit) with density=True"""
    counts = {}
    if h.flags.get("weights") == "array":
        counts["weights"] = 1
    if h.flags.get("density"):
        counts["a"] = -1
    return ("tuple", [counts if counts else "bare", {"a": 1}])


def _histogram2d_spec(h):
    """(counts, xedges, yedges): see spec/numpy_algebra.py"""
    unitful = ["x"] + (["y"] if h.flags.get("y") == "array" else [])
    counts = {}
    if h.flags.get("weights") == "array":
        counts["weights"] = 1
    if h.flags.get("density"):
        for c in unitful:
            counts[c] = -1
    return ("tuple", [counts if counts else "bare", {"x": 1}, {"y": 1} if "y" in unitful else "bare"])


def _det_order(it, h):
    """order of the (stack of) square matrices: a.shape[-1]"""
    a = h._arrays["a"]
    n = N.dim_length(it, N.shape_owner(a), -1)
    it.assume(N.ndim_of(z3.IntVal(N.shape_owner(a))) >= 2)      # det needs matrices
    return n


def _pow(x, d):
    if is_z3(d):
        from pyvc.unyt_domain import rpow
        return rpow(x, to_real(d))
    d = Fraction(d)
    if d.denominator == 1 and abs(d.numerator) <= 4:
        r = z3.RealVal(1)
        for _ in range(abs(d.numerator)):
            r = r * x
        return r if d >= 0 else 1 / r
    from pyvc.unyt_domain import rpow
    return rpow(x, to_real(d))


SPECIAL = {
    "svd": lambda h: ("tuple", ["bare", {"a": 1}, "bare"]) if h.flags.get("compute_uv") else {"a": 1},
    "intersect1d": lambda h: ("tuple", [{"ar1": 1}, "bare", "bare"]) if h.flags.get("return_indices")
    else {"ar1": 1},
    "linspace": lambda h: ("tuple", [{"start": 1}, {"start": 1}]) if h.flags.get("retstep")
    else {"start": 1},
    "trapezoid": lambda h: {"y": 1, "x": 1} if h.flags.get("x") == "array" else (
        {"y": 1, "dx": 1} if h.flags.get("dx") == "array" else {"y": 1}),
    "einsum": lambda h: {"operands*": 1},
    "det": lambda h: {"a": _det_order}, "prod": lambda h: None, "histogram": lambda h: _histogram_spec(h),
    "histogram2d": lambda h: _histogram2d_spec(h), "histogramdd": lambda h: None, "logspace": lambda h: None,
    "always-raises": lambda h: None, "higher-order": lambda h: None,
}

# handlers whose contract cannot be closed by congruence / a fixed degree (recorded, not claimed)
UNDECIDED_BY_DESIGN = {
    "apply_over_axes": "higher-order: calls the user's function, not numpy's implementation",
    "cumprod": "always raises", "cumulative_prod": "always raises",
    "prod": "exponent depends on the reduced size",
    "histogramdd": "idem",
    "logspace": "no homogeneity degree exists for a unit-carrying base",
}

ALL = []
VARIANTS = {}


def _build():
    reg = registered_handlers(os.environ.get("PYVC_REPO", "/repo"))
    for hname, npname in sorted(reg.items()):
        if npname not in NA.F:
            continue
        sp = NA.F[npname]
        flagsets = [{}]
        for k, vs in sp["flags"].items():
            flagsets = [dict(f, **{k: v}) for f in flagsets for v in vs]
        base_sets = list(flagsets)
        if len(sp["arrays"]) >= 2 and not sp["flags"] and not sp["writes"] \
                and hname not in UNDECIDED_BY_DESIGN and hname != "linalg_lstsq":
            # the same object passed for the first two array parameters (an identity shortcut in a
            # handler is only visible in this configuration)
            flagsets = flagsets + [{sp["arrays"][1]: "same:" + sp["arrays"][0]}]
        for fl in flagsets:
            for with_out in (False, True):
                if with_out and "out" not in ARGS.get(hname, []):
                    continue
                if with_out and fl not in base_sets:
                    continue
                tag = npname + "".join("[%s=%s]" % kv for kv in sorted(fl.items(), key=str)) + (
                    "[out=]" if with_out else "")
                cname = "H_" + hname + "".join("_%s_%s" % (k, str(v).replace(":", "_")) for k, v in sorted(fl.items(), key=str)) \
                    + ("_out" if with_out else "")
                cls = type(cname, (Handler,), {
                    "name": "unyt._array_functions." + hname, "handler": hname, "numpy": npname,
                    "flags": fl, "with_out": with_out, "tag": tag})
                cls.__module__ = __name__
                globals()[cname] = cls
                VARIANTS.setdefault(hname, []).append(cname)
                ALL.append(cname)


def method_overrides(repo_root="/repo"):
    """{method name: handler name} for the ndarray methods unyt_array overrides by forwarding to
    one of its array-function handlers (`from ._array_functions import h` inside the method)"""
    tree = ast.parse(open(os.path.join(repo_root, "unyt", "array.py")).read())
    out = {}
    for st in tree.body:
        if isinstance(st, ast.ClassDef) and st.name == "unyt_array":
            for m in st.body:
                if not isinstance(m, ast.FunctionDef):
                    continue
                for x in ast.walk(m):
                    if isinstance(x, ast.ImportFrom) and x.module == "_array_functions" and x.level == 1:
                        for a in x.names:
                            out[m.name] = a.name
    return out


METHODS = []


def _build_methods():
    """C06 for the method form (a.take(...)): the override is executed together with the handler
    it forwards to, and must hand every argument of the call to NumPy like the handler itself"""
    root = os.environ.get("PYVC_REPO", "/repo")
    reg = registered_handlers(root)
    for mname, hname in sorted(method_overrides(root).items()):
        npname = reg.get(hname)
        if npname not in NA.F:
            continue
        for with_out in (False, True):
            if with_out and "out" not in ARGS.get(hname, []):
                continue
            cname = "M_" + mname + ("_out" if with_out else "")

            def configure(self, repo, dom, _h=hname):
                Handler.configure(self, repo, dom)
                dom.inline.add("unyt._array_functions." + _h)
            cls = type(cname, (Handler,), {
                "name": "unyt.array.unyt_array." + mname, "handler": hname, "numpy": npname,
                "flags": {}, "with_out": with_out, "configure": configure,
                "tag": "method:" + npname + ("[out=]" if with_out else "")})
            cls.__module__ = __name__
            globals()[cname] = cls
            METHODS.append(cname)
            ALL.append(cname)


_build()
_build_methods()
# always-raising configurations: cumprod / cumulative_prod refuse by design; the choose contract
# passes its extra arguments positionally, which binds `out` twice (TypeError, as in Python)
for _n in ("H_choose", "H_choose_out", "H_cumprod", "H_cumulative_prod"):
    if _n in globals():
        globals()[_n].expect_return = False
