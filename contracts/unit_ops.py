"""Contracts for the Unit algebra (C05), the offset/logarithmic guards (C08) and the unit
rules used by __array_ufunc__ (C04/C08)."""
from fractions import Fraction

import z3

from pyvc.contracts import Contract
from pyvc.core import to_real, to_z3, is_z3, Unsupported, SObj
from pyvc.unyt_domain import (SDim, SExpr, SRat, make_unit, make_registry, track_unit, _b,
                              e_mul, e_div, e_pow, e_num, rpow, REF_BASE, REF_ONE, BASE_DIMS)
from . import spec as S


def is_ref(d, name):
    ref = REF_ONE if name == "one" else REF_BASE[name]
    return to_z3(d.ref) == ref


def dimless(u):
    return is_ref(S.dim(u), "one")


def dim_in_temp_angle(u):
    d = S.dim(u)
    return z3.Or(_b(d.is_base("temperature")), _b(d.is_base("angle")))


def vec_sum(a, b, sign=1):
    return [to_real(x) + sign * to_real(y) for x, y in zip(a.vec, b.vec)]


def vec_is(d, vec):
    return z3.And(*[to_real(x) == to_real(y) for x, y in zip(d.vec, vec)])


class ValidateDimensions(Contract):
    """assumed: every value of the dimension algebra (products of rational powers of the base
    symbols) passes _validate_dimensions.  The function recurses over sympy's tree, which is
    outside the modelled subset; its contract is trusted, not proved."""
    name = "unyt.unit_object._validate_dimensions"
    properties = ("C05",)
    trusted = True
    assumptions = ("_validate_dimensions accepts every product of powers of base dimension "
                   "symbols (assumed; sympy tree recursion not modelled)",)

    def formals(self, it):
        return {"dimensions": SDim.fresh(it, "d")}

    def result(self, it, a):
        if not isinstance(a.dimensions, SDim):
            raise Unsupported("_validate_dimensions of a non-dimension value")
        return None


class _BinaryUnitOp(Contract):
    properties = ("C05", "C08", "C04")
    op = None

    def formals(self, it):
        reg = make_registry(it, "reg_self")
        return {"self": make_unit(it, "self", registry=reg), "u": make_unit(it, "u")}

    def track(self, it, a):
        track_unit(it, "self", a.self)
        track_unit(it, "u", a.u)

    def offsets_nonzero(self, a):
        return z3.Or(S.offset(a.self) != 0, S.offset(a.u) != 0)

    def log_guard(self, a):
        return z3.Or(z3.And(is_ref(S.dim(a.self), "logarithmic"), z3.Not(dimless(a.u))),
                     z3.And(is_ref(S.dim(a.u), "logarithmic"), z3.Not(dimless(a.self))))

    def result(self, it, a):
        if not (isinstance(a.u, SObj) and a.u.cls.name == "Unit"):
            raise Unsupported("%s with a non-Unit operand (data path) is under a separate "
                              "contract" % self.name)
        r = make_unit(it, "prod", registry=a.self.fields["registry"], positive_scale=False)
        return r

    def common_post(self, it, a, r, sign):
        d = S.dim(r)
        e = e_mul if sign == 1 else e_div
        return [
            ("scale of the result is the %s of the scales" % ("product" if sign == 1 else "quotient"),
             S.scale(r) == (S.scale(a.self) * S.scale(a.u) if sign == 1
                            else S.scale(a.self) / S.scale(a.u))),
            ("dimension of the result is the %s of the dimensions" % ("product" if sign == 1 else "quotient"),
             vec_is(d, vec_sum(S.dim(a.self), S.dim(a.u), sign))),
            ("dimension object of the result is canonical", _b(d.canon())),
            ("result is bound to the left operand's registry",
             r.fields["registry"] is a.self.fields["registry"]),
            ("expression is the %s of the expressions" % ("product" if sign == 1 else "quotient"),
             r.fields["expr"].term == e(a.self.fields["expr"].term, a.u.fields["expr"].term)),
            ("scale stays positive", S.scale(r) > 0),
        ]


class UnitMul(_BinaryUnitOp):
    name = "unyt.unit_object.Unit.__mul__"

    def apply(self, it, bound):
        u = bound["u"]
        if not (isinstance(u, SObj) and u.cls.name == "Unit"):
            # data path (Unit * array / scalar): contract UnitMulData below
            from pyvc import handlers as H
            it.call_log.append(self.name + "[data]")
            return H.unit_times_data(it, bound["self"], u)
        return _BinaryUnitOp.apply(self, it, bound)

    def raises(self, it, a):
        ok_off = z3.Or(z3.And(dim_in_temp_angle(a.u), dimless(a.self)),
                       z3.And(dim_in_temp_angle(a.self), dimless(a.u)))
        return {"InvalidUnitOperation": z3.Or(self.log_guard(a),
                                              z3.And(self.offsets_nonzero(a), z3.Not(ok_off)))}

    def ensures(self, it, a, r, old):
        off = z3.If(self.offsets_nonzero(a),
                    z3.If(z3.And(dim_in_temp_angle(a.u), dimless(a.self)), S.offset(a.u),
                          S.offset(a.self)), z3.RealVal(0))
        return self.common_post(it, a, r, 1) + [
            ("offset survives only multiplication by a dimensionless unit", S.offset(r) == off)]

    def canary(self, it, a, r, old):
        return S.scale(r) == S.scale(a.self)


class UnitTrueDiv(_BinaryUnitOp):
    name = "unyt.unit_object.Unit.__truediv__"

    def raises(self, it, a):
        ok_off = z3.And(dim_in_temp_angle(a.self), dimless(a.u))
        return {"InvalidUnitOperation": z3.Or(self.log_guard(a),
                                              z3.And(self.offsets_nonzero(a), z3.Not(ok_off)))}

    def ensures(self, it, a, r, old):
        off = z3.If(self.offsets_nonzero(a), S.offset(a.self), z3.RealVal(0))
        return self.common_post(it, a, r, -1) + [
            ("offset survives only division by a dimensionless unit", S.offset(r) == off)]

    def canary(self, it, a, r, old):
        return S.scale(r) == S.scale(a.self)


class UnitPow(Contract):
    name = "unyt.unit_object.Unit.__pow__"
    properties = ("C05", "C08", "C04")

    def formals(self, it):
        return {"self": make_unit(it, "self"), "p": it.fresh_real("p")}

    def track(self, it, a):
        track_unit(it, "self", a.self)
        it.ctx.track("p", a.p)

    def pval(self, a):
        p = a.p.value if isinstance(a.p, SRat) else a.p
        return to_real(p)

    def raises(self, it, a):
        # logarithmic units and (C08) units with a zero-point offset refuse every power but 1
        return {"InvalidUnitOperation": z3.And(
            z3.Or(is_ref(S.dim(a.self), "logarithmic"), S.offset(a.self) != 0),
            self.pval(a) != 1)}

    def result(self, it, a):
        from pyvc.core import is_num
        p = a.p.value if isinstance(a.p, SRat) else a.p
        if not is_num(p):
            raise Unsupported("Unit ** non-number")
        return make_unit(it, "pow", registry=a.self.fields["registry"], positive_scale=False)

    def ensures(self, it, a, r, old):
        p = self.pval(a)
        d = S.dim(r)
        return [
            ("scale of u**p is scale(u)**p", S.scale(r) == _pow_term(S.scale(a.self), a.p)),
            ("dimension of u**p is p times the dimension",
             vec_is(d, [to_real(x) * p for x in S.dim(a.self).vec])),
            ("dimension object canonical", _b(d.canon())),
            ("registry preserved", r.fields["registry"] is a.self.fields["registry"]),
            ("expression is expr**p", r.fields["expr"].term == e_pow(a.self.fields["expr"].term, p)),
            ("u**1 keeps the zero-point offset (u**1 == u); every other power has none",
             S.offset(r) == z3.If(p == 1, S.offset(a.self), z3.RealVal(0))),
        ]

    def canary(self, it, a, r, old):
        return S.scale(r) == S.scale(a.self)


def _pow_term(x, p):
    p = p.value if isinstance(p, SRat) else p
    if not is_z3(p):
        p = Fraction(p)
        if p.denominator == 1 and abs(p.numerator) <= 8:
            r = z3.RealVal(1)
            for _ in range(abs(p.numerator)):
                r = r * x
            return r if p >= 0 else 1 / r
    return rpow(x, to_real(p))


class UnitPowOffsetGuard(UnitPow):
    """C08.P3: raising an offset-scale unit to a power other than 1 must refuse"""
    tag = "offset-guard"
    properties = ("C08",)

    def raises(self, it, a):
        return {"InvalidUnitOperation": z3.And(
            z3.Or(is_ref(S.dim(a.self), "logarithmic"), S.offset(a.self) != 0), self.pval(a) != 1)}

    def ensures(self, it, a, r, old):
        return []

    def canary(self, it, a, r, old):
        return None

    def replay(self, model, label):
        from .replaylib import script
        return script(model, r'''
reg = UnitRegistry(add_default_symbols=False)
MODEL.setdefault("self.prefix", "")
u, _ = build_unit(reg, "xself", MODEL, "self")
p = num(MODEL.get("p", 2))
try:
    r = u ** p
except unyt.exceptions.InvalidUnitOperation as e:
    print("refused:", e); sys.exit(0)
print("unit", u, "offset", u.base_offset, "** %r ->" % p, r, "offset", r.base_offset)
if u.base_offset != 0 and p != 1:
    print("VIOLATION reproduced: an offset-scale unit was raised to a power"); sys.exit(1)
sys.exit(0)
''')


class UnitEq(Contract):
    name = "unyt.unit_object.Unit.__eq__"
    properties = ("C05", "C01", "C19")

    def formals(self, it):
        return {"self": make_unit(it, "self"), "u": make_unit(it, "u")}

    def track(self, it, a):
        track_unit(it, "self", a.self)
        track_unit(it, "u", a.u)

    def result(self, it, a):
        if not (isinstance(a.u, SObj) and a.u.cls.name == "Unit"):
            return False
        return it.fresh_bool("units_equal")

    def spec(self, it, a):
        from pyvc.unyt_domain import _math_isclose
        return z3.And(to_z3(_math_isclose(it, S.scale(a.self), S.scale(a.u))),
                      to_z3(_math_isclose(it, S.offset(a.self), S.offset(a.u))),
                      S.dim_eq(S.dim(a.self), S.dim(a.u)))

    def ensures(self, it, a, r, old):
        if not (isinstance(a.u, SObj) and a.u.cls.name == "Unit"):
            return [("not equal to a non-Unit", r is False)]
        return [("equality is decided by scale, offset and dimension only",
                 to_z3(it.truth_term(r)) == self.spec(it, a))]

    def canary(self, it, a, r, old):
        return to_z3(it.truth_term(r)) == z3.BoolVal(True)


class SameDimensionsAs(Contract):
    name = "unyt.unit_object.Unit.same_dimensions_as"
    properties = ("C01", "C09", "C11")

    def formals(self, it):
        return {"self": make_unit(it, "self"), "other_unit": make_unit(it, "other")}

    def result(self, it, a):
        return it.fresh_bool("same_dims")

    def ensures(self, it, a, r, old):
        return [("true exactly when the dimension vectors are equal",
                 to_z3(it.truth_term(r)) == S.dim_eq(S.dim(a.self), S.dim(a.other_unit)))]

    def canary(self, it, a, r, old):
        return to_z3(it.truth_term(r)) == z3.BoolVal(True)


class AsCoeffUnit(Contract):
    name = "unyt.unit_object.Unit.as_coeff_unit"
    properties = ("C05", "C04")

    def formals(self, it):
        return {"self": make_unit(it, "self")}

    def track(self, it, a):
        track_unit(it, "self", a.self)

    def snapshot(self, it, a):
        return dict(a.self.fields)

    def result(self, it, a):
        c = it.fresh_real("coeff")
        it.assume(c > 0)
        return (c, make_unit(it, "ret", registry=a.self.fields["registry"], positive_scale=False))

    def ensures(self, it, a, r, old):
        c, ret = r
        same = [(k, a.self.fields[k] is old[k]) for k in old]
        return [
            ("coeff * scale(ret) == scale(self): same unit as before", to_real(c) * S.scale(ret) == S.scale(a.self)),
            ("dimension unchanged", z3.And(S.dim_eq(S.dim(ret), S.dim(a.self)),
                                           to_z3(S.dim(ret).ref) == to_z3(S.dim(a.self).ref))),
            ("offset unchanged", S.offset(ret) == S.offset(a.self)),
            ("registry unchanged", ret.fields["registry"] is a.self.fields["registry"]),
            ("self is not modified", all(v for _, v in same)),
            ("expr(self) == coeff * expr(ret)",
             a.self.fields["expr"].term == e_mul(e_num(to_real(c)), ret.fields["expr"].term)),
        ]

    def canary(self, it, a, r, old):
        return to_real(r[0]) == 1


# ------------------------------------------------------------------ unit rules of the ufuncs
def _opt_unit(it, label):
    """unit2 of the unary/binary unit rules may be None: case split"""
    if it.branch(it.fresh_bool(label + "_is_none")):
        return None
    return make_unit(it, label)


class PreserveUnits(Contract):
    name = "unyt.array._preserve_units"
    properties = ("C08", "C04", "C01")

    def formals(self, it):
        return {"unit1": make_unit(it, "unit1"), "unit2": _opt_unit(it, "unit2")}

    def track(self, it, a):
        track_unit(it, "unit1", a.unit1)
        if a.unit2 is not None:
            track_unit(it, "unit2", a.unit2)

    def label_is_unit2(self, a):
        if a.unit2 is None:
            return z3.BoolVal(False)
        return z3.And(is_ref(S.dim(a.unit1), "temperature"), S.offset(a.unit1) == 0,
                      S.offset(a.unit2) != 0)

    def result(self, it, a):
        if a.unit2 is not None and it.branch(self.label_is_unit2(a)):
            return (1, a.unit2)
        return (1, a.unit1)

    def ensures(self, it, a, r, old):
        mul, lab = r
        c = self.label_is_unit2(a)
        return [
            ("no coefficient", mul == 1),
            ("a sum of a temperature difference and a temperature point is labelled with the "
             "point scale; every other sum keeps the left unit",
             z3.And(z3.Implies(c, lab is a.unit2), z3.Implies(z3.Not(c), lab is a.unit1))
             if a.unit2 is not None else (lab is a.unit1)),
        ]

    def canary(self, it, a, r, old):
        return r[1] is a.unit2 if a.unit2 is not None else None


class DifferenceUnits(Contract):
    name = "unyt.array._difference_units"
    properties = ("C08", "C04", "C01", "C11", "C13")
    may_raise = ()

    def formals(self, it):
        return {"unit1": make_unit(it, "unit1"), "unit2": _opt_unit(it, "unit2")}

    def track(self, it, a):
        track_unit(it, "unit1", a.unit1)
        if a.unit2 is not None:
            track_unit(it, "unit2", a.unit2)

    # string facts used by the rule
    def _s(self, a):
        s1 = S.urepr(a.unit1)
        s2 = S.urepr(a.unit2) if a.unit2 is not None else None
        return s1, s2

    def _eq12(self, it, a):
        return UnitEq().spec(it, type("A", (), {"self": a.unit2, "u": a.unit1}))

    def cases(self, it, a):
        """(is_temperature, differ, keep1, take2) as z3 terms"""
        temp = is_ref(S.dim(a.unit1), "temperature")
        s1, s2 = self._s(a)
        if a.unit2 is None:
            return temp, z3.BoolVal(False), z3.BoolVal(False), z3.BoolVal(False)
        # two scales without a zero point (K - mK, K - R): an ordinary difference, never refused
        temp = z3.And(temp, z3.Not(self.both_zero(a)))
        differ = z3.Not(self._eq12(it, a))
        keep1 = z3.And(z3.Contains(s2, s1), z3.PrefixOf(z3.StringVal("delta_"), s2))
        take2 = z3.And(z3.Not(keep1), z3.Contains(s1, s2), z3.PrefixOf(z3.StringVal("delta_"), s1))
        return temp, differ, keep1, take2

    def both_zero(self, a):
        if a.unit2 is None:
            return z3.BoolVal(False)
        return z3.And(S.offset(a.unit1) == 0, S.offset(a.unit2) == 0)

    def raises(self, it, a):
        temp, differ, keep1, take2 = self.cases(it, a)
        s1, _ = self._s(a)
        sv = z3.StringVal
        return {
            "InvalidUnitOperation": z3.And(temp, differ, z3.Not(keep1), z3.Not(take2)),
            "RuntimeError": z3.And(temp, z3.Not(differ), S.offset(a.unit1) != 0,
                                   s1 != sv("degF"), s1 != sv("degC")),
        }

    def result(self, it, a):
        temp, differ, keep1, take2 = self.cases(it, a)
        if a.unit2 is not None and it.branch(z3.And(is_ref(S.dim(a.unit1), "temperature"),
                                                   self.both_zero(a))):
            return (1, a.unit1)
        if not it.branch(temp):
            return PreserveUnits().apply(it, {"unit1": a.unit1, "unit2": a.unit2})
        if it.branch(differ):
            if it.branch(keep1):
                return (1, a.unit1)
            return (1, a.unit2)
        if it.branch(S.offset(a.unit1) == 0):
            return (1, a.unit1)
        s1, _ = self._s(a)
        name = "delta_degF" if it.branch(s1 == z3.StringVal("degF")) else "delta_degC"
        u = it.domain.named_unit(it, name)
        if u.fields["registry"] is not a.unit1.fields["registry"]:
            # the difference unit re-bound to the operands' registry
            u = SObj(u.cls, dict(u.fields, registry=a.unit1.fields["registry"]), label=name + "_rebound")
        return (1, u)

    def ensures(self, it, a, r, old):
        mul, lab = r
        temp, differ, keep1, take2 = self.cases(it, a)
        s1, _ = self._s(a)
        out = [("no coefficient", mul == 1)]
        # C08: point - point (same scale) gives a difference scale of the same degree size
        out.append(("point - point of one scale is labelled with a difference scale (zero offset) "
                    "of the same degree size",
                    z3.Implies(z3.And(temp, z3.Not(differ), S.offset(a.unit1) != 0),
                               z3.And(S.offset(lab) == 0, S.scale(lab) == S.scale(a.unit1),
                                      _b(S.dim(lab).is_base("temperature"))))))
        out.append(("difference - difference of one scale keeps the unit",
                    z3.Implies(z3.And(temp, z3.Not(differ), S.offset(a.unit1) == 0),
                               lab is a.unit1)))
        if a.unit2 is not None:
            out.append(("difference - difference (no zero points) is labelled with the left unit",
                        z3.Implies(z3.And(is_ref(S.dim(a.unit1), "temperature"), self.both_zero(a)),
                                   lab is a.unit1)))
        if a.unit2 is not None:
            out.append(("point - its own delta unit keeps the point scale",
                        z3.Implies(z3.And(temp, differ, keep1), lab is a.unit1)))
        out.append(("C11/C13: the label is one of the operands' units or is bound to the left operand's registry "
                    "(not to the default registry)",
                    lab is a.unit1 or lab is a.unit2 or
                    (isinstance(lab, SObj) and lab.fields.get("registry") is a.unit1.fields.get("registry"))))
        return out

    def requires(self, it, a):
        # the property quantifies over the library's temperature units: a unit printed as
        # degC / degF has the table's degree size (ground fact C02.G1: 1 and 5/9).  A registry
        # that re-defines these two names is outside the statement.
        s1, _ = self._s(a)
        sv = z3.StringVal
        temp = is_ref(S.dim(a.unit1), "temperature")
        return [("temperature units named degC / degF have the table's degree size",
                 z3.And(z3.Implies(z3.And(temp, s1 == sv("degC")), S.scale(a.unit1) == 1),
                        z3.Implies(z3.And(temp, s1 == sv("degF")),
                                   S.scale(a.unit1) == z3.RealVal("5/9"))))]

    def apply(self, it, bound):
        # decide the dimension test first: for non-temperature operands the rule is
        # _preserve_units and none of the string conditions enters the path condition
        from pyvc.contracts import Args
        a = Args(bound)
        if not it.branch(is_ref(S.dim(a.unit1), "temperature")):
            return PreserveUnits().apply(it, {"unit1": a.unit1, "unit2": a.unit2})
        return Contract.apply(self, it, bound)

    def canary(self, it, a, r, old):
        return r[1] is a.unit1


# ------------------------------------------------------------------ simplify and the product rules
class CancelMul(Contract):
    """trusted/abstract: sympy-internal rewriting of the expression; nothing but 'returns some
    expression' is assumed (that the rewritten expression still denotes the same unit is
    covered by the bounded layer of C05)"""
    name = "unyt.unit_object._cancel_mul"
    properties = ("C05",)
    trusted = True
    exact = True        # the result is fully havoc'd: callers may rely on nothing, so a
    #                     counter-model that crosses it is still a real counter-model
    assumptions = ("_cancel_mul(expr, registry) returns a sympy expression and modifies nothing "
                   "(assumed; sympy rewriting not modelled)",)

    def formals(self, it):
        return {"expr": SExpr.fresh(it, "e"), "registry": make_registry(it, "r")}

    def apply(self, it, bound):
        return SExpr.fresh(it, "cancelled")


class UnitSimplify(Contract):
    name = "unyt.unit_object.Unit.simplify"
    properties = ("C05", "C04", "C18")

    def formals(self, it):
        return {"self": make_unit(it, "self")}

    def snapshot(self, it, a):
        return dict(a.self.fields)

    def havoc(self, it, a):
        a.self.fields["expr"] = SExpr.fresh(it, "simplified")

    def result(self, it, a):
        return a.self

    def ensures(self, it, a, r, old):
        f = a.self.fields
        return [("returns self", r is a.self),
                ("only the expression is rewritten: scale, offset, dimension, registry untouched",
                 all(f[k] is old[k] for k in old if k != "expr"))]

    def canary(self, it, a, r, old):
        return a.self.fields["expr"] is old["expr"]


class _ProductRule(Contract):
    """_multiply_units / _divide_units: (coefficient, unit) with coefficient*scale(unit) equal
    to the product / quotient of the scales -- whatever the simplifier cancelled"""
    properties = ("C04", "C05", "C08")
    sign = 1

    def formals(self, it):
        return {"unit1": make_unit(it, "unit1"), "unit2": make_unit(it, "unit2")}

    def track(self, it, a):
        track_unit(it, "unit1", a.unit1)
        track_unit(it, "unit2", a.unit2)

    def _op(self):
        return UnitMul() if self.sign == 1 else UnitTrueDiv()

    def _args(self, a):
        x = type("A", (), {})()
        x.self, x.u = a.unit1, a.unit2
        return x

    def raises(self, it, a):
        return self._op().raises(it, self._args(a))

    def result(self, it, a):
        c = it.fresh_real("rule_coeff")
        it.assume(c > 0)
        return (c, make_unit(it, "rule_unit", registry=a.unit1.fields["registry"],
                             positive_scale=False))

    def ensures(self, it, a, r, old):
        c, u = r
        s1, s2 = S.scale(a.unit1), S.scale(a.unit2)
        d = S.dim(u)
        want = s1 * s2 if self.sign == 1 else s1 / s2
        return [
            ("coefficient * scale(unit) == %s of the operand scales" % (
                "product" if self.sign == 1 else "quotient"), to_real(c) * S.scale(u) == want),
            ("coefficient is positive", to_real(c) > 0),
            ("dimension is the %s of the dimensions" % ("product" if self.sign == 1 else "quotient"),
             vec_is(d, vec_sum(S.dim(a.unit1), S.dim(a.unit2), self.sign))),
            ("dimension object canonical", _b(d.canon())),
            ("bound to the left operand's registry",
             u.fields["registry"] is a.unit1.fields["registry"]),
            ("zero-point offset as for the product / quotient of the units",
             S.offset(u) == self._offset(a)),
        ]

    def _offset(self, a):
        x = self._args(a)
        op = self._op()
        nz = op.offsets_nonzero(x)
        if self.sign == 1:
            return z3.If(nz, z3.If(z3.And(dim_in_temp_angle(x.u), dimless(x.self)),
                                   S.offset(x.u), S.offset(x.self)), z3.RealVal(0))
        return z3.If(nz, S.offset(x.self), z3.RealVal(0))

    def canary(self, it, a, r, old):
        return to_real(r[0]) == 1


class MultiplyUnits(_ProductRule):
    name = "unyt.array._multiply_units"
    sign = 1


class DivideUnits(_ProductRule):
    name = "unyt.array._divide_units"
    sign = -1
