"""Helpers that turn verifier counter-models into self-contained replay scripts which run
the *real* code under /venv/bin/python and exit 1 iff the violation reproduces."""
import json

PRELUDE = r'''
import sys, math
from fractions import Fraction as F
import unyt
from unyt import UnitRegistry, Unit
from unyt._unit_lookup_table import unit_prefixes
import unyt.dimensions as D

BASE = ["mass", "length", "time", "temperature", "angle", "current_mks",
        "luminous_intensity", "logarithmic"]

def num(s):
    try:
        return float(F(str(s)))
    except Exception:
        return float(s)

def dim_from(model, label):
    d = D.dimensionless
    for b in BASE:
        e = F(str(model.get(label + ".dim." + b, "0")))
        if e != 0:
            d = d * getattr(D, b) ** (int(e) if e.denominator == 1 else float(e))
    return d

def build_unit(reg, name, model, label):
    """a real Unit with the model's scale / offset / prefix / dimension"""
    scale = num(model[label + ".scale"]); offset = num(model[label + ".offset"])
    prefix = model.get(label + ".prefix", "") or ""
    dim = dim_from(model, label)
    temperature_like = (dim == D.temperature)
    if prefix and prefix in unit_prefixes and temperature_like:
        pv = unit_prefixes[prefix][0]
        reg.add(name, scale / pv, dim, offset=offset, prefixable=True)
        return Unit(prefix + name, registry=reg), pv
    reg.add(name, scale, dim, offset=offset)
    return Unit(name, registry=reg), None

def SI(x, u, pv):
    off = u.base_offset / pv if pv else u.base_offset
    return (x - off) * u.base_value

def close(a, b, tol=1e-9):
    return abs(a - b) <= tol * max(1.0, abs(a), abs(b))
'''


def script(model, body):
    return (PRELUDE + "\nimport json\nMODEL = json.loads(%r)\n" % json.dumps(model, default=str)
            + body)


UFUNC_RUNTIME = r'''
import numpy as np
import warnings
warnings.filterwarnings("ignore")

def dtype_of(model, label):
    kind = model.get(label + ".kind", "f"); size = int(model.get(label + ".itemsize", 8))
    if kind == "b":
        return np.dtype(bool)
    try:
        return np.dtype(kind + str(size))
    except TypeError:
        return np.dtype("f8")

def make_data(model, label):
    dt = dtype_of(model, label)
    x = num(model.get(label + ".elem", 1))
    if dt.kind in "iu":
        x = int(round(x))
    if dt.kind == "b":
        x = bool(x)
    is0d = str(model.get(label + ".is0d", "False")) == "True"
    size = int(model.get(label + ".size", 2))
    if is0d:
        return np.array(x, dtype=dt)
    return np.full((max(size, 1),), x, dtype=dt)

def named_unit(reg, name, model, label):
    """unit with the contract's fixed NAME and the model's scale / zero point"""
    scale = num(model[label + ".scale"]); offset = num(model[label + ".offset"])
    dim = dim_from(model, label)
    if name in ("mK", "mdegC"):
        base = name[1:]
        if base not in reg.lut:
            reg.add(base, scale / 1e-3, dim, offset=offset, prefixable=True)
        return Unit(name, registry=reg), 1e-3
    if name not in reg.lut:
        reg.add(name, scale, dim, offset=offset)
    return Unit(name, registry=reg), None

def si(x, u, pv):
    off = u.base_offset / pv if pv else u.base_offset
    return (np.asarray(x, dtype=complex if np.iscomplexobj(x) else float) - off) * u.base_value

def snapshot(o):
    if isinstance(o, np.ndarray):
        return (o.view(np.ndarray).tobytes(), o.dtype, getattr(o, "units", None))
    return None

def unchanged(o, snap):
    if snap is None:
        return True
    return (o.view(np.ndarray).tobytes() == snap[0] and o.dtype == snap[1]
            and (snap[2] is None or o.units == snap[2]))
'''


def ufunc_script(model, ufunc, config, kind, sign=1, names=None, method="__call__"):
    head = script(model, UFUNC_RUNTIME)
    body = r'''
UFUNC = %(ufunc)r; CONFIG = %(config)r; KIND = %(kind)r; SIGN = %(sign)r; NAMES = %(names)r
reg = UnitRegistry(add_default_symbols=False)
ops = []; units = []; pvs = []
for n, k in enumerate(CONFIG):
    lab = "i%%d" %% n
    if k in ("q", "Q"):
        if NAMES:
            u, pv = named_unit(reg, NAMES[n], MODEL, "u%%d" %% n)
        else:
            MODEL.setdefault("u%%d.prefix" %% n, "")
            u, pv = build_unit(reg, "x%%d" %% n, MODEL, "u%%d" %% n)
        ops.append(unyt.unyt_array(make_data(MODEL, lab), u)); units.append(u); pvs.append(pv)
    elif k == "n":
        ops.append(make_data(MODEL, lab)); units.append(None); pvs.append(None)
    elif k == "s":
        ops.append(num(MODEL.get(lab, 1))); units.append(None); pvs.append(None)
    else:
        ops.append(0); units.append(None); pvs.append(None)
snaps = [snapshot(o) for o in ops]
fn = getattr(np, UFUNC)
print("call: np.%%s(%%r, %%r)" %% (UFUNC, ops[0], ops[1]))
try:
    res = fn(*ops); raised = None
except Exception as e:
    res = None; raised = e
print("->", repr(res) if raised is None else "raised %%s: %%s" %% (type(raised).__name__, str(raised)[:120]))
bad = []
for n, (o, s) in enumerate(zip(ops, snaps)):
    if not unchanged(o, s):
        bad.append("operand %%d was modified" %% n)
def dimof(n):
    return units[n].dimensions if units[n] is not None else D.dimensionless
def bare_zero(n):
    return units[n] is None and not np.any(np.asarray(ops[n]) != 0)
def SI(n):
    if units[n] is None:
        return np.asarray(ops[n], dtype=float)
    return si(ops[n].view(np.ndarray), units[n], pvs[n])
mismatch = dimof(0) != dimof(1) and not bare_zero(0) and not bare_zero(1)
tol = 1e-9
def close(x, y):
    x = np.asarray(x); y = np.asarray(y)
    return np.all(np.abs(x - y) <= tol * np.maximum(1.0, np.maximum(np.abs(x), np.abs(y))))
if raised is None:
    if KIND in ("additive", "homog") and mismatch:
        bad.append("operands of different dimension were combined")
    if KIND == "compare":
        either_dimless = dimof(0) == D.dimensionless or dimof(1) == D.dimensionless
        if mismatch and not either_dimless:
            if UFUNC == "equal" and np.any(res):
                bad.append("== of different dimensions is not all-False")
            elif UFUNC == "not_equal" and not np.all(res):
                bad.append("!= of different dimensions is not all-True")
            elif UFUNC not in ("equal", "not_equal"):
                bad.append("ordering comparison of different dimensions returned")
        elif not mismatch and not bare_zero(0) and not bare_zero(1):
            want = fn(SI(0).real, SI(1).real)
            if np.any(np.asarray(res) != want) and not close(SI(0), SI(1)):
                bad.append("verdict %%r differs from the comparison of SI magnitudes %%r" %% (res, want))
    if KIND in ("additive", "homog") and not mismatch and hasattr(res, "units"):
        a, b = (0 if bare_zero(0) else SI(0)), (0 if bare_zero(1) else SI(1))
        want = a + SIGN * b if KIND == "additive" else fn(np.real(a), np.real(b))
        got = si(res.view(np.ndarray), res.units, None)
        if not close(got, want):
            bad.append("SI(result) = %%r, mathematics on SI magnitudes gives %%r" %% (got, want))
    if KIND == "mult" and hasattr(res, "units"):
        want = SI(0) * SI(1) if UFUNC == "multiply" else SI(0) / SI(1)
        got = si(res.view(np.ndarray), res.units, None)
        if np.all(np.isfinite(want)) and not close(got, want):
            bad.append("SI(result) = %%r, mathematics on SI magnitudes gives %%r" %% (got, want))
    if KIND == "temperature" and hasattr(res, "units"):
        p = [u.base_offset != 0 for u in units]
        K = [SI(0), SI(1)]
        Dk = [ops[n].view(np.ndarray) * units[n].base_value for n in (0, 1)]
        L = res.units; lp = L.base_offset != 0
        pvL = 1e-3 if str(L.expr).startswith("m") and str(L.expr)[1:] in ("K", "degC") else None
        KL = si(res.view(np.ndarray), L, pvL); DL = res.view(np.ndarray) * L.base_value
        if SIGN == 1:
            if p[0] and not p[1]: want, got, lab = K[0] + Dk[1], KL, True
            elif p[1] and not p[0]: want, got, lab = Dk[0] + K[1], KL, True
            elif not p[0] and not p[1]: want, got, lab = Dk[0] + Dk[1], DL, False
            else: want = None
        else:
            if p[0] and not p[1]: want, got, lab = K[0] - Dk[1], KL, True
            elif not p[0] and not p[1]: want, got, lab = Dk[0] - Dk[1], DL, False
            elif p[0] and p[1]: want, got, lab = K[0] - K[1], DL, False
            else: want = None
        if want is not None:
            if lab != lp:
                bad.append("result labelled %%s: expected a %%s scale" %% (L, "point" if lab else "difference"))
            elif not close(got, want):
                bad.append("kelvin value of the result %%r, affine arithmetic gives %%r" %% (got, want))
        if p[0] and p[1] and units[0] != units[1]:
            bad.append("two different offset scales were combined")
    if hasattr(res, "shape") and hasattr(res, "units"):
        if res.shape == () and not isinstance(res, unyt.unyt_quantity):
            bad.append("0-d result is not a unyt_quantity")
        if res.size > 1 and isinstance(res, unyt.unyt_quantity):
            bad.append("multi-element unyt_quantity")
for b in bad:
    print("VIOLATION reproduced:", b)
sys.exit(1 if bad else 0)
''' % {"ufunc": ufunc, "config": tuple(config), "kind": kind, "sign": sign, "names": names}
    return head + body
