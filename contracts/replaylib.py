"""Helpers that turn verifier counter-models into self-contained replay scripts which run
the *real* code under /venv/bin/python and exit 1 iff the violation reproduces."""
import json

PRELUDE = r'''
import sys, math
from fractions import Fraction as F
import unyt
from unyt import UnitRegistry, Unit
from unyt._unit_lookup_table import unit_prefixes
import unyt.dimensions as D

BASE = ["mass", "length", "time", "temperature", "angle", "current_mks",
        "luminous_intensity", "logarithmic"]

def num(s):
    try:
        return float(F(str(s)))
    except Exception:
        return float(s)

def dim_from(model, label):
    d = D.dimensionless
    for b in BASE:
        e = F(str(model.get(label + ".dim." + b, "0")))
        if e != 0:
            d = d * getattr(D, b) ** (int(e) if e.denominator == 1 else float(e))
    return d

def build_unit(reg, name, model, label):
    """a real Unit with the model's scale / offset / prefix / dimension"""
    scale = num(model[label + ".scale"]); offset = num(model[label + ".offset"])
    prefix = model.get(label + ".prefix", "") or ""
    dim = dim_from(model, label)
    temperature_like = (dim == D.temperature)
    if prefix and prefix in unit_prefixes and temperature_like:
        pv = unit_prefixes[prefix][0]
        reg.add(name, scale / pv, dim, offset=offset, prefixable=True)
        return Unit(prefix + name, registry=reg), pv
    reg.add(name, scale, dim, offset=offset)
    return Unit(name, registry=reg), None

def SI(x, u, pv):
    off = u.base_offset / pv if pv else u.base_offset
    return (x - off) * u.base_value

def close(a, b, tol=1e-9):
    return abs(a - b) <= tol * max(1.0, abs(a), abs(b))
'''


def script(model, body):
    return (PRELUDE + "\nimport json\nMODEL = json.loads(%r)\n" % json.dumps(model, default=str)
            + body)
