"""Sidecar contracts for yt-project/unyt, keyed by qualified function name.

callsite_contracts(): the default contract used *at call sites* for each function (classes
carrying a `tag` are extra obligations on the same function and never used at call sites).
"""
import importlib
import os
import pkgutil

_MODULES = None


def modules():
    global _MODULES
    if _MODULES is None:
        _MODULES = []
        here = os.path.dirname(__file__)
        for m in pkgutil.iter_modules([here]):
            if m.name in ("spec",) or m.name.startswith("_"):
                continue
            _MODULES.append(importlib.import_module("contracts." + m.name))
    return _MODULES


def callsite_contracts():
    from pyvc.contracts import Contract
    out = {}
    for m in modules():
        for v in vars(m).values():
            if isinstance(v, type) and issubclass(v, Contract) and v is not Contract \
                    and v.name and not getattr(v, "tag", None) and v.__module__ == m.__name__ \
                    and not getattr(v, "callsite_disabled", False):
                out[v.name] = v()
    return out
