"""Contracts for the result-class decisions, unit-stripping accessors and memory sharing of
unyt_array (C16, C18): .d / .ndview / ndarray_view() are views; .v / .value / to_ndarray() /
copy() are copies; indexing yields a quantity for 0-d results with the parent's unit and name;
unyt_quantity refuses more than one element."""
import z3

from pyvc.contracts import Contract
from pyvc.core import to_real, to_z3, is_z3, Unsupported, SObj, ClassRef, Opaque
from pyvc.unyt_domain import make_unit, track_unit, _b
from pyvc import np_domain as N
from . import spec as S
from .ufunc import snapshot_array, unchanged


class _Accessor(Contract):
    properties = ("C16", "C18")
    shares = True                 # result shares memory with self
    callsite_disabled = True

    def formals(self, it):
        return {"self": N.make_unyt_array(it, "self")}

    def snapshot(self, it, a):
        return snapshot_array(a.self)

    def ensures(self, it, a, r, old):
        out = [("returns a bare ndarray (no units)", isinstance(r, N.SNd))]
        if isinstance(r, N.SNd):
            b = r.buf
            if self.shares:
                out.append(("the result is a view: it shares the parent's memory", b is old["buf"]))
            else:
                out.append(("the result is independent data: fresh memory", b is not old["buf"]))
            out.append(("same numbers", True if b.elem is old["elem"] else to_real(b.elem) == to_real(old["elem"])))
            out.append(("same dtype", z3.And(to_z3(b.kind) == to_z3(old["kind"]),
                                             to_z3(b.itemsize) == to_z3(old["itemsize"]))))
            out.append(("same shape", z3.And(to_z3(r.scalar) == to_z3(N.arr_scalar(a.self)),
                                             to_z3(r.size) == to_z3(N.arr_size(a.self)))))
        return out + unchanged("self", a.self, old)

    def canary(self, it, a, r, old):
        return z3.BoolVal(False)


def _acc(name, attr, shares):
    cls = type(name, (_Accessor,), {"name": "unyt.array.unyt_array." + attr, "shares": shares})
    cls.__module__ = __name__
    globals()[name] = cls
    return name


ALL = [_acc("Acc_d", "d", True), _acc("Acc_ndview", "ndview", True),
       _acc("Acc_ndarray_view", "ndarray_view", True), _acc("Acc_v", "v", False),
       _acc("Acc_value", "value", False), _acc("Acc_to_ndarray", "to_ndarray", False)]


class GetItem(Contract):
    """indexing: a 0-d result is a unyt_quantity carrying the parent's unit and name; any other
    result is what ndarray indexing gives (a view/copy of the same class, units and name copied
    by __array_finalize__)"""
    name = "unyt.array.unyt_array.__getitem__"
    properties = ("C16",)
    callsite_disabled = True

    def formals(self, it):
        return {"self": N.make_unyt_array(it, "self"), "item": Opaque("index")}

    def snapshot(self, it, a):
        return snapshot_array(a.self)

    def ensures(self, it, a, r, old):
        if not N.is_unyt_array(r):
            return [("indexing a unyt_array gives a unyt object", False)]
        isq = r.cls.name == "unyt_quantity"
        sc = to_z3(N.arr_scalar(r))
        return [("a 0-d result is a unyt_quantity", z3.Implies(sc, z3.BoolVal(isq))),
                ("the result carries the parent's unit", r.fields["units"] is old["units"]),
                ("the result carries the parent's name", r.fields.get("name") is a.self.fields.get("name")),
                ("same numbers (one arbitrary element)",
                 True if N.arr_elem(r) is old["elem"] else to_real(N.arr_elem(r)) == to_real(old["elem"])),
                ] + unchanged("self", a.self, old)

    def canary(self, it, a, r, old):
        return z3.BoolVal(False)


ALL.append("GetItem")


class QuantityNew(Contract):
    """unyt_quantity(...) never yields more than one element"""
    name = "unyt.array.unyt_quantity.__new__"
    properties = ("C16",)
    callsite_disabled = True

    def formals(self, it):
        from pyvc.unyt_domain import cls_of
        return {"cls": ClassRef(cls_of(it, "unyt_quantity")), "input_scalar": N.make_ndarray(it, "data"),
                "units": make_unit(it, "u")}

    def raises(self, it, a):
        return {"RuntimeError": to_z3(N.arr_size(a.input_scalar)) > 1}

    def ensures(self, it, a, r, old):
        return [("a unyt_quantity has at most one element", to_z3(N.arr_size(r)) <= 1),
                ("it is a unyt_quantity", N.is_unyt_array(r) and r.cls.name == "unyt_quantity"),
                ("labelled with the given unit", r.fields["units"] is a.units)]

    def canary(self, it, a, r, old):
        return z3.BoolVal(False)


ALL.append("QuantityNew")


class ArrayNewFromNdarray(Contract):
    """unyt_array(<ndarray>, <Unit>): a view of the caller's memory (C16: 'building an array from a
    NumPy array with the constructor is a view'), labelled with the unit, same numbers, same dtype"""
    name = "unyt.array.unyt_array.__new__"
    tag = "ndarray"
    properties = ("C16", "C18")
    callsite_disabled = True

    def formals(self, it):
        from pyvc.unyt_domain import cls_of
        return {"cls": ClassRef(cls_of(it, "unyt_array")), "input_array": N.make_ndarray(it, "data"),
                "units": make_unit(it, "u")}

    def requires(self, it, a):
        k = to_z3(N.arr_kind(a.input_array))
        return [("numeric data", z3.Or(k == N.sv("f"), k == N.sv("i"), k == N.sv("u"), k == N.sv("c")))]

    def snapshot(self, it, a):
        return snapshot_array(a.input_array)

    def ensures(self, it, a, r, old):
        ok = N.is_unyt_array(r)
        if not ok:
            return [("the result is a unyt_array", False)]
        return [("C16: the result is a view of the caller's memory", N.arr_buf(r) is old["buf"]),
                ("it is labelled with the given unit", r.fields["units"] is a.units),
                ("C18: the caller's data is not written", N.arr_buf(a.input_array).writes == old["writes"]
                 and N.arr_buf(a.input_array).elem is old["elem"]),
                ("it is a unyt_array", r.cls.name == "unyt_array")]

    def canary(self, it, a, r, old):
        return z3.BoolVal(False)


ALL.append("ArrayNewFromNdarray")


class UnitMulData(Contract):
    """Unit.__mul__ with data (ndarray * Unit): a copy (fresh memory, same numbers), a
    unyt_quantity for shape () and a unyt_array otherwise, labelled with the unit"""
    name = "unyt.unit_object.Unit.__mul__"
    tag = "data"
    properties = ("C16", "C06", "C07")

    def formals(self, it):
        return {"self": make_unit(it, "self"), "u": N.make_ndarray(it, "data")}

    def snapshot(self, it, a):
        return snapshot_array(a.u)

    def raises(self, it, a):
        k = to_z3(N.arr_kind(a.u))
        return {"InvalidUnitOperation": k == N.sv("b")}

    def ensures(self, it, a, r, old):
        if not N.is_unyt_array(r):
            return [("data * unit is a unyt object", False)]
        isq = r.cls.name == "unyt_quantity"
        sc = to_z3(N.arr_scalar(r))
        return [("shape () gives a unyt_quantity, anything else a unyt_array", sc == z3.BoolVal(isq)),
                ("multiplying by a unit copies the data", N.arr_buf(r) is not old["buf"]),
                ("same numbers", to_real(N.arr_elem(r)) == to_real(old["elem"])),
                ("same shape", z3.And(sc == to_z3(N.arr_scalar(a.u)),
                                      to_z3(N.arr_size(r)) == to_z3(N.arr_size(a.u)))),
                ("labelled with the unit", r.fields["units"] is a.self),
                ] + unchanged("data", a.u, old)

    def canary(self, it, a, r, old):
        return z3.BoolVal(False)


ALL.append("UnitMulData")


class _CoerceSeq(Contract):
    """_coerce_iterable_units on a python list (the constructor's and the binary ufuncs' route for a
    list of quantities).  C16: 'a list of quantities in mixed commensurable units is coerced to the
    first element's unit with values converted'; C01: members of different dimensions are refused and
    units are never silently dropped.  The list is symbolic in its members' units (scale, zero point,
    dimension) and readings; the array abstraction's arbitrary element is an arbitrarily chosen member."""
    name = "unyt.array._coerce_iterable_units"
    properties = ("C16", "C01", "C08")
    callsite_disabled = True
    config = ("Q", "Q")
    may_raise = ()

    def formals(self, it):
        ms = []
        for i, k in enumerate(self.config):
            if k == "Q":
                q = N.make_unyt_array(it, "m%d" % i, cls="unyt_quantity")
                it.assume(to_z3(N.arr_scalar(q)))
                ms.append(q)
            else:
                ms.append(it.fresh_real("m%d_number" % i))
        return {"input_object": ms}

    def track(self, it, a):
        from pyvc.unyt_domain import track_unit
        for i, m in enumerate(a.input_object):
            if N.is_unyt_array(m):
                N.track_array(it, "m%d" % i, m)
                track_unit(it, "u%d" % i, m.fields["units"])

    def requires(self, it, a):
        P = it.domain.prefix_table(it)
        out = []
        for i, m in enumerate(a.input_object):
            if N.is_unyt_array(m):
                u = m.fields["units"]
                out.append(("unit of member %d consistent with its table, non-empty string" % i,
                            z3.And(S.unit_wf(u, P), z3.Length(S.ustr(u)) >= 1)))
                k = to_z3(N.arr_kind(m))
                out.append(("member %d holds real numbers" % i, z3.Or(k == N.sv("f"), k == N.sv("i"), k == N.sv("u"))))
        return out

    def snapshot(self, it, a):
        return [snapshot_array(m) if N.is_unyt_array(m) else None for m in a.input_object]

    def quantities(self, a):
        return [m for m in a.input_object if N.is_unyt_array(m)]

    def mismatch(self, it, a):
        qs = self.quantities(a)
        u0 = qs[0].fields["units"]
        return z3.Or(*[z3.Not(S.dim_eq(S.dim(u0), S.dim(q.fields["units"]))) for q in qs[1:]]) \
            if len(qs) > 1 else z3.BoolVal(False)

    def raises(self, it, a):
        return {"IterableUnitCoercionError": self.mismatch(it, a)}

    def ensures(self, it, a, r, old):
        from .ufunc import units_equal
        P = it.domain.prefix_table(it)
        if not N.is_unyt_array(r):
            return [("C01/C16: the units of the members are not dropped (the result is a unyt_array)", False)]
        ru = r.fields["units"]
        u0 = a.input_object[0].fields["units"]
        out = [("C16: the result is labelled with the first member's unit",
                z3.And(S.scale(ru) == S.scale(u0), S.offset(ru) == S.offset(u0), S.dim_eq(S.dim(ru), S.dim(u0)))),
               ("C16: the result owns fresh memory",
                all(N.arr_buf(r) is not s["buf"] for s in old if s is not None))]
        member = getattr(N.arr_buf(r), "member", None)
        if member is None:
            return out + [("C16: the result holds the members' numbers", False)]
        i, _m = member
        ui, e = old[i]["units"], old[i]["elem"]
        for s_ in old:
            it.ctx.instantiate(s_["elem"], z3.RealVal(0), z3.RealVal(1))
        # units equal under Unit.__eq__ (isclose on scale and zero point) are identified by the library
        all_equal = z3.And(*[units_equal(it, u0, q.fields["units"]) for q in self.quantities(a)[1:]])
        exact = z3.Or(z3.Not(all_equal),
                      z3.And(S.scale(ui) == S.scale(u0), S.eff_offset(ui, P) == S.eff_offset(u0, P)))
        out.append(("C16/C08: every member's value is converted to the first member's unit (same physical "
                    "quantity, zero point included)",
                    z3.Implies(exact, S.SI(N.arr_elem(r), ru, P) == S.SI(e, ui, P))))
        for n, (m_, s_) in enumerate(zip(a.input_object, old)):
            if s_ is not None:
                out += unchanged("member %d" % n, m_, s_)
        return out

    def on_raise(self, it, a, old, exc):
        out = []
        for n, (m_, s_) in enumerate(zip(a.input_object, old)):
            if s_ is not None:
                out += unchanged("member %d" % n, m_, s_)
        return out

    def canary(self, it, a, r, old):
        return z3.BoolVal(False)


class CoerceSeqQQ(_CoerceSeq):
    tag = "[Q,Q]"
    config = ("Q", "Q")


class CoerceSeqQQQ(_CoerceSeq):
    tag = "[Q,Q,Q]"
    config = ("Q", "Q", "Q")


class CoerceSeqNumberFirst(_CoerceSeq):
    """a plain number followed by quantities: the library refuses (AttributeError); whatever it does, it
    must not hand back a bare array with the quantities' units dropped"""
    tag = "[s,Q]"
    config = ("s", "Q")
    may_raise = ("AttributeError", "IterableUnitCoercionError")
    expect_return = False

    def raises(self, it, a):
        return {}

    def ensures(self, it, a, r, old):
        return [("C01: a sequence with a quantity in it is never coerced to a bare array (units dropped)",
                 N.is_unyt_array(r))]


ALL += ["CoerceSeqQQ", "CoerceSeqQQQ", "CoerceSeqNumberFirst"]


class SetItem(Contract):
    """a[index] = q (C01 'assigning into an array', C18 item assignment, C04-style value law): a value of another
    dimension is refused and the target keeps numbers and unit; otherwise the selected elements hold the SAME
    physical quantity expressed in the target's unit (zero point included), the target keeps its unit, the value
    is untouched.  Library design decision kept out of the refusal: a quantity whose unit equals the plain
    dimensionless unit is stored by its number (like a bare number)."""
    name = "unyt.array.unyt_array.__setitem__"
    properties = ("C01", "C18", "C16")
    callsite_disabled = True
    vcls = "unyt_quantity"

    def formals(self, it):
        v = N.make_unyt_array(it, "value", cls=self.vcls)
        return {"self": N.make_unyt_array(it, "self"), "item": Opaque("index"), "value": v}

    def track(self, it, a):
        from pyvc.unyt_domain import track_unit
        N.track_array(it, "self", a.self)
        N.track_array(it, "value", a.value)
        track_unit(it, "u_self", a.self.fields["units"])
        track_unit(it, "u_value", a.value.fields["units"])

    def requires(self, it, a):
        P = it.domain.prefix_table(it)
        out = []
        for n, x in (("target", a.self), ("value", a.value)):
            u = x.fields["units"]
            out.append(("unit of the %s consistent with its table, non-empty string" % n,
                        z3.And(S.unit_wf(u, P), z3.Length(S.ustr(u)) >= 1)))
        return out

    def snapshot(self, it, a):
        return {"self": snapshot_array(a.self), "value": snapshot_array(a.value)}

    def plain_number(self, it, a):
        from .ufunc import units_equal
        return units_equal(it, a.value.fields["units"], it.domain.null_unit(it))

    def raises(self, it, a):
        us, uv = a.self.fields["units"], a.value.fields["units"]
        return {"UnitConversionError": z3.And(z3.Not(S.dim_eq(S.dim(us), S.dim(uv))), z3.Not(self.plain_number(it, a)))}

    def ensures(self, it, a, r, old):
        from .ufunc import units_equal
        P = it.domain.prefix_table(it)
        b = N.arr_buf(a.self)
        us, uv = old["self"]["units"], old["value"]["units"]
        for s_ in old.values():
            it.ctx.instantiate(s_["elem"], z3.RealVal(0), z3.RealVal(1))
        out = [("C18: the target keeps its unit", a.self.fields["units"] is us),
               ("C18: the target keeps its memory (assignment in place)", b is old["self"]["buf"]),
               ("returns None", r is None)]
        if getattr(b, "assigned_from", None) is not None:
            exact = z3.Or(z3.Not(units_equal(it, us, uv)),
                          z3.And(S.scale(us) == S.scale(uv), S.eff_offset(us, P) == S.eff_offset(uv, P)))
            out.append(("C01/C18: an assigned element holds the value's physical quantity in the target's unit",
                        z3.Implies(z3.And(exact, z3.Not(self.plain_number(it, a))),
                                   S.SI(b.elem, us, P) == S.SI(old["value"]["elem"], uv, P))))
        else:
            out.append(("C18: elements that were not selected keep their numbers",
                        True if b.elem is old["self"]["elem"] else to_real(b.elem) == to_real(old["self"]["elem"])))
        return out + unchanged("the assigned value", a.value, old["value"])

    def on_raise(self, it, a, old, exc):
        b = N.arr_buf(a.self)
        return [("C01/C18: a refused assignment leaves the target's numbers unchanged",
                 True if b.elem is old["self"]["elem"] else to_real(b.elem) == to_real(old["self"]["elem"])),
                ("C01/C18: a refused assignment leaves the target's unit unchanged",
                 a.self.fields["units"] is old["self"]["units"])] + unchanged("the assigned value", a.value, old["value"])

    def canary(self, it, a, r, old):
        return z3.BoolVal(False)


class SetItemArray(SetItem):
    tag = "array value"
    vcls = "unyt_array"


ALL += ["SetItem", "SetItemArray"]


class ArrayCopy(Contract):
    """x.copy(): independent data (C16: 'copy() ... return independent data'), same numbers, dtype, unit, class and
    name; the original is untouched (C18)"""
    name = "unyt.array.unyt_array.copy"
    properties = ("C16", "C18", "C11")
    callsite_disabled = True
    xcls = "unyt_array"

    def formals(self, it):
        x = N.make_unyt_array(it, "self", cls=self.xcls)
        if self.xcls == "unyt_quantity":
            it.assume(to_z3(N.arr_scalar(x)))
        return {"self": x}

    def requires(self, it, a):
        k = to_z3(N.arr_kind(a.self))
        return [("numeric data", z3.Or(k == N.sv("f"), k == N.sv("i"), k == N.sv("u"), k == N.sv("c")))]

    def snapshot(self, it, a):
        d = snapshot_array(a.self)
        d["name"] = a.self.fields.get("name")
        return d

    def ensures(self, it, a, r, old):
        if not N.is_unyt_array(r):
            return [("the copy is a unyt object", False)]
        return [("C16: the copy owns fresh memory", N.arr_buf(r) is not old["buf"]),
                ("C16/C11: same numbers", True if N.arr_elem(r) is old["elem"] else to_real(N.arr_elem(r)) == to_real(old["elem"])),
                ("C11: same dtype", z3.And(to_z3(N.arr_kind(r)) == to_z3(old["kind"]),
                                           to_z3(N.arr_itemsize(r)) == to_z3(old["itemsize"]))),
                ("C11: same unit", r.fields["units"] is old["units"]),
                ("C16: same class", r.cls.name == a.self.cls.name),
                ("C11: same name", r.fields.get("name") is old["name"]),
                ("same shape", z3.And(to_z3(N.arr_scalar(r)) == to_z3(N.arr_scalar(a.self)),
                                      to_z3(N.arr_size(r)) == to_z3(N.arr_size(a.self)))),
                ] + unchanged("the original", a.self, old)

    def canary(self, it, a, r, old):
        return z3.BoolVal(False)


class QuantityCopy(ArrayCopy):
    tag = "quantity"
    xcls = "unyt_quantity"


ALL += ["ArrayCopy", "QuantityCopy"]
