"""Contracts for the result-class decisions, unit-stripping accessors and memory sharing of
unyt_array (C16, C18): .d / .ndview / ndarray_view() are views; .v / .value / to_ndarray() /
copy() are copies; indexing yields a quantity for 0-d results with the parent's unit and name;
unyt_quantity refuses more than one element."""
import z3

from pyvc.contracts import Contract
from pyvc.core import to_real, to_z3, is_z3, Unsupported, SObj, ClassRef, Opaque
from pyvc.unyt_domain import make_unit, track_unit, _b
from pyvc import np_domain as N
from . import spec as S
from .ufunc import snapshot_array, unchanged


class _Accessor(Contract):
    properties = ("C16", "C18")
    shares = True                 # result shares memory with self
    callsite_disabled = True

    def formals(self, it):
        return {"self": N.make_unyt_array(it, "self")}

    def snapshot(self, it, a):
        return snapshot_array(a.self)

    def ensures(self, it, a, r, old):
        out = [("returns a bare ndarray (no units)", isinstance(r, N.SNd))]
        if isinstance(r, N.SNd):
            b = r.buf
            if self.shares:
                out.append(("the result is a view: it shares the parent's memory", b is old["buf"]))
            else:
                out.append(("the result is independent data: fresh memory", b is not old["buf"]))
            out.append(("same numbers", True if b.elem is old["elem"] else to_real(b.elem) == to_real(old["elem"])))
            out.append(("same dtype", z3.And(to_z3(b.kind) == to_z3(old["kind"]),
                                             to_z3(b.itemsize) == to_z3(old["itemsize"]))))
            out.append(("same shape", z3.And(to_z3(r.scalar) == to_z3(N.arr_scalar(a.self)),
                                             to_z3(r.size) == to_z3(N.arr_size(a.self)))))
        return out + unchanged("self", a.self, old)

    def canary(self, it, a, r, old):
        return z3.BoolVal(False)


def _acc(name, attr, shares):
    cls = type(name, (_Accessor,), {"name": "unyt.array.unyt_array." + attr, "shares": shares})
    cls.__module__ = __name__
    globals()[name] = cls
    return name


ALL = [_acc("Acc_d", "d", True), _acc("Acc_ndview", "ndview", True),
       _acc("Acc_ndarray_view", "ndarray_view", True), _acc("Acc_v", "v", False),
       _acc("Acc_value", "value", False), _acc("Acc_to_ndarray", "to_ndarray", False)]


class GetItem(Contract):
    """indexing: a 0-d result is a unyt_quantity carrying the parent's unit and name; any other
    result is what ndarray indexing gives (a view/copy of the same class, units and name copied
    by __array_finalize__)"""
    name = "unyt.array.unyt_array.__getitem__"
    properties = ("C16",)
    callsite_disabled = True

    def formals(self, it):
        return {"self": N.make_unyt_array(it, "self"), "item": Opaque("index")}

    def snapshot(self, it, a):
        return snapshot_array(a.self)

    def ensures(self, it, a, r, old):
        if not N.is_unyt_array(r):
            return [("indexing a unyt_array gives a unyt object", False)]
        isq = r.cls.name == "unyt_quantity"
        sc = to_z3(N.arr_scalar(r))
        return [("a 0-d result is a unyt_quantity", z3.Implies(sc, z3.BoolVal(isq))),
                ("the result carries the parent's unit", r.fields["units"] is old["units"]),
                ("the result carries the parent's name", r.fields.get("name") is a.self.fields.get("name")),
                ("same numbers (one arbitrary element)",
                 True if N.arr_elem(r) is old["elem"] else to_real(N.arr_elem(r)) == to_real(old["elem"])),
                ] + unchanged("self", a.self, old)

    def canary(self, it, a, r, old):
        return z3.BoolVal(False)


ALL.append("GetItem")


class QuantityNew(Contract):
    """unyt_quantity(...) never yields more than one element"""
    name = "unyt.array.unyt_quantity.__new__"
    properties = ("C16",)
    callsite_disabled = True

    def formals(self, it):
        from pyvc.unyt_domain import cls_of
        return {"cls": ClassRef(cls_of(it, "unyt_quantity")), "input_scalar": N.make_ndarray(it, "data"),
                "units": make_unit(it, "u")}

    def raises(self, it, a):
        return {"RuntimeError": to_z3(N.arr_size(a.input_scalar)) > 1}

    def ensures(self, it, a, r, old):
        return [("a unyt_quantity has at most one element", to_z3(N.arr_size(r)) <= 1),
                ("it is a unyt_quantity", N.is_unyt_array(r) and r.cls.name == "unyt_quantity"),
                ("labelled with the given unit", r.fields["units"] is a.units)]

    def canary(self, it, a, r, old):
        return z3.BoolVal(False)


ALL.append("QuantityNew")


class ArrayNewFromNdarray(Contract):
    """unyt_array(<ndarray>, <Unit>): a view of the caller's memory (C16: 'building an array from a
    NumPy array with the constructor is a view'), labelled with the unit, same numbers, same dtype"""
    name = "unyt.array.unyt_array.__new__"
    tag = "ndarray"
    properties = ("C16", "C18")
    callsite_disabled = True

    def formals(self, it):
        from pyvc.unyt_domain import cls_of
        return {"cls": ClassRef(cls_of(it, "unyt_array")), "input_array": N.make_ndarray(it, "data"),
                "units": make_unit(it, "u")}

    def requires(self, it, a):
        k = to_z3(N.arr_kind(a.input_array))
        return [("numeric data", z3.Or(k == N.sv("f"), k == N.sv("i"), k == N.sv("u"), k == N.sv("c")))]

    def snapshot(self, it, a):
        return snapshot_array(a.input_array)

    def ensures(self, it, a, r, old):
        ok = N.is_unyt_array(r)
        if not ok:
            return [("the result is a unyt_array", False)]
        return [("C16: the result is a view of the caller's memory", N.arr_buf(r) is old["buf"]),
                ("it is labelled with the given unit", r.fields["units"] is a.units),
                ("C18: the caller's data is not written", N.arr_buf(a.input_array).writes == old["writes"]
                 and N.arr_buf(a.input_array).elem is old["elem"]),
                ("it is a unyt_array", r.cls.name == "unyt_array")]

    def canary(self, it, a, r, old):
        return z3.BoolVal(False)


ALL.append("ArrayNewFromNdarray")


class UnitMulData(Contract):
    """Unit.__mul__ with data (ndarray * Unit): a copy (fresh memory, same numbers), a
    unyt_quantity for shape () and a unyt_array otherwise, labelled with the unit"""
    name = "unyt.unit_object.Unit.__mul__"
    tag = "data"
    properties = ("C16", "C06", "C07")

    def formals(self, it):
        return {"self": make_unit(it, "self"), "u": N.make_ndarray(it, "data")}

    def snapshot(self, it, a):
        return snapshot_array(a.u)

    def raises(self, it, a):
        k = to_z3(N.arr_kind(a.u))
        return {"InvalidUnitOperation": k == N.sv("b")}

    def ensures(self, it, a, r, old):
        if not N.is_unyt_array(r):
            return [("data * unit is a unyt object", False)]
        isq = r.cls.name == "unyt_quantity"
        sc = to_z3(N.arr_scalar(r))
        return [("shape () gives a unyt_quantity, anything else a unyt_array", sc == z3.BoolVal(isq)),
                ("multiplying by a unit copies the data", N.arr_buf(r) is not old["buf"]),
                ("same numbers", to_real(N.arr_elem(r)) == to_real(old["elem"])),
                ("same shape", z3.And(sc == to_z3(N.arr_scalar(a.u)),
                                      to_z3(N.arr_size(r)) == to_z3(N.arr_size(a.u)))),
                ("labelled with the unit", r.fields["units"] is a.self),
                ] + unchanged("data", a.u, old)

    def canary(self, it, a, r, old):
        return z3.BoolVal(False)


ALL.append("UnitMulData")
