"""Contracts for the unit-checking helpers (C19): allclose_units decides by physical equality
(SI magnitudes), with a bare atol read in the desired value's unit; assert_allclose_units raises
exactly when it is false; _has_dimensions decides by the dimension vector."""
import z3

from pyvc.contracts import Contract
from pyvc.core import to_real, to_z3, is_z3, Unsupported, SObj
from pyvc.unyt_domain import make_unit, track_unit, SDim, _b
from pyvc import np_domain as N
from . import spec as S
from .ufunc import snapshot_array, unchanged


def zabs(x):
    return z3.If(x >= 0, x, -x)


class AllcloseUnits(Contract):
    """quantities (one element each) in arbitrary units without zero points, rtol a bare float,
    atol bare (tag bare) or a quantity (tag quantity)"""
    name = "unyt.array.allclose_units"
    properties = ("C19", "C18")
    atol_kind = "bare"
    offsets = False                  # True: units with zero points (degC, degF) allowed, rtol == 0
    callsite_disabled = True

    def formals(self, it):
        f = {"actual": N.make_unyt_array(it, "actual", cls="unyt_quantity"),
             "desired": N.make_unyt_array(it, "desired", cls="unyt_quantity"),
             "rtol": it.fresh_real("rtol")}
        f["atol"] = it.fresh_real("atol") if self.atol_kind == "bare" else \
            N.make_unyt_array(it, "atol", cls="unyt_quantity")
        return f

    def track(self, it, a):
        for n in ("actual", "desired"):
            N.track_array(it, n, getattr(a, n))
            track_unit(it, n + ".u", getattr(a, n).fields["units"])
        it.ctx.track("rtol", a.rtol)
        if is_z3(a.atol):
            it.ctx.track("atol", a.atol)

    def arrays(self, a):
        xs = [("actual", a.actual), ("desired", a.desired)]
        if self.atol_kind != "bare":
            xs.append(("atol", a.atol))
        return xs

    def requires(self, it, a):
        P = it.domain.prefix_table(it)
        out = []
        for n, x in self.arrays(a):
            u = x.fields["units"]
            if self.offsets:
                out.append(("%s: unit well formed (zero points allowed)" % n,
                            z3.And(S.unit_wf(u, P), z3.Length(S.ustr(u)) >= 1)))
            else:
                out.append(("%s: unit well formed, no zero point (relative tolerances on offset scales are "
                            "outside this contract)" % n,
                            z3.And(S.unit_wf(u, P), z3.Length(S.ustr(u)) >= 1, S.offset(u) == 0)))
            out.append(("%s is a one-element quantity" % n, to_z3(N.arr_size(x)) == 1))
        out.append(("tolerances are not negative", z3.And(to_real(a.rtol) >= 0, self.atol_si(a) >= 0)))
        if self.offsets:
            out.append(("no relative tolerance (a relative tolerance on readings of an offset scale has no "
                        "unit-independent meaning)", to_real(a.rtol) == 0))
        return out

    def atol_si(self, a):
        """the absolute tolerance as a physical difference: its own unit, or the desired value's
        unit when bare (statement and docstring)"""
        if self.atol_kind == "bare":
            return to_real(a.atol) * S.scale(a.desired.fields["units"])
        return to_real(N.arr_elem(a.atol)) * S.scale(a.atol.fields["units"])

    def snapshot(self, it, a):
        return {n: snapshot_array(x) for n, x in self.arrays(a)}

    def ensures(self, it, a, r, old):
        P = it.domain.prefix_table(it)
        ua, ud = a.actual.fields["units"], a.desired.fields["units"]
        for n, x in self.arrays(a):
            it.ctx.instantiate(old[n]["elem"], z3.RealVal(0), z3.RealVal(1))
        A = S.SI(old["actual"]["elem"], ua, P)
        D = S.SI(old["desired"]["elem"], ud, P)
        same = S.dim_eq(S.dim(ua), S.dim(ud))
        v = to_z3(it.truth_term(r))
        rel = zabs(A - D) <= self.atol_si(a) + to_real(a.rtol) * zabs(D)
        out = [("C19: False when actual and desired have different dimensions", z3.Implies(z3.Not(same), z3.Not(v)))]
        if self.atol_kind != "bare":
            same_t = S.dim_eq(S.dim(a.atol.fields["units"]), S.dim(ua))
            out.append(("C19: False when atol has units of another dimension",
                        z3.Implies(z3.Not(same_t), z3.Not(v))))
            same = z3.And(same, same_t)
        out.append(("C19: for commensurable arguments the verdict is |A - D| <= atol + rtol*|D| on SI magnitudes "
                    "(a bare atol is read in the desired value's unit)", z3.Implies(same, v == rel)))
        for n, x in self.arrays(a):
            out += unchanged(n, x, old[n])
        return out

    def canary(self, it, a, r, old):
        return to_z3(it.truth_term(r))


class AllcloseUnitsAtolQuantity(AllcloseUnits):
    tag = "atol-quantity"
    atol_kind = "quantity"


class AllcloseUnitsOffsetScales(AllcloseUnits):
    """temperatures on offset scales: the absolute tolerance is a temperature DIFFERENCE -- only the
    degree size of its unit counts, whatever zero point that unit has"""
    tag = "offset-scales"
    atol_kind = "quantity"
    offsets = True


class AllcloseUnitsOffsetScalesBareAtol(AllcloseUnits):
    tag = "offset-scales-bare-atol"
    atol_kind = "bare"
    offsets = True


class AssertAllcloseUnits(AllcloseUnits):
    """raises AssertionError exactly when the arguments are not close (allclose_units is executed
    as part of this function)"""
    name = "unyt.testing.assert_allclose_units"
    tag = None

    def verdict(self, it, a, old):
        P = it.domain.prefix_table(it)
        ua, ud = a.actual.fields["units"], a.desired.fields["units"]
        A = S.SI(a.actual.fields["_buf"].elem, ua, P)
        D = S.SI(a.desired.fields["_buf"].elem, ud, P)
        same = S.dim_eq(S.dim(ua), S.dim(ud))
        return z3.And(same, zabs(A - D) <= self.atol_si(a) + to_real(a.rtol) * zabs(D))

    def raises(self, it, a):
        return {"AssertionError": z3.Not(self.verdict(it, a, None))}

    def ensures(self, it, a, r, old):
        out = [("returns None", r is None)]
        for n, x in self.arrays(a):
            out += unchanged(n, x, old[n])
        return out

    def canary(self, it, a, r, old):
        return z3.BoolVal(False)


class HasDimensions(Contract):
    name = "unyt.dimensions._has_dimensions"
    properties = ("C19",)
    bare = False
    callsite_disabled = True

    def formals(self, it):
        q = it.fresh_real("bare_number") if self.bare else N.make_unyt_array(it, "quant")
        return {"quant": q, "dim": SDim.fresh(it, "dim")}

    def ensures(self, it, a, r, old):
        d = SDim.one() if self.bare else S.dim(a.quant.fields["units"])
        return [("C19: true exactly when the argument has the stated dimension, whatever unit it is written "
                 "in (a bare number is dimensionless)", to_z3(it.truth_term(r)) == S.dim_eq(d, a.dim))]

    def canary(self, it, a, r, old):
        return to_z3(it.truth_term(r))


class HasDimensionsBare(HasDimensions):
    tag = "bare"
    bare = True


ALL = ["AllcloseUnits", "AllcloseUnitsAtolQuantity", "AllcloseUnitsOffsetScales", "AllcloseUnitsOffsetScalesBareAtol",
       "AssertAllcloseUnits", "HasDimensions", "HasDimensionsBare"]
