"""C09 round trips and compositions as lemmas over the *contracts* of Equivalence.convert (no
code re-read): the hypotheses are instances of the proved value postconditions
(contracts/equivalence.py), the goals are

  inverse      convert(b->a)(convert(a->b)(x)) == x
  composition  convert(b->c)(convert(a->b)(x)) == convert(a->c)(x)

over SI magnitudes, for all positive x (physical magnitudes of the member dimensions), all
positive values of the library's constants and of the keyword parameters.  The conversion of the
result to the requested target unit and back is C03 (InUnits contract + lemmas_c03).
lorentz and effective_temperature have no proved value law and therefore no lemma here."""
import z3
from pyvc.contracts import Lemma
from spec import equivalence_formulas as EF

R = z3.Real
PROVED = ("thermal", "mass_energy", "spectral", "number_density", "schwarzschild", "compton", "sound_speed")


def post(e, a, b, x, y, K, p):
    w = EF.EQUIVALENCES[e]["formulas"][(a, b)](x, K, p)
    if isinstance(w, tuple):
        if w[0] == "undefined-at-zero":
            return z3.Implies(x != 0, y == w[1])
        if w[0] == "sqrt":
            return z3.Implies(w[1] >= 0, z3.And(y >= 0, y * y == w[1]))
        raise ValueError(w[0])
    return y == w


def _env(e):
    K = {c: R("K_" + c) for c in set(EF.CONSTANTS.values())}
    p = {k: R(k) for k in EF.EQUIVALENCES[e]["params"]}
    hyps = [v > 0 for v in K.values()] + [v > 0 for v in p.values()]
    return K, p, hyps


def _inverse(e, a, b):
    def build():
        K, p, hyps = _env(e)
        x, y, z = R("x"), R("y"), R("z")
        hyps += [x > 0, post(e, a, b, x, y, K, p), post(e, b, a, y, z, K, p)]
        return hyps, z == x
    return build


def _composition(e, a, b, c):
    def build():
        K, p, hyps = _env(e)
        x, y, z, w = R("x"), R("y"), R("z"), R("w")
        hyps += [x > 0, post(e, a, b, x, y, K, p), post(e, b, c, y, z, K, p), post(e, a, c, x, w, K, p)]
        return hyps, z == w
    return build


ALL = []
for _e in PROVED:
    _pairs = list(EF.EQUIVALENCES[_e]["formulas"])
    _members = EF.EQUIVALENCES[_e]["members"]
    for (_a, _b) in _pairs:
        _n = "inverse_%s_%s_%s" % (_e, _a, _b)
        globals()[_n] = Lemma("C09.inverse[%s]: %s -> %s -> %s returns the original quantity" % (_e, _a, _b, _a),
                              _inverse(_e, _a, _b), ("C09",))
        ALL.append(_n)
    for _a in _members:
        for _b in _members:
            for _c in _members:
                if len({_a, _b, _c}) == 3 and all(k in EF.EQUIVALENCES[_e]["formulas"] for k in ((_a, _b), (_b, _c), (_a, _c))):
                    _n = "composition_%s_%s_%s_%s" % (_e, _a, _b, _c)
                    globals()[_n] = Lemma("C09.composition[%s]: %s -> %s -> %s agrees with %s -> %s" % (
                        _e, _a, _b, _c, _a, _c), _composition(_e, _a, _b, _c), ("C09",))
                    ALL.append(_n)
