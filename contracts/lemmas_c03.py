"""C03 laws as lemmas over the *contract* of _get_conversion_factor (no code re-read):
identity, inverse, composition, for all real readings, all positive scales, all real
effective zero points.  The hypothesis of each lemma is an instance of the proved
postcondition  SI(x*f - o, new) == SI(x, old)."""
import z3
from pyvc.contracts import Lemma

R = z3.Real


def SI(x, s, e):
    return (x - e) * s


def post(x, f, o, s_old, e_old, s_new, e_new):
    """the contract's ensures clause instantiated at reading x"""
    return SI(x * f - o, s_new, e_new) == SI(x, s_old, e_old)


def _units(*names):
    out = []
    hyps = []
    for n in names:
        s, e = R("s_" + n), R("e_" + n)
        hyps.append(s > 0)
        out.append((s, e))
    return out, hyps


def _identity():
    (A,), hyps = _units("A")
    x, f, o = R("x"), R("f"), R("o")
    hyps.append(post(x, f, o, A[0], A[1], A[0], A[1]))
    return hyps, x * f - o == x


def _inverse():
    (A, B), hyps = _units("A", "B")
    x, f1, o1, f2, o2 = R("x"), R("f1"), R("o1"), R("f2"), R("o2")
    y = x * f1 - o1
    hyps.append(post(x, f1, o1, A[0], A[1], B[0], B[1]))
    hyps.append(post(y, f2, o2, B[0], B[1], A[0], A[1]))
    return hyps, y * f2 - o2 == x


def _composition():
    (A, B, C), hyps = _units("A", "B", "C")
    x = R("x")
    f1, o1, f2, o2, f3, o3 = [R(n) for n in ("f1", "o1", "f2", "o2", "f3", "o3")]
    y = x * f1 - o1
    hyps.append(post(x, f1, o1, A[0], A[1], B[0], B[1]))
    hyps.append(post(y, f2, o2, B[0], B[1], C[0], C[1]))
    hyps.append(post(x, f3, o3, A[0], A[1], C[0], C[1]))
    return hyps, y * f2 - o2 == x * f3 - o3


def _factor_is_scale_ratio():
    """C02 corollary: for offset-free commensurable units x.to(u2) = x*scale(u1)/scale(u2)"""
    (A, B), hyps = _units("A", "B")
    x, f, o = R("x"), R("f"), R("o")
    hyps += [A[1] == 0, B[1] == 0, o == 0, post(x, f, o, A[0], A[1], B[0], B[1])]
    return hyps, x * f == x * A[0] / B[0]


identity = Lemma("C03.identity: conv(A->A)(x) == x", _identity, ("C03",))
inverse = Lemma("C03.inverse: conv(B->A)(conv(A->B)(x)) == x", _inverse, ("C03",))
composition = Lemma("C03.composition: conv(B->C) o conv(A->B) == conv(A->C)", _composition, ("C03",))
scale_ratio = Lemma("C02.ratio: offset-free conversion multiplies by scale(u1)/scale(u2)",
                    _factor_is_scale_ratio, ("C02", "C03"))
