"""C05: algebraic laws of the Unit algebra as lemmas over the *contracts* of Unit.__mul__,
__truediv__, __pow__ and __eq__ (no code re-read).  A unit is abstracted to the observable
triple the contracts speak about: (scale > 0, dimension vector in R^8, offset = 0)."""
import z3
from pyvc.contracts import Lemma

N = 8


def U(name):
    s = z3.Real("s_" + name)
    d = [z3.Real("d%d_%s" % (i, name)) for i in range(N)]
    return s, d


def mul(a, b):          # contract UnitMul.ensures
    return a[0] * b[0], [x + y for x, y in zip(a[1], b[1])]


def div(a, b):          # contract UnitTrueDiv.ensures
    return a[0] / b[0], [x - y for x, y in zip(a[1], b[1])]


rpow = z3.Function("rpow", z3.RealSort(), z3.RealSort(), z3.RealSort())


def pw(a, p):           # contract UnitPow.ensures
    return rpow(a[0], p), [x * p for x in a[1]]


def isclose(a, b):      # contract UnitEq.ensures (math.isclose as a real relation)
    ab = lambda x: z3.If(x >= 0, x, -x)
    mx = z3.If(ab(a) >= ab(b), ab(a), ab(b))
    return ab(a - b) <= mx / 10 ** 9


def eq(a, b):
    return z3.And(isclose(a[0], b[0]), *[x == y for x, y in zip(a[1], b[1])])


ONE = (z3.RealVal(1), [z3.RealVal(0)] * N)


def _pos(*us):
    return [u[0] > 0 for u in us]


def _comm():
    a, b = U("a"), U("b")
    return _pos(a, b), eq(mul(a, b), mul(b, a))


def _assoc():
    a, b, c = U("a"), U("b"), U("c")
    return _pos(a, b, c), eq(mul(mul(a, b), c), mul(a, mul(b, c)))


def _ident():
    a = U("a")
    return _pos(a), z3.And(eq(mul(a, ONE), a), eq(mul(ONE, a), a))


def _inverse():
    a = U("a")
    # assumed law of real powers for a positive base: x**-1 == 1/x
    hyp = _pos(a) + [rpow(a[0], -1) == 1 / a[0]]
    return hyp, eq(mul(a, pw(a, z3.RealVal(-1))), ONE)


def _div_is_mul_inverse():
    a, b = U("a"), U("b")
    hyp = _pos(a, b) + [rpow(b[0], -1) == 1 / b[0]]
    return hyp, eq(div(a, b), mul(a, pw(b, z3.RealVal(-1))))


def _pow_pow():
    a = U("a")
    p, q = z3.Real("p"), z3.Real("q")
    hyp = _pos(a) + [rpow(rpow(a[0], p), q) == rpow(a[0], p * q)]      # assumed real-power law
    return hyp, eq(pw(pw(a, p), q), pw(a, p * q))


def _pow_distrib():
    a, b = U("a"), U("b")
    p = z3.Real("p")
    hyp = _pos(a, b) + [rpow(a[0] * b[0], p) == rpow(a[0], p) * rpow(b[0], p)]
    return hyp, eq(pw(mul(a, b), p), mul(pw(a, p), pw(b, p)))


def _homomorphism():
    a, b = U("a"), U("b")
    m = mul(a, b)
    return _pos(a, b), z3.And(m[0] == a[0] * b[0], *[x == y + z for x, y, z in zip(m[1], a[1], b[1])])


def _joule():
    """J == N*m == kg*m**2/s**2 given the ground scales (all 1 in SI) and dimension vectors"""
    kg = (z3.RealVal(1), [z3.RealVal(x) for x in (1, 0, 0, 0, 0, 0, 0, 0)])
    m = (z3.RealVal(1), [z3.RealVal(x) for x in (0, 1, 0, 0, 0, 0, 0, 0)])
    s = (z3.RealVal(1), [z3.RealVal(x) for x in (0, 0, 1, 0, 0, 0, 0, 0)])
    newton = (z3.RealVal(1), [z3.RealVal(x) for x in (1, 1, -2, 0, 0, 0, 0, 0)])
    joule = (z3.RealVal(1), [z3.RealVal(x) for x in (1, 2, -2, 0, 0, 0, 0, 0)])
    hyp = [rpow(z3.RealVal(1), 2) == 1]
    kgm2s2 = div(mul(kg, pw(m, z3.RealVal(2))), pw(s, z3.RealVal(2)))
    return hyp, z3.And(eq(joule, mul(newton, m)), eq(joule, kgm2s2))


commutativity = Lemma("C05.commutativity: u*v == v*u", _comm, ("C05",))
associativity = Lemma("C05.associativity: (u*v)*w == u*(v*w)", _assoc, ("C05",))
identity = Lemma("C05.identity: u*1 == 1*u == u", _ident, ("C05",))
inverse = Lemma("C05.inverse: u*u**-1 == 1", _inverse, ("C05",), "uses x**-1 == 1/x for x>0")
div_inverse = Lemma("C05.division: u/v == u*v**-1", _div_is_mul_inverse, ("C05",))
pow_pow = Lemma("C05.power-of-power: (u**p)**q == u**(p*q)", _pow_pow, ("C05",),
                "uses the real-power law (x**p)**q == x**(p*q) for x>0")
pow_distrib = Lemma("C05.power-distributes: (u*v)**p == u**p*v**p", _pow_distrib, ("C05",),
                    "uses (xy)**p == x**p*y**p for x,y>0")
homomorphism = Lemma("C05.homomorphism onto (scale, dimension)", _homomorphism, ("C05",))
joule = Lemma("C05.J == N*m == kg*m**2/s**2", _joule, ("C05",))
ALL = ["commutativity", "associativity", "identity", "inverse", "div_inverse", "pow_pow",
       "pow_distrib", "homomorphism", "joule"]
