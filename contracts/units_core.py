"""Contracts for the string/table/number core: _split_prefix, _lookup_unit_symbol,
_get_conversion_factor (properties C02, C03, C08, C14, C20)."""
from fractions import Fraction

import z3

from pyvc.contracts import Contract
from pyvc.core import to_real, to_z3, is_z3, Unsupported
from pyvc.unyt_domain import (SLut, SDim, RowSort, pfx_of, make_unit, make_registry,
                              track_unit, row_tuple, _b)
from . import spec as S


class SplitPrefix(Contract):
    name = "unyt.unit_systems._split_prefix"
    properties = ("C14", "C02", "C03", "C20")
    assumptions = ("result is a function of its two arguments (the body stores nothing and "
                   "reads only its arguments and the module constant unit_prefixes): written "
                   "pfx_of(symbol_str, table) at call sites",)

    def formals(self, it):
        s = it.fresh_str("symbol_str")
        lut = SLut.fresh(it, "lut")
        return {"symbol_str": s, "unit_symbol_lut": lut}

    def track(self, it, a):
        it.ctx.track("symbol_str", a.symbol_str)

    def requires(self, it, a):
        return []          # total: the empty name has no prefix (repaired: used to raise IndexError)

    def snapshot(self, it, a):
        return a.unit_symbol_lut.term

    def result(self, it, a):
        p = pfx_of(to_z3(a.symbol_str), a.unit_symbol_lut.term)
        r = it.fresh_str("symbol_wo_prefix")
        return (p, r)

    def ensures(self, it, a, r, old):
        P = it.domain.prefix_table(it)
        s = to_z3(a.symbol_str)
        lut = a.unit_symbol_lut
        p, rest = to_z3(r[0]), to_z3(r[1])
        row = z3.Select(old, rest)
        out = [
            ("prefix + remainder == symbol_str", z3.Concat(p, rest) == s),
            ("non-empty prefix is an SI prefix, remainder is a prefixable table symbol",
             z3.Or(p == z3.StringVal(""),
                   z3.And(S.is_prefix(P, p), RowSort.present(row), RowSort.prefixable(row)))),
            ("empty prefix returns the whole string", z3.Implies(p == z3.StringVal(""), rest == s)),
            ("table not modified", lut.term == old if is_z3(lut.term) else True),
        ]
        return out

    def canary(self, it, a, r, old):
        return to_z3(r[0]) == z3.StringVal("")


class SplitPrefixComplete(SplitPrefix):
    """completeness half of C14.P1: if some SI prefix + prefixable symbol split exists, a
    prefix is found.  Kept as a separate contract object so that its (expected) failure for
    custom tables is reported on its own."""
    name = "unyt.unit_systems._split_prefix"
    tag = "completeness"

    def ensures(self, it, a, r, old):
        P = it.domain.prefix_table(it)
        s = to_z3(a.symbol_str)
        p = to_z3(r[0])
        exists = []
        for k in P:
            n = len(k)
            rest = z3.SubString(s, z3.IntVal(n), z3.Length(s) - n)
            row = z3.Select(old, rest)
            exists.append(z3.And(z3.PrefixOf(z3.StringVal(k), s), RowSort.present(row),
                                 RowSort.prefixable(row)))
        da = z3.PrefixOf(z3.StringVal("da"), s)
        rest2 = z3.SubString(s, z3.IntVal(2), z3.Length(s) - 2)
        row2 = z3.Select(old, rest2)
        deca = z3.And(da, RowSort.present(row2), RowSort.prefixable(row2))
        return [("names not starting with 'da': some prefix+prefixable split exists => a prefix is returned",
                 z3.Implies(z3.And(z3.Not(da), z3.Or(*exists)), p != z3.StringVal(""))),
                ("names starting with 'da': the deca split (da + prefixable symbol) is found whenever it exists, "
                 "whatever else the table holds",
                 z3.Implies(deca, p == z3.StringVal("da"))),
                ("some prefix+prefixable split exists => a prefix is returned",
                 z3.Implies(z3.Or(*exists), p != z3.StringVal("")))]

    def canary(self, it, a, r, old):
        return None

    def replay(self, model, label):
        from .replaylib import script
        return script(model, r'''
from unyt.unit_systems import _split_prefix
s = MODEL["symbol_str"]
reg = UnitRegistry(add_default_symbols=False)
splits = []
for p in unit_prefixes:
    if s.startswith(p) and len(s) > len(p):
        rest = s[len(p):]
        if rest not in reg.lut:
            reg.add(rest, 1.0, D.length, prefixable=True)
        splits.append((p, rest))
print("string", repr(s), "admits the prefix+prefixable splits", splits)
res = _split_prefix(s, reg.lut)
print("_split_prefix ->", res)
if splits and res[0] == "":
    try:
        Unit(s, registry=reg)
        print("Unit(%r) resolved" % s)
    except Exception as e:
        print("Unit(%r) raised %r" % (s, e))
    print("VIOLATION reproduced: a valid prefix + prefixable-unit reading exists but none is found")
    sys.exit(1)
sys.exit(0)
''')


class UnitStr(Contract):
    name = "unyt.unit_object.Unit.__str__"
    properties = ("C20", "C03", "C08", "C11")

    def formals(self, it):
        return {"self": make_unit(it, "u")}

    def track(self, it, a):
        track_unit(it, "u", a.self)

    def result(self, it, a):
        t = S.ustr(a.self)
        if z3.is_string_value(t):
            return t.as_string()
        return it.fresh_str("unit_str")

    def ensures(self, it, a, r, old):
        return [("str(u) is 'dimensionless', a temperature sign, or the printed expression",
                 to_z3(r) == S.ustr(a.self))]

    def canary(self, it, a, r, old):
        return to_z3(r) == z3.StringVal("dimensionless")


class UnitRepr(Contract):
    name = "unyt.unit_object.Unit.__repr__"
    properties = ("C20", "C08")

    def formals(self, it):
        return {"self": make_unit(it, "u")}

    def result(self, it, a):
        t = S.urepr(a.self)
        if z3.is_string_value(t):
            return t.as_string()
        return it.fresh_str("unit_repr")

    def ensures(self, it, a, r, old):
        return [("repr(u) is '(dimensionless)' or the printed expression",
                 to_z3(r) == S.urepr(a.self))]

    def canary(self, it, a, r, old):
        return to_z3(r) == z3.StringVal("(dimensionless)")


class GetConversionFactor(Contract):
    name = "unyt.unit_object._get_conversion_factor"
    properties = ("C03", "C08", "C02", "C01")

    def formals(self, it):
        old = make_unit(it, "old")
        new = make_unit(it, "new")
        return {"old_units": old, "new_units": new, "dtype": None}

    def track(self, it, a):
        track_unit(it, "old", a.old_units)
        track_unit(it, "new", a.new_units)
        P = it.domain.prefix_table(it)
        it.ctx.track("old.prefix", S.prefix_of(a.old_units))
        it.ctx.track("new.prefix", S.prefix_of(a.new_units))
        self.x = z3.Real("x_reading")
        it.ctx.track("x", self.x)

    def requires(self, it, a):
        P = it.domain.prefix_table(it)
        return [("old unit consistent with its table", S.unit_wf(a.old_units, P)),
                ("new unit consistent with its table", S.unit_wf(a.new_units, P)),
                ("unit strings are non-empty",
                 z3.And(z3.Length(S.ustr(a.old_units)) >= 1, z3.Length(S.ustr(a.new_units)) >= 1))]

    def raises(self, it, a):
        return {"UnitConversionError": z3.Not(S.dim_eq(S.dim(a.old_units), S.dim(a.new_units)))}

    def result(self, it, a):
        f = it.fresh_real("conv_factor")
        # offset is None exactly when both offsets are zero
        if it.branch(z3.And(S.offset(a.old_units) == 0, S.offset(a.new_units) == 0)):
            return (f, None)
        return (f, it.fresh_real("conv_offset"))

    def law(self, it, a, r, x):
        P = it.domain.prefix_table(it)
        f, o = r
        conv = to_real(x) * to_real(f) - (to_real(o) if o is not None else 0)
        return S.SI(conv, a.new_units, P) == S.SI(x, a.old_units, P)

    def ensures(self, it, a, r, old):
        f, o = r
        x = getattr(self, "x", None)
        if x is None:
            x = z3.Real("x_reading")
        both_zero = z3.And(S.offset(a.old_units) == 0, S.offset(a.new_units) == 0)
        return [
            ("SI(x*factor - offset, new) == SI(x, old) for every reading x", self.law(it, a, r, x)),
            ("offset is None exactly when both units have zero offset",
             both_zero if o is None else z3.Not(both_zero)),
        ]

    def apply(self, it, bound):
        from pyvc.contracts import Args
        r = Contract.apply(self, it, bound)
        a = Args(bound)
        it.ctx.univ.append(lambda x, a=a, r=r: self.law(it, a, r, x))
        return r

    def canary(self, it, a, r, old):
        return to_real(r[0]) == 1

    def replay(self, model, label):
        from .replaylib import script
        return script(model, r'''
from unyt.unit_object import _get_conversion_factor
from unyt.exceptions import UnitConversionError
reg = UnitRegistry(add_default_symbols=False)
old, pv_old = build_unit(reg, "xold", MODEL, "old")
new, pv_new = build_unit(reg, "xnew", MODEL, "new")
x = num(MODEL.get("x", 1))
try:
    f, o = _get_conversion_factor(old, new, None)
except UnitConversionError as e:
    print("raised UnitConversionError; dims", old.dimensions, new.dimensions)
    sys.exit(1 if old.dimensions == new.dimensions else 0)
conv = x * f - (o or 0.0)
lhs, rhs = SI(conv, new, pv_new), SI(x, old, pv_old)
print("old =", old, old.base_value, old.base_offset, "new =", new, new.base_value, new.base_offset)
print("factor, offset =", f, o, " x =", x, " SI(conv,new) =", lhs, " SI(x,old) =", rhs)
none_ok = (o is None) == (old.base_offset == 0 and new.base_offset == 0)
tol = 1e-9 * max(1.0, abs(x * f), abs(o or 0.0), abs(lhs), abs(rhs)) * max(1.0, new.base_value)
if abs(lhs - rhs) > tol or not none_ok:
    print("VIOLATION reproduced: conversion does not preserve the SI magnitude")
    sys.exit(1)
print("not reproduced")
sys.exit(0)
''')


class LookupUnitSymbol(Contract):
    name = "unyt.unit_registry._lookup_unit_symbol"
    properties = ("C02", "C12", "C13", "C14", "C20")

    def formals(self, it):
        return {"symbol_str": it.fresh_str("symbol_str"), "unit_symbol_lut": SLut.fresh(it, "lut")}

    def track(self, it, a):
        it.ctx.track("symbol_str", a.symbol_str)
        it.ctx.track("prefix", pfx_of(to_z3(a.symbol_str), a.unit_symbol_lut.term))

    def requires(self, it, a):
        from pyvc.unyt_domain import SLut
        if not isinstance(a.unit_symbol_lut, SLut):
            # a concrete python dict as the table (e.g. the literal {} of a registry built without rows):
            # outside the modelled subset, never a crash
            raise Unsupported("_lookup_unit_symbol on a concrete dict")
        return []          # total (C20): an empty name is an unknown symbol -> UnitParseError

    def snapshot(self, it, a):
        return a.unit_symbol_lut.term

    def _parts(self, it, a, old):
        P = it.domain.prefix_table(it)
        s = to_z3(a.symbol_str)
        p = pfx_of(s, old)
        rest = z3.SubString(s, z3.Length(p), z3.Length(s) - z3.Length(p))
        return P, s, p, rest

    def raises(self, it, a):
        old = a.unit_symbol_lut.term
        P, s, p, rest = self._parts(it, a, old)
        return {"UnitParseError": z3.And(z3.Not(RowSort.present(z3.Select(old, s))),
                                         p == z3.StringVal(""))}

    def result(self, it, a):
        # deterministic: either the stored row, or the derived prefixed row (written back)
        lut = a.unit_symbol_lut
        old = lut.term
        P, s, p, rest = self._parts(it, a, old)
        if it.branch(RowSort.present(z3.Select(old, s))):
            return row_tuple(z3.Select(old, s))
        base = z3.Select(old, rest)
        # facts from _split_prefix's contract for a non-empty prefix
        it.assume(z3.And(S.is_prefix(P, p), RowSort.present(base), RowSort.prefixable(base),
                         z3.Concat(p, rest) == s))
        from pyvc.unyt_domain import row_dim
        from pyvc.unyt_domain import MarkedTuple
        # the generated row is written back as a _DerivedEntry (marker tuple): the `derived` ghost flag
        res = MarkedTuple((RowSort.scale(base) * S.prefix_value_term(P, p), row_dim(base),
                           RowSort.offset(base), it.fresh_str("latex"), False))
        lut.sv_setitem(it, a.symbol_str, res)
        return res

    def ensures(self, it, a, r, old):
        from pyvc.unyt_domain import make_row, row_dim
        lut = a.unit_symbol_lut
        P, s, p, rest = self._parts(it, a, old)
        present = RowSort.present(z3.Select(old, s))
        stored = z3.Select(old, s)
        base = z3.Select(old, rest)
        scale, dim, off, tex, pref = r
        dimeq = lambda d, row: z3.And(_b(d.eq(row_dim(row))), to_z3(d.ref) == RowSort.dref(row))
        return [
            ("known symbol: the table row is returned unchanged and the table is not written",
             z3.Implies(present, z3.And(to_real(scale) == RowSort.scale(stored),
                                        dimeq(dim, stored), to_real(off) == RowSort.offset(stored),
                                        to_z3(tex) == RowSort.tex(stored),
                                        to_z3(pref) == RowSort.prefixable(stored),
                                        lut.term == old))),
            ("prefixed symbol: scale = base scale x prefix value; dimension and offset of the base",
             z3.Implies(z3.Not(present),
                        z3.And(to_real(scale) == RowSort.scale(base) * S.prefix_value_term(P, p),
                               dimeq(dim, base), to_real(off) == RowSort.offset(base),
                               to_z3(pref) == z3.BoolVal(False)))),
            ("prefixed symbol: only the row for symbol_str is written, with the returned data",
             z3.Implies(z3.Not(present), lut.term == z3.Store(old, s, make_row(it, r)))),
            ("a table symbol always wins over a prefix split (no second reading)",
             z3.Implies(present, to_real(scale) == RowSort.scale(stored))),
        ]

    def on_raise(self, it, a, old, exc):
        return [("table unchanged when the symbol is unknown", a.unit_symbol_lut.term == old)]

    def canary(self, it, a, r, old):
        return to_z3(r[4]) == z3.BoolVal(False)


# ------------------------------------------------------------------ _get_unit_data_from_expr
scale_of = z3.Function("scale_of", __import__("pyvc.unyt_domain", fromlist=["ExprSort"]).ExprSort,
                       __import__("pyvc.unyt_domain", fromlist=["LutSort"]).LutSort, z3.RealSort())


class GetUnitDataFromExpr(Contract):
    """call-site contract (C02.P2): the result is the spec evaluator's (scale_of, dim_of) of the
    expression over the table; S.One gives (1.0, 1) exactly; a bare Symbol gives the 5-tuple row
    of _lookup_unit_symbol.  The recursion over Pow/Mul is verified separately (tagged
    contracts below) against the same spec functions."""
    name = "unyt.unit_object._get_unit_data_from_expr"
    properties = ("C02", "C20")
    exact = True
    may_raise = ("UnitParseError",)

    def formals(self, it):
        from pyvc.unyt_domain import SExpr
        return {"unit_expr": SExpr.fresh(it, "e"), "unit_symbol_lut": SLut.fresh(it, "lut")}

    def apply(self, it, bound):
        from pyvc.unyt_domain import SExpr, SDim, REF_ONE, e_kind, K_SYM, K_NUM, e_str
        e = bound["unit_expr"]
        lut = bound["unit_symbol_lut"]
        if isinstance(e, SDim):
            if not is_z3(e.ref) and e.ref == REF_ONE:
                return (Fraction(1), SDim.one())
            raise Unsupported("_get_unit_data_from_expr of a dimension expression")
        if not isinstance(e, SExpr):
            raise Unsupported("_get_unit_data_from_expr(%r)" % (e,))
        if not isinstance(lut, SLut):
            raise Unsupported("_get_unit_data_from_expr on a concrete dict as the table")
        it.call_log.append(self.name)
        from pyvc.unyt_domain import E_ONE
        if it.branch(e.term == E_ONE):
            it.__dict__.setdefault("unit_data_results", []).append((e, (Fraction(1), SDim.one())))
            return (Fraction(1), SDim.one())
        if it.branch(e_kind(e.term) == K_SYM):
            c = LookupUnitSymbol()
            s = e_str(e.term)
            it.assume(z3.Length(s) >= 1)        # sympy Symbols have non-empty names
            row = c.apply(it, {"symbol_str": s, "unit_symbol_lut": lut})
            if getattr(lut, "positive_scales", False):
                # table invariant supplied by the verified contract's precondition (every row of
                # this table has a positive scale), instantiated at the row that was read
                it.assume(to_real(row[0]) > 0)
            it.__dict__.setdefault("unit_data_results", []).append((e, row))
            return row
        if it.branch(it.fresh_bool("unit_data_unparsable")):
            it.raise_("UnitParseError")
        sc = it.fresh_real("scale_of_expr")
        it.assume(sc == scale_of(e.term, lut.term))
        it.assume(sc > 0)
        d = SDim.fresh(it, "dim_of_expr")
        # ghost: what the walk returned for this sub-expression (read by the structural
        # postconditions of the Pow / Mul branches)
        it.__dict__.setdefault("unit_data_results", []).append((e, (sc, d)))
        return (sc, d)
