"""Contracts for the equivalence conversions (C09): Equivalence.convert, with the per-class
_convert bodies executed as part of it.

 * EquivRefusal_<name>: for ARBITRARY dimensions of the input and of the target, convert raises
   InvalidUnitEquivalence exactly when the pair is not covered (both must be members).
 * E_<name>_<from>_<to>[_inplace][_Q]: for an input of ANY unit of the `from` dimension (no zero
   point), any value, any keyword parameters, the result has the `to` dimension and its SI
   magnitude equals the defining formula (spec/equivalence_formulas.py, written from the
   statement) evaluated with the library's own constants; the copying form leaves its input
   untouched; the in-place form returns its input object, which then satisfies the same
   formula (so both forms denote the same quantity).
   Not within reach: the value law of `lorentz` (its chain subtracts from the bare number 1, and
   the subtraction contract gives no exact law when the pure-number unit of the intermediate result
   is within 1e-9 of, but not exactly, 1 -- the library identifies such units; only dimension,
   refusal and frame clauses are proved for it) and all of `effective_temperature` (np.power on
   quantities has no contract): both are left to the bounded driver.

Each NumPy call inside a formula (np.multiply / np.true_divide / np.subtract / np.sqrt, with
out= naming the input for the in-place forms, and the products of constants written with * and /)
goes through unyt_array.__array_ufunc__ BY CONTRACT: the call is matched to the proved
configuration (contracts/ufunc.py, UfuncCallsite) whose precondition is checked here and whose
postcondition is all that is known about the result.

The constants unyt.physical_constants.<name> are symbolic: a float64 unyt_quantity of the
dimension that constant has (spec/constants.py), with an arbitrary positive SI magnitude K_<c>
and an arbitrary zero-offset unit.  That the library's table gives them the published values is
C15's business (ground obligations); "the library's own constants" in C09 means these objects.
"""
from fractions import Fraction

import z3

from pyvc.contracts import Contract
from pyvc.core import to_real, to_z3, is_z3, Unsupported, SObj
from pyvc.unyt_domain import make_unit, SDim, BASE_DIMS, cls_of, _b, track_unit, assumed
from pyvc import unyt_domain as UD
from pyvc import np_domain as N
from spec import equivalence_formulas as EF
from spec import constants as SC
from . import spec as S
from .ufunc import snapshot_array, unchanged


def dim_of(it, d):
    vec = [Fraction(d.get(n, 0)) for n in BASE_DIMS]
    return SDim.one()._arith_result(it, vec)


def K_term(canon):
    return z3.Real("K_" + canon)


def _canonical(name):
    base = name[:-4] if name.endswith("_mks") else name
    if base in EF.CONSTANTS:
        return EF.CONSTANTS[base]
    if name in EF.CONSTANTS:
        return EF.CONSTANTS[name]
    return None


def physical_constant(it, name):
    """unyt.physical_constants.<name> (see module docstring)"""
    canon = _canonical(name)
    if canon is None:
        raise Unsupported("physical constant %s has no model" % name)
    cache = it.__dict__.setdefault("_pc_cache", {})
    if name not in cache:
        dims = {k: Fraction(v) for k, v in SC.VALUES[canon][1].items()}
        u = make_unit(it, "pc_%s_u" % name, registry=it.domain.default_registry(it))
        u.fields["dimensions"] = dim_of(it, dims)
        u.fields["base_offset"] = Fraction(0)
        q = N.make_unyt_array(it, "pc_" + name, units=u, cls="unyt_quantity", kind=N.sv("f"), itemsize=z3.IntVal(8))
        it.assume(to_z3(N.arr_scalar(q)))
        P = it.domain.prefix_table(it)
        K = K_term(canon)
        it.assume(K > 0)
        it.assume(S.unit_wf(u, P))
        it.assume(S.SI(N.arr_elem(q), u, P) == K)
        cache[name] = q
    return cache[name]


UD.MODULE_ATTR_HOOKS["unyt.physical_constants"] = physical_constant
assumed("physical-constants", "unyt.physical_constants.<X> (kboltz, clight, mh, h_mks, G, "
        "stefan_boltzmann_constant_mks) is a 0-d float64 unyt_quantity of that constant's dimension with "
        "a positive SI magnitude K_X and a zero-offset unit; its materialisation by add_constants is not "
        "executed (C15 checks the table values)")


class _Equiv(Contract):
    name = "unyt.equivalencies.Equivalence.convert"
    properties = ("C09", "C18")
    equiv = None
    callsite_disabled = True
    max_paths = 4000

    def self_obj(self, it, in_place):
        o = SObj(cls_of(it, EF.EQUIVALENCES[self.equiv]["class"]), label="equivalence")
        o.fields["in_place"] = in_place
        return o


class _Refusal(_Equiv):
    """arbitrary dimensions: InvalidUnitEquivalence exactly when the pair is not covered"""
    may_raise = ()
    expect_return = False

    def formals(self, it):
        x = N.make_unyt_array(it, "x")
        return {"self": self.self_obj(it, it.fresh_bool("in_place")), "x": x,
                "new_dims": SDim.fresh(it, "new_dims")}

    def track(self, it, a):
        track_unit(it, "x.units", a.x.fields["units"])
        for n, v in zip(BASE_DIMS, a.new_dims.vec):
            it.ctx.track("new_dims." + n, v)

    def members(self, it):
        return [dim_of(it, EF.DIMS[m]) for m in EF.EQUIVALENCES[self.equiv]["members"]]

    def covered(self, it, a):
        ms = self.members(it)
        xd = S.dim(a.x.fields["units"])
        return z3.And(z3.Or(*[S.dim_eq(xd, m) for m in ms]), z3.Or(*[S.dim_eq(a.new_dims, m) for m in ms]))

    def requires(self, it, a):
        # the refusal half only: covered requests are the business of the formula contracts
        return [("the request is not covered by the equivalence", z3.Not(self.covered(it, a)))]

    def raises(self, it, a):
        return {"InvalidUnitEquivalence": z3.BoolVal(True)}

    def snapshot(self, it, a):
        return snapshot_array(a.x)

    def ensures(self, it, a, r, old):
        return [("C09: a request the equivalence does not cover raises InvalidUnitEquivalence", False)]

    def on_raise(self, it, a, old, exc):
        return unchanged("C09/C18: input of a refused conversion", a.x, old)

    def canary(self, it, a, r, old):
        return None


class _Formula(_Equiv):
    src = dst = None
    in_place = False
    xcls = "unyt_array"
    params = ()
    value_law = True
    xkind = "f"                      # "f": floating-point data; "iu": integer data (copying form)

    def formals(self, it):
        u = make_unit(it, "xu")
        u.fields["dimensions"] = dim_of(it, EF.DIMS[self.src])
        x = N.make_unyt_array(it, "x", units=u, cls=self.xcls)
        f = {"self": self.self_obj(it, self.in_place), "x": x, "new_dims": dim_of(it, EF.DIMS[self.dst])}
        for p in self.params:
            f[p] = it.fresh_real(p)
        return f

    def call_args(self, formals):
        return [formals["self"], formals["x"], formals["new_dims"]]

    def call_kwargs(self, formals):
        return {p: formals[p] for p in self.params}

    def track(self, it, a):
        N.track_array(it, "x", a.x)
        track_unit(it, "x.units", a.x.fields["units"])
        for p in self.params:
            it.ctx.track(p, getattr(a, p))

    def requires(self, it, a):
        P = it.domain.prefix_table(it)
        u = a.x.fields["units"]
        out = [("x: unit consistent with its table, no zero point (absolute scales only)",
                z3.And(S.unit_wf(u, P), S.offset(u) == 0)),
               ("x holds floating-point data" if self.xkind == "f" else
                "x holds integer data (the copying form computes in float64; the in-place form on integer "
                "data is the business of C17)",
                to_z3(N.arr_kind(a.x)) == N.sv("f") if self.xkind == "f" else
                z3.Or(to_z3(N.arr_kind(a.x)) == N.sv("i"), to_z3(N.arr_kind(a.x)) == N.sv("u")))]
        for p in self.params:
            out.append(("%s > 0" % p, to_real(getattr(a, p)) > 0))
        return out

    def snapshot(self, it, a):
        return snapshot_array(a.x)

    def expected(self, it, a, old):
        P = it.domain.prefix_table(it)
        x = S.SI(old["elem"], old["units"], P)
        K = {c: K_term(c) for c in set(EF.CONSTANTS.values())}
        p = {k: (to_real(getattr(a, k)) if k in self.params else v)
             for k, v in EF.EQUIVALENCES[self.equiv]["params"].items()}
        return x, EF.EQUIVALENCES[self.equiv]["formulas"][(self.src, self.dst)](x, K, p)

    def ensures(self, it, a, r, old):
        P = it.domain.prefix_table(it)
        if not N.is_unyt_array(r):
            return [("C09: the result is a unyt object", False)]
        ru = r.fields["units"]
        if self.in_place:
            # the in-place form is judged on the input object itself
            y = S.SI(N.arr_elem(a.x), a.x.fields["units"], P)
        else:
            y = S.SI(N.arr_elem(r), ru, P)
        x, want = self.expected(it, a, old)
        it.ctx.instantiate(old["elem"])
        if isinstance(want, tuple):
            tag = want[0]
            if tag == "undefined-at-zero":
                law = z3.Implies(x != 0, y == want[1])
            elif tag == "sqrt":
                law = z3.Implies(want[1] >= 0, z3.And(y >= 0, y * y == want[1]))
            elif tag == "inv-sqrt":
                law = z3.Implies(want[1] > 0, z3.And(y > 0, y * y * want[1] == 1))
            elif tag == "scaled-sqrt":
                law = z3.Implies(z3.And(x != 0, want[2] >= 0), z3.And(y >= 0, y * y == want[1] * want[1] * want[2]))
            else:
                raise Unsupported("formula kind %s" % tag)
        else:
            law = y == want
        out = [("C09: SI(result) equals the defining formula evaluated with the library's constants", law)] \
            if self.value_law else []
        out += [("C09: the result has the target dimension", S.dim_eq(S.dim(ru), a.new_dims)),
                ("C09: the result unit has no zero point", S.offset(ru) == 0)]
        if self.in_place:
            out.append(("C09/C18: the in-place form returns a view of its input's memory, and the input is "
                        "relabelled with the unit of the returned object (so it now holds the converted "
                        "quantity: same formula as the copying form)",
                        N.arr_buf(r) is N.arr_buf(a.x) and r.fields["units"] is a.x.fields["units"]))
            bx = N.arr_buf(a.x)
            if self.xkind == "f":
                out.append(("C17: the in-place form keeps the floating-point dtype of its buffer",
                            z3.And(to_z3(bx.kind) == to_z3(old["kind"]), to_z3(bx.itemsize) == to_z3(old["itemsize"]))))
        else:
            out += unchanged("C09/C18: input of the copying form", a.x, old)
        return out

    def on_raise(self, it, a, old, exc):
        if self.in_place:
            return []
        return unchanged("C09/C18: input of a refused copying conversion", a.x, old)

    def canary(self, it, a, r, old):
        return to_real(N.arr_elem(r)) == 12345 if N.is_unyt_array(r) else None


REPLAY = r'''
import sys, os
sys.path.insert(0, os.environ.get("VERIF_ROOT", "/verif"))
import numpy as np
import warnings
warnings.filterwarnings("ignore")
from unyt import unyt_array, unyt_quantity, physical_constants as pc
from unyt.equivalencies import equivalence_registry
from unyt.exceptions import InvalidUnitEquivalence
from spec import equivalence_formulas as EF
EQUIV, SRC, DST, IN_PLACE, XCLS, XKIND, PARAMS, REFUSAL = %(args)r
UNITS = {"temperature": ["K", "R", "mK"], "energy": ["J", "erg", "keV"], "mass": ["kg", "g", "Msun"],
         "length": ["m", "cm", "km", "angstrom"], "rate": ["Hz", "1/s", "1/yr"],
         "spatial_frequency": ["1/cm", "1/m"], "velocity": ["m/s", "km/s", "cm/s"],
         "density": ["g/cm**3", "kg/m**3"], "number_density": ["cm**-3", "m**-3"],
         "dimensionless": ["dimensionless"], "flux": ["W/m**2", "erg/s/cm**2"], "time": ["s"], "angle": ["rad"]}
K = {c: float(getattr(pc, a).in_mks().v) for a, c in EF.CONSTANTS.items()}
import unyt.dimensions as D
bad = 0
cls = equivalence_registry[EQUIV]
if REFUSAL:
    members = EF.EQUIVALENCES[EQUIV]["members"]
    for sd, us in UNITS.items():
        for dd in UNITS:
            covered = sd in members and dd in members
            x = unyt_array([1.5, 2.5], us[0])
            try:
                cls().convert(x, getattr(D, dd))
                raised = False
            except InvalidUnitEquivalence:
                raised = True
            except Exception as e:
                raised = None
            if not covered and raised is False:
                print("NOT REFUSED:", EQUIV, us[0], "->", dd); bad += 1
else:
    xval = num(MODEL.get("x.elem", 1.5)) or 1.5
    p = dict(EF.EQUIVALENCES[EQUIV]["params"])
    kw = {}
    for name in PARAMS:
        kw[name] = num(MODEL.get(name, p[name])) if MODEL.get(name) else float(p[name])
        p[name] = kw[name]
    p = {k: float(v) for k, v in p.items()}
    f = EF.EQUIVALENCES[EQUIV]["formulas"][(SRC, DST)]
    for vals in ([xval, 2 * xval], [0.75], [3.0, 1.25, 0.5]):
        for u in UNITS[SRC]:
            dt = "int64" if XKIND == "iu" else "float64"
            data = np.array([int(round(v)) or 1 for v in vals], dtype=dt) if XKIND == "iu" else np.array(vals)
            x = unyt_quantity(data[0], u) if XCLS == "unyt_quantity" else unyt_array(data, u)
            before = x.copy()
            xs = np.atleast_1d(before.in_mks().v).astype(float)
            try:
                r = cls(in_place=IN_PLACE).convert(x, getattr(D, DST), **kw)
            except Exception as e:
                print("raised", type(e).__name__, e, "for", before); bad += 1; continue
            got = np.atleast_1d((x if IN_PLACE else r).in_mks().v).astype(float)
            for xi, yi in zip(xs, got):
                w = f(xi, K, p)
                if isinstance(w, tuple):
                    t = w[0]
                    if t == "undefined-at-zero": w = w[1]
                    elif t == "sqrt": w = w[1] ** 0.5
                    elif t == "inv-sqrt": w = w[1] ** -0.5 if w[1] > 0 else float("nan")
                    elif t == "scaled-sqrt": w = w[1] * w[2] ** 0.5 if w[2] >= 0 else float("nan")
                    elif t == "fourth-root": w = w[1] ** 0.25
                if w == w and not close(yi, w, 1e-9):
                    print("FORMULA:", EQUIV, before, "->", DST, "gives", yi, "SI; formula", w); bad += 1
            if r.units.dimensions != getattr(D, DST):
                print("DIMENSION:", r.units.dimensions, "instead of", DST); bad += 1
            if not IN_PLACE and not (np.array_equal(np.atleast_1d(x.v), np.atleast_1d(before.v)) and x.units == before.units):
                print("INPUT CHANGED by the copying form:", before, "->", x); bad += 1
            if IN_PLACE and not (np.shares_memory(r, x) and r.units == x.units):
                print("IN-PLACE form did not convert its input"); bad += 1
print("violations reproduced:", bad)
sys.exit(1 if bad else 0)
'''


def _replay(self, model, label):
    from .replaylib import script
    args = (self.equiv, getattr(self, "src", None), getattr(self, "dst", None), getattr(self, "in_place", False),
            getattr(self, "xcls", "unyt_array"), getattr(self, "xkind", "f"), tuple(getattr(self, "params", ())),
            isinstance(self, _Refusal))
    return script(model, REPLAY % {"args": args})


_Equiv.replay = _replay


def _mk(base, name, **d):
    d["tag"] = name
    cls = type(name, (base,), d)
    cls.__module__ = __name__
    globals()[name] = cls
    return name


REFUSALS, FORMULAS, OUT_OF_REACH = [], [], []
for _e, _spec in EF.EQUIVALENCES.items():
    REFUSALS.append(_mk(_Refusal, "EquivRefusal_" + _e, equiv=_e))
    for (_s, _d) in _spec["formulas"]:
        for _ip in (False, True):
            for _xc in ("unyt_array", "unyt_quantity"):
                _n = "E_%s_%s_%s%s%s" % (_e, _s, _d, "_inplace" if _ip else "", "_Q" if _xc == "unyt_quantity" else "")
                _mk(_Formula, _n, equiv=_e, src=_s, dst=_d, in_place=_ip, xcls=_xc,
                    params=tuple(_spec["params"]),
                    value_law=_e != "lorentz",
                    may_raise=("TypeError",) if (_ip or _e == "lorentz") else ())
                (OUT_OF_REACH if _e == "effective_temperature" else FORMULAS).append(_n)
        _n = "E_%s_%s_%s_int" % (_e, _s, _d)
        _mk(_Formula, _n, equiv=_e, src=_s, dst=_d, in_place=False, xcls="unyt_array", xkind="iu",
            params=tuple(_spec["params"]), value_law=_e != "lorentz",
            may_raise=("TypeError",) if _e == "lorentz" else ())
        (OUT_OF_REACH if _e == "effective_temperature" else FORMULAS).append(_n)
        # integer buffer converted in place (re-typed to the float of its width by the out= ufunc forms;
        # 1-byte integers are refused): the input itself must hold the converted quantity
        _n = "E_%s_%s_%s_inplace_int" % (_e, _s, _d)
        _mk(_Formula, _n, equiv=_e, src=_s, dst=_d, in_place=True, xcls="unyt_array", xkind="iu",
            params=tuple(_spec["params"]), value_law=_e != "lorentz", may_raise=("TypeError",))
        (OUT_OF_REACH if _e == "effective_temperature" else FORMULAS).append(_n)
ALL = REFUSALS + FORMULAS


# ------------------------------------------------------------------ entry points
def equivalence_registry(it):
    """unyt.equivalencies.equivalence_registry: filled by the metaclass _RegisteredEquivalence with
    every class that defines `type_name` -- read from the class bodies of the tree being verified"""
    import ast as _ast
    from pyvc.core import ClassRef
    out = {}
    for ci in it.repo.modules["unyt.equivalencies"].classes.values():
        tn = ci.class_assigns.get("type_name")
        if isinstance(tn, _ast.Constant) and isinstance(tn.value, str):
            out[tn.value] = ClassRef(ci)
    return out


for _m in ("unyt.equivalencies", "unyt.array", "unyt.unit_object"):
    UD.GLOBAL_HOOKS[_m + ".equivalence_registry"] = equivalence_registry
assumed("equivalence-registry", "equivalence_registry maps each class's type_name to the class (the "
        "registering metaclass is not executed)")

CLASS_TO_EQUIV = {v["class"]: k for k, v in EF.EQUIVALENCES.items()}


def _fresh_result(it, like, label):
    """a new unyt object of either class with a fresh unit (what the formula contracts leave open)"""
    ru = make_unit(it, label + "_unit")
    it.assume(z3.Length(S.ustr(ru)) >= 1)          # ASSUMED['sympy-str-nonempty']
    cname = "unyt_quantity" if it.branch(it.fresh_bool(label + "_is_quantity")) else "unyt_array"
    return N.make_unyt_array(it, label, units=ru, cls=cname)


class EquivCallsite(Contract):
    """Equivalence.convert at a call site: the request is matched to the proved contract of its
    (equivalence, source dimension, target dimension, copy / in-place, array / quantity, float /
    integer data) configuration; an uncovered request is refused as the refusal contract says"""
    name = "unyt.equivalencies.Equivalence.convert"
    properties = ()

    def apply(self, it, bound):
        from pyvc.contracts import Args
        me, x, new_dims = bound["self"], bound["x"], bound["new_dims"]
        kwargs = dict(bound.get("kwargs") or {})
        e = CLASS_TO_EQUIV.get(me.cls.name)
        if e is None or not N.is_unyt_array(x) or not isinstance(new_dims, SDim):
            raise Unsupported("Equivalence.convert call-site form")
        in_place = me.fields.get("in_place")
        if not isinstance(in_place, bool):
            raise Unsupported("Equivalence.convert with a symbolic in_place flag")
        spec = EF.EQUIVALENCES[e]
        if set(kwargs) - set(spec["params"]):
            raise Unsupported("Equivalence.convert keyword %r" % (sorted(kwargs),))
        xd = S.dim(x.fields["units"])
        it.call_log.append(self.name)
        for (s_, d_) in spec["formulas"]:
            cond = z3.And(S.dim_eq(xd, dim_of(it, EF.DIMS[s_])), S.dim_eq(new_dims, dim_of(it, EF.DIMS[d_])))
            if not it.branch(cond):
                continue
            k = to_z3(N.arr_kind(x))
            suffix = ""
            if it.branch(k == N.sv("f")):
                pass
            elif not in_place and x.cls.name == "unyt_array" and it.branch(z3.Or(k == N.sv("i"), k == N.sv("u"))):
                suffix = "_int"
            else:
                raise Unsupported("Equivalence.convert on this dtype / class at a call site")
            vname = "E_%s_%s_%s%s%s" % (e, s_, d_, "_inplace" if in_place else "",
                                        "_Q" if x.cls.name == "unyt_quantity" else "") if not suffix else \
                "E_%s_%s_%s_int" % (e, s_, d_)
            if vname not in FORMULAS:
                raise Unsupported("no proved contract %s" % vname)
            v = globals()[vname]()
            d = {"self": me, "x": x, "new_dims": new_dims}
            for p_ in v.params:
                d[p_] = kwargs.get(p_, spec["params"][p_])
            a = Args(d)
            for label, f in v.requires(it, a):
                it.ctx.prove("%s[%s]: pre[%s] at call from %s" % (self.name, vname, label, it.verifying), f,
                             kind="callsite-pre")
                it.assume(f)
            for exc in v.may_raise:
                if it.branch(it.fresh_bool("mayraise_" + exc)):
                    it.raise_(exc)
            old = v.snapshot(it, a)
            if in_place:
                b = N.arr_buf(x)
                b.elem = it.fresh_real("converted_in_place")
                b.writes += 1
                b.kind = z3.String(it.ctx.fresh_name("converted_kind"))
                b.itemsize = it.fresh_int("converted_itemsize")
                ru = make_unit(it, "converted_unit")
                it.assume(z3.Length(S.ustr(ru)) >= 1)
                x.fields["units"] = ru
                cname = "unyt_quantity" if it.branch(it.fresh_bool("wrapper_is_quantity")) else "unyt_array"
                r = N.make_unyt_array(it, "converted_view", units=ru, cls=cname, buf=b)
            else:
                r = _fresh_result(it, x, "converted")
            for label, f in v.ensures(it, a, r, old):
                if f is False:
                    raise Unsupported("call-site model of %s violates its postcondition %r" % (vname, label))
                if f is True:
                    continue
                it.assume(f)
            return r
        ms = [dim_of(it, EF.DIMS[m]) for m in spec["members"]]
        covered = z3.And(z3.Or(*[S.dim_eq(xd, m) for m in ms]), z3.Or(*[S.dim_eq(new_dims, m) for m in ms]))
        if it.branch(z3.Not(covered)):
            it.raise_("InvalidUnitEquivalence")      # contract EquivRefusal_<e>
        raise Unsupported("Equivalence.convert between equal dimensions")


class _ToEquivalent(Contract):
    """x.to_equivalent(<any unit string>, <equivalence>, **params): the copying entry point behind
    to / in_units / to_value with equivalence=.  For an input of ARBITRARY dimension and a target
    unit of arbitrary dimension, scale and zero point: a value is returned only for a target of
    the input's own dimension (plain conversion) or for a pair the equivalence covers, and it is
    the defining formula's value expressed in the target unit (zero point included); the input is
    untouched."""
    name = "unyt.array.unyt_array.to_equivalent"
    properties = ("C09", "C18")
    equiv = None
    callsite_disabled = True
    may_raise = ("UnitParseError", "InvalidUnitEquivalence")
    max_paths = 6000

    def configure(self, repo, dom):
        dom.inline.add("unyt.equivalencies.Equivalence.__init__")
        dom.inline.add("unyt.array.unyt_array.has_equivalent")
        dom.inline.add("unyt.unit_object.Unit.has_equivalent")

    def formals(self, it):
        from pyvc.unyt_domain import make_registry
        reg = make_registry(it, "registry")
        reg.fields["lut"].positive_scales = True

        def cached(it_, key):
            # memoised Units were built by Unit.__new__ against this registry
            cu = make_unit(it_, "cached_target", registry=reg)
            it_.assume(z3.Length(S.ustr(cu)) >= 1)
            it_.__dict__.setdefault("memoised_units", []).append((key, cu))
            return cu
        reg.fields["_unit_object_cache"].reader = cached
        u = make_unit(it, "xu", registry=reg)
        x = N.make_unyt_array(it, "x", units=u)
        f = {"self": x, "unit": it.fresh_str("target_unit_string"), "equivalence": self.equiv}
        self._params = tuple(EF.EQUIVALENCES[self.equiv]["params"])
        for p in self._params:
            f[p] = it.fresh_real(p)
        return f

    def call_args(self, formals):
        return [formals["self"], formals["unit"], formals["equivalence"]]

    def call_kwargs(self, formals):
        return {p: formals[p] for p in self._params}

    def track(self, it, a):
        N.track_array(it, "x", a.self)
        track_unit(it, "x.units", a.self.fields["units"])
        it.ctx.track("target_unit_string", a.unit)

    def requires(self, it, a):
        P = it.domain.prefix_table(it)
        u = a.self.fields["units"]
        out = [("x: unit consistent with its table, non-empty name, no zero point",
                z3.And(S.unit_wf(u, P), z3.Length(S.ustr(u)) >= 1, S.offset(u) == 0)),
               ("x holds floating-point data", to_z3(N.arr_kind(a.self)) == N.sv("f")),
               ("every row of the registry's table has a positive scale (excludes the negatively scaled `lat`; "
                "table invariant, instantiated at the rows the parse reads)", True)]
        for p in self._params:
            out.append(("%s > 0" % p, to_real(getattr(a, p)) > 0))
        return out

    def snapshot(self, it, a):
        return snapshot_array(a.self)

    def ensures(self, it, a, r, old):
        P = it.domain.prefix_table(it)
        if not N.is_unyt_array(r):
            return [("C09: the result is a unyt object", False)]
        ru = r.fields["units"]
        xd, rd = S.dim(old["units"]), S.dim(ru)
        x = S.SI(old["elem"], old["units"], P)
        y = S.SI(N.arr_elem(r), ru, P)
        it.ctx.instantiate(old["elem"])
        spec = EF.EQUIVALENCES[self.equiv]
        K = {c: K_term(c) for c in set(EF.CONSTANTS.values())}
        p = {k: to_real(getattr(a, k)) for k in self._params}
        same = S.dim_eq(xd, rd)
        cases = [same]
        out = [("C09: a target of the input's own dimension is a plain conversion (same quantity)",
                z3.Implies(same, y == x))]
        for (s_, d_), f in spec["formulas"].items():
            if self.equiv in ("lorentz", "effective_temperature"):
                continue
            c = z3.And(S.dim_eq(xd, dim_of(it, EF.DIMS[s_])), S.dim_eq(rd, dim_of(it, EF.DIMS[d_])))
            cases.append(c)
            want = f(x, K, p)
            if isinstance(want, tuple):
                if want[0] == "undefined-at-zero":
                    law = z3.Implies(x != 0, y == want[1])
                elif want[0] == "sqrt":
                    law = z3.Implies(want[1] >= 0, z3.And(y >= 0, y * y == want[1]))
                else:
                    continue
            else:
                law = y == want
            out.append(("C09: %s -> %s: the value in the requested unit (zero point included) is the defining "
                        "formula's" % (s_, d_), z3.Implies(c, law)))
        out.append(("C09: a value is returned only for the input's own dimension or a pair the equivalence covers",
                    z3.Or(*cases)))
        memo = [u for (k_, u) in it.__dict__.get("memoised_units", []) if k_ is a.unit]
        parsed = [e_ for (s0, e_) in it.__dict__.get("parsed_exprs", []) if s0 is a.unit]
        out.append(("C09: the value is expressed in the requested unit (the Unit memoised for, or parsed from, the "
                    "unit string)", any(ru is u or ru.fields["expr"] is u.fields["expr"] for u in memo)
                    or any(ru.fields["expr"] is e_ for e_ in parsed)))
        return out + unchanged("C09/C18: input of the copying entry point", a.self, old)

    def on_raise(self, it, a, old, exc):
        return unchanged("C09/C18: input of a refused conversion", a.self, old)

    def canary(self, it, a, r, old):
        return to_real(N.arr_elem(r)) == 12345 if N.is_unyt_array(r) else None


ENTRY = []
for _e in ("thermal", "mass_energy", "spectral", "number_density", "schwarzschild", "compton", "sound_speed"):
    ENTRY.append(_mk(_ToEquivalent, "ToEquivalent_" + _e, equiv=_e))
ALL = ALL + ENTRY


ENTRY_REPLAY = r'''
import sys, os
sys.path.insert(0, os.environ.get("VERIF_ROOT", "/verif"))
import numpy as np
import warnings
warnings.filterwarnings("ignore")
from unyt import unyt_array, physical_constants as pc
from spec import equivalence_formulas as EF
EQUIV = %(equiv)r
UNITS = {"temperature": ["K", "R", "mK"], "energy": ["J", "erg", "keV"], "mass": ["kg", "g", "Msun"],
         "length": ["m", "cm", "km", "angstrom"], "rate": ["Hz", "1/s", "1/yr"],
         "spatial_frequency": ["1/cm", "1/m"], "velocity": ["m/s", "km/s", "cm/s"],
         "density": ["g/cm**3", "kg/m**3"], "number_density": ["cm**-3", "m**-3"]}
TARGETS = dict(UNITS, temperature=["K", "R", "mK", "degC", "degF"])
K = {c: float(getattr(pc, a).in_mks().v) for a, c in EF.CONSTANTS.items()}
p = {k: float(v) for k, v in EF.EQUIVALENCES[EQUIV]["params"].items()}
xval = num(MODEL.get("x.elem", 1.5)) or 1.5
bad = 0
def si(q):
    u = q.units
    return (np.atleast_1d(q.d).astype(float) - u.base_offset) * u.base_value
for (src, dst), f in EF.EQUIVALENCES[EQUIV]["formulas"].items():
    for su in UNITS[src]:
        for tu in TARGETS[dst]:
          # a ladder of magnitudes, so that zero points of the target scale are not lost in rounding
          for mag in [10.0 ** k for k in range(-36, 37, 3)]:
            x = unyt_array([(abs(xval) + 0.5) * mag, 2.25 * mag], su)
            before = x.copy()
            try:
                r = x.to_equivalent(tu, EQUIV)
            except Exception as e:
                print("raised", type(e).__name__, e, "for", before, "->", tu); bad += 1; continue
            for xi, yi in zip(si(before), si(r)):
                w = f(xi, K, p)
                if isinstance(w, tuple):
                    w = w[1] if w[0] == "undefined-at-zero" else (w[1] ** 0.5 if w[0] == "sqrt" else float("nan"))
                if w == w and np.isfinite(w) and np.isfinite(yi) and not close(yi, w, 1e-9) and bad < 20:
                    print("FORMULA:", before, "->", tu, "gives", r, "=", yi, "SI; formula", w); bad += 1
            if not (np.array_equal(x.d, before.d) and x.units == before.units):
                print("INPUT CHANGED:", before, "->", x); bad += 1
print("violations reproduced:", bad)
sys.exit(1 if bad else 0)
'''


def _entry_replay(self, model, label):
    from .replaylib import script
    return script(model, ENTRY_REPLAY % {"equiv": self.equiv})


_ToEquivalent.replay = _entry_replay


class _ConvertToEquivalent(_ToEquivalent):
    """x.convert_to_equivalent(<any unit string>, <equivalence>, **params): the in-place entry point
    (also behind convert_to_units(equivalence=)): afterwards x itself holds the value the copying
    entry point would return -- same formula, expressed in the requested unit -- and its name is
    dropped; a refused request leaves x as it was"""
    name = "unyt.array.unyt_array.convert_to_equivalent"
    may_raise = ("UnitParseError", "InvalidUnitEquivalence", "TypeError", "ValueError")

    def ensures(self, it, a, r, old):
        # judged on the input object itself
        view = N.make_unyt_array(it, "x_after", units=a.self.fields["units"], buf=N.arr_buf(a.self))
        out = _ToEquivalent.ensures(self, it, a, view, old)
        out = [(l, f) for (l, f) in out if "input of the copying entry point" not in l]
        return out + [("returns None", r is None)]

    def on_raise(self, it, a, old, exc):
        b = N.arr_buf(a.self)
        return [("C09/C18: a refused in-place conversion leaves the numbers as they were",
                 True if b.elem is old["elem"] else to_real(b.elem) == to_real(old["elem"])),
                ("C09/C18: a refused in-place conversion leaves the unit as it was",
                 a.self.fields["units"] is old["units"])]

    def canary(self, it, a, r, old):
        return to_real(N.arr_buf(a.self).elem) == 12345


INPLACE_ENTRY = []
for _e in ("thermal", "mass_energy", "spectral", "number_density", "schwarzschild", "compton", "sound_speed"):
    INPLACE_ENTRY.append(_mk(_ConvertToEquivalent, "ConvertToEquivalent_" + _e, equiv=_e))
ALL = ALL + INPLACE_ENTRY


class _InUnitsEquivalence(_ToEquivalent):
    """x.in_units(<unit string>, equivalence=<name>, **params) -- also what x.to(...) and
    x.to_value(...) call: forwards to to_equivalent (executed as part of this contract)"""
    name = "unyt.array.unyt_array.in_units"

    def configure(self, repo, dom):
        _ToEquivalent.configure(self, repo, dom)
        dom.inline.add("unyt.array.unyt_array.to_equivalent")

    def call_args(self, formals):
        return [formals["self"], formals["unit"]]

    def call_kwargs(self, formals):
        return dict({"equivalence": formals["equivalence"]}, **{p: formals[p] for p in self._params})


class _ToSpelling(_InUnitsEquivalence):
    """x.to(<unit string>, equivalence=<name>, **params)"""
    name = "unyt.array.unyt_array.to"


class _ConvertToUnitsSpelling(_ConvertToEquivalent):
    """x.convert_to_units(<unit string>, equivalence=<name>, **params)"""
    name = "unyt.array.unyt_array.convert_to_units"

    def configure(self, repo, dom):
        _ConvertToEquivalent.configure(self, repo, dom)
        dom.inline.add("unyt.array.unyt_array.convert_to_equivalent")

    def call_args(self, formals):
        return [formals["self"], formals["unit"]]

    def call_kwargs(self, formals):
        return dict({"equivalence": formals["equivalence"]}, **{p: formals[p] for p in self._params})


SPELLINGS = []
for _e in ("thermal", "mass_energy", "spectral", "number_density", "schwarzschild", "compton", "sound_speed"):
    SPELLINGS.append(_mk(_InUnitsEquivalence, "InUnitsEquivalence_" + _e, equiv=_e))
    SPELLINGS.append(_mk(_ToSpelling, "ToEquivalence_" + _e, equiv=_e))
    SPELLINGS.append(_mk(_ConvertToUnitsSpelling, "ConvertToUnitsEquivalence_" + _e, equiv=_e))
ALL = ALL + SPELLINGS
