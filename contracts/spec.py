"""Specification functions shared by the contracts.  They are written from the property
statements (SI denotation of a reading, affine semantics of offset scales, dimension
vectors), not from the code.
"""
from fractions import Fraction

import z3

from pyvc.core import to_real, to_z3, is_z3
from pyvc.unyt_domain import (SDim, SLut, RowSort, pfx_of, e_str, BASE_DIMS, _b)
from pyvc.unyt_domain import expr_str as _term_str

TEMPERATURE = SDim.base("temperature")
ANGLE = SDim.base("angle")
LOGARITHMIC = SDim.base("logarithmic")


def scale(u):
    return to_real(u.fields["base_value"])


def offset(u):
    return to_real(u.fields["base_offset"])


def dim(u):
    return u.fields["dimensions"]


def expr_str(u):
    return _term_str(u.fields["expr"].term)


def ustr(u):
    """str(u): 'dimensionless' for the unit expression 1, the four temperature signs, else
    the printed expression (property C20 / Unit.__str__ contract)"""
    from pyvc.unyt_domain import E_ONE
    e = u.fields["expr"].term
    t = _term_str(e)
    sv = z3.StringVal
    if z3.is_string_value(t):
        n = t.as_string()
        return sv({"degC": "\u00b0C", "delta_degC": "\u0394\u00b0C", "degF": "\u00b0F",
                   "delta_degF": "\u0394\u00b0F"}.get(n, n))
    return z3.If(e == E_ONE, sv("dimensionless"),
                 z3.If(t == sv("degC"), sv("\u00b0C"),
                       z3.If(t == sv("delta_degC"), sv("\u0394\u00b0C"),
                             z3.If(t == sv("degF"), sv("\u00b0F"),
                                   z3.If(t == sv("delta_degF"), sv("\u0394\u00b0F"), t)))))


def urepr(u):
    from pyvc.unyt_domain import E_ONE
    e = u.fields["expr"].term
    t = _term_str(e)
    if z3.is_string_value(t):
        return t
    return z3.If(e == E_ONE, z3.StringVal("(dimensionless)"), t)


def lut_of(u):
    return u.fields["registry"].fields["lut"]


def dim_eq(a, b):
    return _b(a.eq(b))


def is_temperature(u):
    return _b(dim(u).is_base("temperature"))


def prefix_of(u):
    """SI prefix the unit's string splits into against its registry's table ('' if none)"""
    return pfx_of(ustr(u), lut_of(u).term)


def prefix_value_term(prefix_table, p):
    """PREFIX_VALUE[p] as an if-then-else chain over the prefix table read from source"""
    t = z3.RealVal(1)
    for k, v in prefix_table.items():
        t = z3.If(p == z3.StringVal(k), to_real(v[0]), t)
    return t


def is_prefix(prefix_table, p):
    return z3.Or(*[p == z3.StringVal(k) for k in prefix_table])


def prefixed_temperature(u):
    return z3.And(is_temperature(u), prefix_of(u) != z3.StringVal(""))


def eff_offset(u, prefix_table):
    """zero point of the scale, in the unit's own degrees.  A prefixed offset scale p·b has
    x [p·b] = (p·x) [b], i.e. zero point offset(b)/p  (property C03/C08: 'exact affine maps
    ... with SI prefixes')."""
    pv = prefix_value_term(prefix_table, prefix_of(u))
    return z3.If(prefixed_temperature(u), offset(u) / pv, offset(u))


def SI(x, u, prefix_table):
    """SI magnitude denoted by the reading x labelled with unit u"""
    return (to_real(x) - eff_offset(u, prefix_table)) * scale(u)


def unit_wf(u, prefix_table):
    """a unit object is consistent with its registry's table: a prefixed unit's scale is
    prefix value × base scale (established by _lookup_unit_symbol / Unit.__new__)"""
    pv = prefix_value_term(prefix_table, prefix_of(u))
    return z3.And(scale(u) > 0, pv > 0)


def base_scale(u, prefix_table):
    """scale of the un-prefixed base symbol of a prefixed unit"""
    pv = prefix_value_term(prefix_table, prefix_of(u))
    return scale(u) / pv
