"""Contracts for the conversion routes of unyt_array (C03 route equality, C17 dtypes, C18
frames, C01 refusal): in_units, to, to_value, convert_to_units, in_base ..."""
from fractions import Fraction

import z3

from pyvc.contracts import Contract
from pyvc.core import to_real, to_z3, is_z3, Unsupported, SObj, Opaque
from pyvc.unyt_domain import make_unit, make_registry, track_unit, _b
from pyvc import np_domain as N
from . import spec as S
from .units_core import GetConversionFactor


def target_dtype(kind, size):
    """C17 spec (from the statement): integers -> float of the same item size, at least 16
    bits; floats keep their width; complex stays complex"""
    k, n = to_z3(kind), to_z3(size)
    rk = z3.If(k == N.sv("c"), N.sv("c"), N.sv("f"))
    rn = z3.If(n < 2, z3.IntVal(2), n)
    return rk, rn


class SanitizeUnitsConvert(Contract):
    name = "unyt.array._sanitize_units_convert"
    properties = ("C03",)

    def formals(self, it):
        return {"possible_units": make_unit(it, "target"), "registry": make_registry(it, "r")}

    def result(self, it, a):
        if isinstance(a.possible_units, SObj) and a.possible_units.cls.name == "Unit":
            return a.possible_units
        from pyvc.core import is_str
        if is_str(a.possible_units):
            # a unit string: the function's own body (Unit(<string>, registry=...), whose parsing
            # steps are crossed by their contracts)
            fi = it.repo.func(self.name)
            return it.run_body(fi, [a.possible_units, a.registry], {})
        raise Unsupported("_sanitize_units_convert of %r" % (a.possible_units,))

    def ensures(self, it, a, r, old):
        from pyvc.core import is_str
        if is_str(a.possible_units):
            return []
        return [("a Unit object is returned as is", r is a.possible_units)]


class CheckEmConversion(Contract):
    """trusted: for units that are not one of the CGS<->SI electromagnetic pairs the function
    returns ().  The EM pairs are covered by ground obligations on em_conversions and by the
    bounded driver, not by this proof."""
    name = "unyt.unit_object._check_em_conversion"
    properties = ("C03", "C10")
    trusted = True
    assumptions = ("_check_em_conversion returns () for non-electromagnetic unit pairs "
                   "(assumed; sympy atoms() traversal not modelled; EM pairs are covered by the "
                   "bounded layer only)",)

    def formals(self, it):
        return {"unit": make_unit(it, "u")}

    def apply(self, it, bound):
        return ()


class _Route(Contract):
    properties = ("C03", "C17", "C18", "C01")

    def make_self(self, it):
        return N.make_unyt_array(it, "self")

    def formals(self, it):
        arr = self.make_self(it)
        target = make_unit(it, "target")
        return {"self": arr, "units": target, "equivalence": None}

    def call_args(self, formals):
        return [formals["self"], formals["units"]]

    def apply(self, it, bound):
        u_ = bound.get("units")
        if not (isinstance(u_, SObj) and u_.cls.name == "Unit"):
            # a unit given as a string (or anything else): the body itself resolves it
            fi = it.repo.func(self.name)
            kw = dict(bound.get("kwargs") or {})
            if bound.get("equivalence") is not None:
                kw["equivalence"] = bound["equivalence"]
            return it.run_body(fi, [bound["self"], u_], kw)
        if bound.get("equivalence") is not None:
            # the equivalence spelling of a route is another function altogether: its body is
            # executed (it forwards to to_equivalent / convert_to_equivalent, which the contracts of
            # contracts/equivalence.py cover); this contract speaks about equivalence=None only
            fi = it.repo.func(self.name)
            kw = dict(bound.get("kwargs") or {})
            kw["equivalence"] = bound["equivalence"]
            return it.run_body(fi, [bound["self"], bound["units"]], kw)
        return Contract.apply(self, it, bound)

    def track(self, it, a):
        N.track_array(it, "self", a.self)
        track_unit(it, "old", a.self.fields["units"])
        track_unit(it, "new", a.units)
        it.ctx.track("old.prefix", S.prefix_of(a.self.fields["units"]))
        it.ctx.track("new.prefix", S.prefix_of(a.units))

    def requires(self, it, a):
        P = it.domain.prefix_table(it)
        old = a.self.fields["units"]
        return [("no equivalence= (the equivalence routes have their own contracts)",
                 getattr(a, "equivalence", None) is None),
                ("units consistent with their tables", z3.And(S.unit_wf(old, P), S.unit_wf(a.units, P))),
                ("unit strings non-empty", z3.And(z3.Length(S.ustr(old)) >= 1,
                                                  z3.Length(S.ustr(a.units)) >= 1))]

    def snapshot(self, it, a):
        b = N.arr_buf(a.self)
        return {"elem": b.elem, "kind": b.kind, "itemsize": b.itemsize, "units": a.self.fields["units"],
                "buf": b, "writes": b.writes, "name": a.self.fields.get("name"),
                "scalar": a.self.fields["_scalar"], "size": a.self.fields["_size"]}

    def raises(self, it, a):
        return {"UnitConversionError": z3.Not(S.dim_eq(S.dim(a.self.fields["units"]), S.dim(a.units)))}

    def unchanged(self, a, old):
        b = N.arr_buf(a.self)
        return [("input numbers unchanged", z3.And(to_real(b.elem) == to_real(old["elem"]))
                 if b.elem is not old["elem"] else True),
                ("input buffer not written", b is old["buf"] and b.writes == old["writes"]),
                ("input dtype unchanged", b.kind is old["kind"] and b.itemsize is old["itemsize"]),
                ("input unit unchanged", a.self.fields["units"] is old["units"])]

    def on_raise(self, it, a, old, exc):
        return self.unchanged(a, old)


def large_integer_warning(it, old):
    """C17, last sentence: 'A RuntimeWarning is issued when integers too large for the target float
    are converted' -- the float of n bytes (n >= 2) holds every integer of magnitude <= 2**m exactly,
    m = 11, 24, 53 (IEEE half, single, double); an element beyond that must have raised the warning.
    The thresholds are written here from IEEE 754, not read from the package."""
    k, n = to_z3(old["kind"]), to_z3(old["itemsize"])
    e = to_real(old["elem"])
    mag = z3.If(e >= 0, e, -e)
    width = z3.If(n < 2, z3.IntVal(2), n)
    limit = z3.If(width == 2, z3.RealVal(2 ** 11), z3.If(width == 4, z3.RealVal(2 ** 24), z3.RealVal(2 ** 53)))
    is_int = z3.Or(k == N.sv("i"), k == N.sv("u"))
    warned = any(ev[0] == "warn" for ev in it.ctx.events)
    return ("C17: an integer element too large for the float of its width was announced by a RuntimeWarning",
            z3.Implies(z3.And(is_int, width <= 8, mag > limit), z3.BoolVal(warned)))


def route_replay(model, route):
    from .replaylib import script
    return script(model, "ROUTE = %r\n" % route + r'''
import numpy as np, warnings
reg = UnitRegistry(add_default_symbols=False)
old, pv_old = build_unit(reg, "xold", MODEL, "old")
new, pv_new = build_unit(reg, "xnew", MODEL, "new")
kind = MODEL.get("self.kind", "f"); size = int(MODEL.get("self.itemsize", 8))
dt = np.dtype(kind + str(size)) if kind != "b" else np.dtype(bool)
xq = F(str(MODEL.get("self.elem", 1)))
x = int(xq) if kind in "iu" else float(xq)
try:
    data = np.array([x, x], dtype=dt)
except OverflowError:
    print("the model's element does not fit the dtype: nothing to replay"); sys.exit(0)
arr = unyt.unyt_array(data.copy(), old)
before_vals, before_units = arr.d.copy(), arr.units
print("array", arr, arr.dtype, "->", new, "via", ROUTE)
limit = {2: 2**11, 4: 2**24, 8: 2**53}.get(max(2, size))
too_large = kind in "iu" and limit is not None and abs(x) > limit
with warnings.catch_warnings(record=True) as caught:
    warnings.simplefilter("always")
    try:
        if ROUTE == "convert_to_units":
            arr.convert_to_units(new); res = arr
        else:
            res = arr.in_units(new)
    except Exception as e:
        print("raised", type(e).__name__, e)
        print("after failure: values", arr.d, "units", arr.units)
        if arr.units != before_units or not np.array_equal(arr.d.view(before_vals.dtype), before_vals):
            print("VIOLATION reproduced: a failed conversion changed its input")
            sys.exit(1)
        sys.exit(0)
warned = any(issubclass(w.category, RuntimeWarning) for w in caught)
if too_large and not warned:
    print("VIOLATION reproduced: integer", x, "exceeds the exact range of float%d (%d) and no RuntimeWarning was issued" % (8 * max(2, size), limit))
    sys.exit(1)
other = unyt.unyt_array(data.copy(), old)
with warnings.catch_warnings():
    warnings.simplefilter("ignore")
    if ROUTE == "convert_to_units":
        ref = other.in_units(new)
    else:
        other.convert_to_units(new); ref = other
print(ROUTE, "gives", res, res.dtype, " the other route:", ref, ref.dtype)
if res.dtype != ref.dtype or not np.allclose(res.d, ref.d, rtol=1e-6, equal_nan=True) or res.units != ref.units:
    print("VIOLATION reproduced: in-place and copying routes differ")
    sys.exit(1)
if ROUTE == "in_units" and (arr.units != before_units or not np.array_equal(arr.d, before_vals) or np.shares_memory(res, arr)):
    print("VIOLATION reproduced: the copying route changed or aliases its input")
    sys.exit(1)
want = (np.asarray(before_vals, dtype=float) - (old.base_offset / pv_old if pv_old else old.base_offset)) * old.base_value
got = (np.asarray(res.d, dtype=float) - (new.base_offset / pv_new if pv_new else new.base_offset)) * new.base_value
if kind != "c" and not np.allclose(got, want, rtol=1e-3, atol=1e-300):
    print("VIOLATION reproduced: SI magnitude", got, "instead of", want)
    sys.exit(1)
sys.exit(0)
''')


class InUnits(_Route):
    name = "unyt.array.unyt_array.in_units"

    def replay(self, model, label):
        return route_replay(model, "in_units")

    def result(self, it, a):
        r = N.make_unyt_array(it, "converted", units=a.units)
        r.fields["name"] = a.self.fields.get("name")          # the name is preserved by conversions
        # ghost: the converted copy denotes the same quantity as the input (used by the
        # handler contracts: an argument converted to the reference unit counts as forwarded)
        N.arr_buf(r).converted_from = N.arr_buf(a.self)
        return r

    def ensures(self, it, a, r, old):
        P = it.domain.prefix_table(it)
        rk, rn = target_dtype(old["kind"], old["itemsize"])
        it.ctx.instantiate(old["elem"])
        out = [
            ("same physical quantity: SI(result, target) == SI(input, old unit)",
             S.SI(N.arr_elem(r), a.units, P) == S.SI(old["elem"], old["units"], P)),
            ("result is labelled with the requested unit", r.fields["units"] is a.units),
            ("result owns fresh memory", N.arr_buf(r) is not old["buf"]),
            ("result dtype: float of the same item size (>= 16 bit), complex stays complex",
             z3.And(to_z3(N.arr_kind(r)) == rk, to_z3(N.arr_itemsize(r)) == rn)),
            ("result keeps the shape", z3.And(to_z3(N.arr_scalar(r)) == to_z3(old["scalar"]),
                                              to_z3(N.arr_size(r)) == to_z3(old["size"]))),
            ("result keeps the name", r.fields.get("name") is old["name"]),
            large_integer_warning(it, old),
        ]
        return out + self.unchanged(a, old)

    def canary(self, it, a, r, old):
        return to_real(N.arr_elem(r)) == to_real(old["elem"])


class To(InUnits):
    name = "unyt.array.unyt_array.to"


class ConvertToUnits(_Route):
    name = "unyt.array.unyt_array.convert_to_units"

    def raises(self, it, a):
        d = super().raises(it, a)
        b = N.arr_buf(a.self)
        # C17: 'or raises when no such float type exists' -- 1-byte integers
        d["ValueError"] = z3.And(S.dim_eq(S.dim(a.self.fields["units"]), S.dim(a.units)),
                                 N.is_int_kind(b.kind), to_z3(b.kind) != N.sv("b"),
                                 to_z3(b.itemsize) == 1)
        # boolean data cannot be scaled in place either (NumPy refuses the cast)
        d["TypeError"] = z3.And(S.dim_eq(S.dim(a.self.fields["units"]), S.dim(a.units)),
                                to_z3(b.kind) == N.sv("b"))
        return d

    def havoc(self, it, a):
        b = N.arr_buf(a.self)
        self._old_for_apply = (b.elem, b.kind, b.itemsize)
        b.elem = it.fresh_real("converted_elem")
        rk, rn = target_dtype(b.kind, b.itemsize)
        b.kind, b.itemsize = rk, rn
        b.writes += 1
        a.self.fields["units"] = a.units

    def ensures(self, it, a, r, old):
        P = it.domain.prefix_table(it)
        b = N.arr_buf(a.self)
        rk, rn = target_dtype(old["kind"], old["itemsize"])
        it.ctx.instantiate(old["elem"])
        return [
            ("same physical quantity after the in-place conversion",
             S.SI(b.elem, a.units, P) == S.SI(old["elem"], old["units"], P)),
            ("array is relabelled with the requested unit", a.self.fields["units"] is a.units),
            ("same memory buffer (in place)", b is old["buf"]),
            ("dtype as for the copying route", z3.And(to_z3(b.kind) == rk, to_z3(b.itemsize) == rn)),
            ("returns None", r is None),
            large_integer_warning(it, old),
        ]

    def on_raise(self, it, a, old, exc):
        b = N.arr_buf(a.self)
        return [("target numbers unchanged on failure",
                 True if b.elem is old["elem"] else to_real(b.elem) == to_real(old["elem"])),
                ("target unit unchanged on failure", a.self.fields["units"] is old["units"])]

    def canary(self, it, a, r, old):
        return to_real(N.arr_buf(a.self).elem) == to_real(old["elem"])

    def replay(self, model, label):
        return route_replay(model, "convert_to_units")



class ToValue(_Route):
    """x.to_value(units): the bare numbers of the quantity expressed in `units` -- an ndarray for
    an array, a Python float for a unyt_quantity (complex data: complex); the input is untouched"""
    name = "unyt.array.unyt_array.to_value"
    xcls = "unyt_array"
    callsite_disabled = True

    def make_self(self, it):
        return N.make_unyt_array(it, "self", cls=self.xcls)

    def requires(self, it, a):
        out = _Route.requires(self, it, a)
        if self.xcls == "unyt_quantity":
            out.append(("a unyt_quantity is 0-d and holds real data (complex quantities take the complex() arm, "
                        "not modelled)", z3.And(to_z3(N.arr_scalar(a.self)), to_z3(N.arr_kind(a.self)) != N.sv("c"))))
        return out

    def ensures(self, it, a, r, old):
        P = it.domain.prefix_table(it)
        it.ctx.instantiate(old["elem"])
        if self.xcls == "unyt_quantity":
            ok = is_z3(r) or isinstance(r, (int, float, Fraction))
            val = to_real(r) if ok else None
            shape = [("a unyt_quantity gives a Python number", ok)]
        else:
            ok = N.is_array(r) and not N.is_unyt_array(r)
            val = to_real(N.arr_elem(r)) if ok else None
            shape = [("an array gives a bare ndarray", ok)]
        if not ok:
            return shape
        return shape + [("the numbers are the quantity's reading in the requested unit",
                         S.SI(val, a.units, P) == S.SI(old["elem"], old["units"], P))] + self.unchanged(a, old)

    def canary(self, it, a, r, old):
        return None


class ToValueQuantity(ToValue):
    tag = "quantity"
    xcls = "unyt_quantity"


class GetBaseEquivalentAtCallSite(Contract):
    """Unit.get_base_equivalent as seen by its callers (its own proof: contracts/registry.py
    GetBaseEquivalent): some unit bound to the registry of the unit being converted -- which unit is the unit
    system's business (bounded driver c10) -- or a refusal"""
    name = "unyt.unit_object.Unit.get_base_equivalent"
    properties = ()
    may_raise = ("UnitsNotReducible", "UnitParseError")

    def formals(self, it):
        return {"self": make_unit(it, "self"), "unit_system": None}

    def result(self, it, a):
        r = make_unit(it, "base_equivalent", registry=a.self.fields["registry"])
        it.assume(z3.Length(S.ustr(r)) >= 1)           # ASSUMED['sympy-str-nonempty']
        it.ctx.events.append(("base-equivalent", a.self, a.get("unit_system"), r))     # ghost: who asked for what
        return r

    def ensures(self, it, a, r, old):
        P = it.domain.prefix_table(it)
        return [("bound to the registry of the unit being converted", r.fields["registry"] is a.self.fields["registry"]),
                ("consistent with its table", S.unit_wf(r, P))]


class InBase(_Route):
    """x.in_base(system) (and in_cgs / in_mks, which forward to it): whatever unit get_base_equivalent names,
    the result is the same physical quantity expressed in it, zero points included (C03: all routes agree;
    C10: preserves the quantity, agrees with get_base_equivalent), in fresh memory with the float dtype of the
    data's item size (C17), the input untouched (C18)"""
    name = "unyt.array.unyt_array.in_base"
    tag = "non-EM"
    properties = ("C03", "C10", "C17", "C18")
    callsite_disabled = True
    may_raise = ("UnitsNotReducible", "UnitParseError", "UnitConversionError")

    def formals(self, it):
        return {"self": self.make_self(it), "unit_system": Opaque("unit_system_designation")}

    def call_args(self, formals):
        return [formals["self"], formals["unit_system"]]

    def track(self, it, a):
        N.track_array(it, "self", a.self)
        track_unit(it, "old", a.self.fields["units"])
        it.ctx.track("old.prefix", S.prefix_of(a.self.fields["units"]))

    def requires(self, it, a):
        P = it.domain.prefix_table(it)
        old = a.self.fields["units"]
        return [("unit consistent with its table", S.unit_wf(old, P)),
                ("unit string non-empty", z3.Length(S.ustr(old)) >= 1)]

    def raises(self, it, a):
        return {}

    def ensures(self, it, a, r, old):
        P = it.domain.prefix_table(it)
        if not N.is_unyt_array(r):
            return [("the result is a unyt object", False)]
        ru = r.fields["units"]
        rk, rn = target_dtype(old["kind"], old["itemsize"])
        it.ctx.instantiate(old["elem"], z3.RealVal(0), z3.RealVal(1))
        out = [
            ("C03/C10: same physical quantity: SI(result, base unit) == SI(input, old unit)",
             S.SI(N.arr_elem(r), ru, P) == S.SI(old["elem"], old["units"], P)),
            ("C10: the result's unit belongs to the input's registry",
             ru.fields["registry"] is old["units"].fields["registry"]),
            ("C18: result owns fresh memory", N.arr_buf(r) is not old["buf"]),
            ("C17: result dtype: float of the same item size (>= 16 bit), complex stays complex",
             z3.And(to_z3(N.arr_kind(r)) == rk, to_z3(N.arr_itemsize(r)) == rn)),
            ("result keeps the class", r.cls.name == a.self.cls.name),
        ] + self.system_forwarded(it, a, old, ru)
        return out + self.unchanged(a, old)

    def system_forwarded(self, it, a, old, ru):
        """C10: 'agrees with get_base_equivalent': the unit of the result is the one get_base_equivalent names
        for the input's unit and the unit system the caller named"""
        evs = [e for e in it.ctx.events if e[0] == "base-equivalent"]
        ok = len(evs) == 1 and evs[0][1] is old["units"] and evs[0][2] is a.unit_system and evs[0][3] is ru
        return [("C10: the result's unit is get_base_equivalent(<the caller's unit system>) of the input's unit", ok)]

    def canary(self, it, a, r, old):
        return to_real(N.arr_elem(r)) == to_real(old["elem"])


class InBaseQuantity(InBase):
    tag = "non-EM,quantity"

    def make_self(self, it):
        q = N.make_unyt_array(it, "self", cls="unyt_quantity")
        it.assume(to_z3(N.arr_scalar(q)))
        return q


class ConvertToBase(InBase):
    """x.convert_to_base(system) (and convert_to_cgs / convert_to_mks): the in-place twin of in_base -- the same
    numbers, unit and dtype as the copying route, in the caller's memory; a refused call leaves numbers and
    unit as they were (C03 route agreement, C10, C18)"""
    name = "unyt.array.unyt_array.convert_to_base"
    tag = "non-EM"
    may_raise = ("UnitsNotReducible", "UnitParseError", "UnitConversionError", "ValueError", "TypeError")

    def formals(self, it):
        return {"self": self.make_self(it), "unit_system": Opaque("unit_system_designation"), "equivalence": None}

    def ensures(self, it, a, r, old):
        P = it.domain.prefix_table(it)
        b = N.arr_buf(a.self)
        ru = a.self.fields["units"]
        rk, rn = target_dtype(old["kind"], old["itemsize"])
        it.ctx.instantiate(old["elem"], z3.RealVal(0), z3.RealVal(1))
        return [("C03/C10: same physical quantity after the in-place conversion",
                 S.SI(b.elem, ru, P) == S.SI(old["elem"], old["units"], P)),
                ("C10: the new unit belongs to the array's registry",
                 ru.fields["registry"] is old["units"].fields["registry"]),
                ("C18: same memory buffer (in place)", b is old["buf"]),
                ("C17: dtype as for the copying route", z3.And(to_z3(b.kind) == rk, to_z3(b.itemsize) == rn)),
                ("returns None", r is None)] + self.system_forwarded(it, a, old, ru)

    def on_raise(self, it, a, old, exc):
        b = N.arr_buf(a.self)
        return [("C18: target numbers unchanged on failure",
                 True if b.elem is old["elem"] else to_real(b.elem) == to_real(old["elem"])),
                ("C18: target unit unchanged on failure", a.self.fields["units"] is old["units"])]

    def canary(self, it, a, r, old):
        return to_real(N.arr_buf(a.self).elem) == to_real(old["elem"])
