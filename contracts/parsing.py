"""Exception envelope of the unit-string interface (C20.P1): for ANY string, constructing a
unit either succeeds or raises UnitParseError -- proved for parse_unyt_expr, for the structural
walk _get_unit_data_from_expr and for the string path of Unit.__new__, with sympy's parser
abstract (it may raise anything / return anything)."""
import z3

from pyvc.contracts import Contract
from pyvc.core import to_real, to_z3, is_z3, Unsupported, SObj, ClassRef, Opaque
from pyvc.unyt_domain import (SExpr, SDim, SLut, make_unit, make_registry, cls_of, e_kind, K_NUM, K_SYM,
                              K_POW, K_MUL, K_OTHER)
from . import spec as S


class ParseUnytExpr(Contract):
    name = "unyt._parsing.parse_unyt_expr"
    properties = ("C20",)
    may_raise = ("UnitParseError",)

    def formals(self, it):
        return {"unit_expr": it.fresh_str("unit_string")}

    def track(self, it, a):
        it.ctx.track("unit_string", a.unit_expr)

    def result(self, it, a):
        if it.branch(it.fresh_bool("parsed_is_expr")):
            e = SExpr.fresh(it, "parsed")
            from pyvc.unyt_domain import expr_str
            it.assume(z3.Length(expr_str(e.term)) >= 1)      # ASSUMED['sympy-str-nonempty']
            # ghost: which expression this string was read as
            it.__dict__.setdefault("parsed_exprs", []).append((a.unit_expr, e))
            return e
        return Opaque("parsed_non_expr")

    def ensures(self, it, a, r, old):
        return [("C20: returns whatever the parser produced (an expression or not); only UnitParseError escapes",
                 True)]

    def canary(self, it, a, r, old):
        return z3.BoolVal(False)


class UnitDataEnvelope(Contract):
    """body of _get_unit_data_from_expr for an arbitrary sympy expression of each structural kind:
    only UnitParseError escapes (recursive calls through the function's own contract)"""
    name = "unyt.unit_object._get_unit_data_from_expr"
    tag = "envelope"
    properties = ("C20", "C02")
    may_raise = ("UnitParseError",)

    only_kind = None                 # a structural kind: the walk must still evaluate such expressions

    def formals(self, it):
        e = SExpr.fresh(it, "e")
        # the expression is a Number, Symbol, Pow, Mul or something else (exactly one kind)
        k = e_kind(e.term)
        it.assume(z3.And(k >= 0, k <= 4))
        if self.only_kind is not None:
            it.assume(k == self.only_kind)
        return {"unit_expr": e, "unit_symbol_lut": SLut.fresh(it, "lut")}

    def requires(self, it, a):
        from pyvc.unyt_domain import expr_str
        # sympy Symbols produced by the parser have non-empty names unless spelled Symbol('');
        # the empty name is handled by _split_prefix itself (no precondition here)
        return []

    def ensures(self, it, a, r, old):
        from pyvc.unyt_domain import e_numval, rpow, E_ONE
        out = [("C20: the result is a (scale, dimension) pair or a table row",
                isinstance(r, tuple) and len(r) in (2, 5))]
        if not (isinstance(r, tuple) and len(r) == 2):
            return out
        e = a.unit_expr
        k = e_kind(e.term)
        walked = it.__dict__.get("unit_data_results", [])
        subs = [res for (x, res) in walked]
        args_ = getattr(e, "_args", None)
        if walked and args_ is not None:
            # the sub-expressions evaluated are the expression's own children, in order
            # (Pow: the base, never the exponent)
            out.append(("C02: the walk evaluates the expression's own factors (Pow: the base)",
                        all(x is args_[i] for i, (x, res) in enumerate(walked) if i < len(args_))))
        sc, dim = to_real(r[0]), r[1]

        def sub_scale(i):
            return to_real(subs[i][0])

        def sub_dim(i):
            d = subs[i][1]
            return d if isinstance(d, SDim) else None

        # C02.P2: a compound expression denotes the product of its factors' powers -- stated
        # structurally: each branch combines what the walk returned for the sub-expressions
        if len(subs) == 0:
            out.append(("C02: a numeric factor is its own scale and has no dimension",
                        z3.Implies(k == K_NUM, z3.And(z3.Or(e.term == E_ONE, sc == e_numval(e.term)),
                                                      to_z3(_dim_is_one(dim))))))
        elif len(subs) == 1:
            p = e_numval(getattr(e, "_args")[1].term)
            d0 = sub_dim(0)
            out.append(("C02: Pow: scale == (scale of the base) ** exponent (positive base scale; the one "
                        "negatively scaled unit, lat, is left to the bounded driver)",
                        z3.Implies(z3.And(k == K_POW, sub_scale(0) > 0), sc == rpow(sub_scale(0), p))))
            if d0 is not None and isinstance(dim, SDim):
                out.append(("C02: Pow: dimension == (dimension of the base) ** exponent",
                            z3.Implies(k == K_POW, z3.And(*[to_real(x) == to_real(y) * p
                                                            for x, y in zip(dim.vec, d0.vec)]))))
        elif len(subs) == 2:
            d0, d1 = sub_dim(0), sub_dim(1)
            out.append(("C02: Mul: scale == product of the factors' scales",
                        z3.Implies(k == K_MUL, sc == sub_scale(0) * sub_scale(1))))
            out.append(("C02: Mul: the dimension returned is a dimension expression",
                        z3.Implies(k == K_MUL, z3.BoolVal(isinstance(dim, SDim)))))
            if d0 is not None and d1 is not None and isinstance(dim, SDim):
                out.append(("C02: Mul: dimension == product of the factors' dimensions",
                            z3.Implies(k == K_MUL, z3.And(*[to_real(x) == to_real(y) + to_real(z_)
                                                            for x, y, z_ in zip(dim.vec, d0.vec, d1.vec)]))))
        return out

    def canary(self, it, a, r, old):
        return z3.BoolVal(False)


def _dim_is_one(d):
    if isinstance(d, SDim):
        e = d.is_one()
        return e if not isinstance(e, bool) else z3.BoolVal(e)
    return z3.BoolVal(False)


class UnitDataNumber(UnitDataEnvelope):
    """cover: numeric factors are evaluated (a walk that refuses every Number would satisfy the
    envelope vacuously); likewise for Symbols, powers and products below"""
    tag = "number"
    only_kind = K_NUM
    may_raise = ()

    def raises(self, it, a):
        # a numeric factor is refused exactly when it is not finite (nan, oo, zoo)
        from pyvc.unyt_domain import E_ONE
        return {"UnitParseError": z3.And(a.unit_expr.term != E_ONE,
                                         z3.Not(to_z3(a.unit_expr.sv_getattr(it, "is_finite"))))}


class UnitDataSymbol(UnitDataEnvelope):
    tag = "symbol"
    only_kind = K_SYM


class UnitDataPow(UnitDataEnvelope):
    tag = "pow"
    only_kind = K_POW


class UnitDataMul(UnitDataEnvelope):
    tag = "mul"
    only_kind = K_MUL


class UnitDataOther(UnitDataEnvelope):
    """anything else (Add, functions, relational, ...) is refused"""
    tag = "other"
    only_kind = K_OTHER
    expect_return = False

    def ensures(self, it, a, r, old):
        return [("C20: an expression that is not a Number, Symbol, Pow or Mul is refused", False)]


class UnitNewFromString(Contract):
    """Unit(<any string>, registry=...): succeeds with a Unit bound to the registry or raises
    UnitParseError -- nothing else escapes"""
    name = "unyt.unit_object.Unit.__new__"
    tag = "string"
    properties = ("C20", "C12")
    may_raise = ("UnitParseError",)

    def formals(self, it):
        reg = make_registry(it, "registry")
        reg.fields["_unit_object_cache"].reader = lambda it_, key: make_unit(it_, "cached", registry=reg)
        self._reg = reg
        return {"cls": ClassRef(cls_of(it, "Unit")), "unit_expr": it.fresh_str("unit_string"),
                "base_value": None, "base_offset": 0, "dimensions": None, "registry": reg}

    def track(self, it, a):
        it.ctx.track("unit_string", a.unit_expr)

    def call_args(self, formals):
        return [formals["cls"], formals["unit_expr"]]

    def call_kwargs(self, formals):
        return {"registry": formals["registry"]}

    def ensures(self, it, a, r, old):
        ok = isinstance(r, SObj) and r.cls.name == "Unit"
        return [("C20: a successful construction returns a Unit", ok),
                ("C20: bound to the registry it was built against",
                 ok and r.fields["registry"] is a.registry)]

    def canary(self, it, a, r, old):
        return z3.BoolVal(False)


ALL = ["ParseUnytExpr", "UnitDataEnvelope", "UnitDataNumber", "UnitDataSymbol", "UnitDataPow", "UnitDataMul",
       "UnitDataOther", "UnitNewFromString"]
