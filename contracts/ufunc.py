"""Contracts on unyt_array.__array_ufunc__, specialised per ufunc class and operand
configuration (C01 refusal of incommensurable operands, C04 SI-homomorphism, C08 temperature
semantics, C16 result class, C17 dtypes, C18 frames).

One real function, many tagged contract objects: the ufunc, the method and the operand
kinds are fixed per object (so the dispatcher's table lookups are concrete), everything else
-- units (scale, offset, dimension vector, printed form, registry), readings, dtypes, shapes
-- is symbolic.  Operand kinds:  q = unyt_array/unyt_quantity,  s = bare python float,
z = the python number 0,  n = bare ndarray.
"""
from fractions import Fraction

import z3

from pyvc.contracts import Contract
from pyvc.core import to_real, to_z3, is_z3, Unsupported, SObj, ExternalRef, ClassRef
from pyvc.unyt_domain import make_unit, make_registry, track_unit, _b, REF_BASE, REF_ONE, SDim
from pyvc import np_domain as N
from . import spec as S
from .unit_ops import UnitEq, is_ref

ADDITIVE = ("add", "subtract")
HOMOG = ("maximum", "minimum", "fmax", "fmin", "hypot", "remainder", "mod", "fmod")
COMPARE = ("less", "less_equal", "greater", "greater_equal", "equal", "not_equal")
MULT = ("multiply", "divide", "true_divide")
UNARY_PASS = ("negative", "absolute", "fabs", "positive", "conj")
UNARY_POW = {"sqrt": Fraction(1, 2), "square": 2, "reciprocal": -1, "cbrt": Fraction(1, 3)}

UFN_EXC = ("UnitOperationError", "InvalidUnitOperation", "UnitConversionError")


def snapshot_array(a):
    b = N.arr_buf(a)
    d = {"elem": b.elem, "kind": b.kind, "itemsize": b.itemsize, "buf": b, "writes": b.writes}
    if N.is_unyt_array(a):
        d["units"] = a.fields["units"]
    return d


def unchanged(label, a, old):
    b = N.arr_buf(a)
    out = [("%s: numbers unchanged" % label,
            True if b.elem is old["elem"] else to_real(b.elem) == to_real(old["elem"])),
           ("%s: buffer not written, dtype unchanged" % label,
            b is old["buf"] and b.writes == old["writes"] and b.kind is old["kind"]
            and b.itemsize is old["itemsize"])]
    if "units" in old:
        out.append(("%s: unit unchanged" % label, a.fields["units"] is old["units"]))
    return out


def target_unchanged(label, a, old):
    """C18 for a refused in-place call: numbers and unit of the target as before (its dtype may
    have been promoted from integer to the float of the same width: not part of the statement)"""
    b = N.arr_buf(a)
    out = [("C01/C18: %s: numbers unchanged by the refused call" % label,
            True if b.elem is old["elem"] else to_real(b.elem) == to_real(old["elem"]))]
    if "units" in old:
        out.append(("C01/C18: %s: unit unchanged by the refused call" % label, a.fields["units"] is old["units"]))
    return out


class _Ufunc(Contract):
    name = "unyt.array.unyt_array.__array_ufunc__"
    properties = ("C01", "C04", "C08", "C09", "C16", "C17", "C18")
    ufunc = None
    method = "__call__"
    config = ("q", "q")
    plain = True                     # operands' units have zero offset
    may_raise = ()
    max_paths = 3000
    callsite_disabled = True
    need_str = True                  # the proof uses that str(unit) is not empty
    also = ()                        # further properties whose proofs rest on this contract's value law
    out = None                       # None | "o" (a separate unyt array) | "i0" / "i1" (aliases an operand)

    # ---------------------------------------------------------------- operands
    def make_operand(self, it, kind, label):
        if kind == "q":
            return N.make_unyt_array(it, label)
        if kind == "Q":
            return N.make_unyt_array(it, label, cls="unyt_quantity")
        if kind == "s":
            return it.fresh_real(label + "_scalar")
        if kind == "z":
            return 0
        if kind == "n":
            return N.make_ndarray(it, label)
        raise ValueError(kind)

    def formals(self, it):
        ops = []
        for n, k in enumerate(self.config):
            # "e": the very object passed as the first operand (np.multiply(x, x))
            ops.append(ops[0] if k == "e" else self.make_operand(it, k, "i%d" % n))
        self_ = next(o for o in ops if N.is_unyt_array(o))
        f = {"self": self_, "ufunc": ExternalRef("numpy." + self.ufunc), "method": self.method,
             "inputs": tuple(ops), "target": None}
        if self.out == "o":
            f["target"] = N.make_unyt_array(it, "out")
        elif self.out in ("v0", "v1"):
            # another unyt object (array or quantity) viewing the memory of operand n
            cname = "unyt_quantity" if it.branch(it.fresh_bool("out_is_quantity")) else "unyt_array"
            f["target"] = N.make_unyt_array(it, "out", cls=cname, buf=N.arr_buf(ops[int(self.out[1])]))
        elif self.out in ("i0", "i1"):
            f["target"] = ops[int(self.out[1])]
        return f

    def call_args(self, formals):
        return [formals["self"], formals["ufunc"], formals["method"]] + list(formals["inputs"])

    def call_kwargs(self, formals):
        if formals["target"] is not None:
            return {"out": (formals["target"],)}      # NumPy hands out= over as a tuple
        return {}

    def law_tag(self):
        """the value law of an out= form is also C18's "exactly the numbers of the copying call" """
        return ("C04/C18" if self.out else "C04") + "".join("/" + p for p in self.also)

    def target_index(self):
        return int(self.out[1]) if self.out in ("i0", "i1") else None

    def out_post(self, it, a, r):
        """C18: a successful out= call changes only its target, which then holds exactly the
        numbers and the unit of the returned object (= those of the copying call, stated by
        the value law over the entry values)"""
        t = a.target
        if t is None:
            if not N.is_unyt_array(r):
                return []
            sc = to_z3(N.arr_scalar(r))
            all0d = z3.And(*[to_z3(N.arr_scalar(o)) if N.is_array(o) else z3.BoolVal(True) for o in a.inputs])
            return [("C16: a freshly allocated result that is not 0-d is not a unyt_quantity",
                     z3.Implies(z3.Not(sc), z3.BoolVal(r.cls.name != "unyt_quantity"))),
                    ("NumPy broadcasting: the result is 0-d exactly when every operand is", sc == all0d)]
        if not N.is_unyt_array(r):
            return [("out=: the target receives the result", N.is_array(r) and N.arr_buf(r) is N.arr_buf(t))]
        post = [("out=: the returned object is backed by the target's memory", N.arr_buf(r) is N.arr_buf(t)),
                ("out=: the target is relabelled with the result's unit",
                 t.fields["units"] is r.fields["units"])]
        ts = self.target_snapshot(a)
        if ts is not None:
            b = N.arr_buf(t)
            was_float = z3.Or(to_z3(ts["kind"]) == N.sv("f"), to_z3(ts["kind"]) == N.sv("c"))
            post.append(("out=: a floating-point or complex target keeps its dtype (only integer targets are "
                         "re-typed)", z3.Implies(was_float, z3.And(to_z3(b.kind) == to_z3(ts["kind"]),
                                                                   to_z3(b.itemsize) == to_z3(ts["itemsize"])))))
        return post

    def target_snapshot(self, a):
        """entry snapshot of the out= target (kept by snapshot())"""
        snaps = getattr(self, "_snaps", None)
        if snaps is None or a.target is None:
            return None
        ti = self.target_index()
        if ti is not None:
            return snaps[ti]
        if self.out in ("o", "v0", "v1"):
            return snaps[-1]
        return None

    def track(self, it, a):
        for n, o in enumerate(a.inputs):
            if N.is_array(o):
                N.track_array(it, "i%d" % n, o)
            elif is_z3(o):
                it.ctx.track("i%d" % n, o)
            if N.is_unyt_array(o):
                track_unit(it, "u%d" % n, o.fields["units"])
                it.ctx.track("u%d.prefix" % n, S.prefix_of(o.fields["units"]))

    def units(self, a):
        """units of the operands *at entry* (an out= target that aliases an operand is
        relabelled by the call)"""
        eu = getattr(self, "_entry_units", None)
        if eu is not None and eu[0] is a.inputs:
            return eu[1]
        return [o.fields["units"] if N.is_unyt_array(o) else None for o in a.inputs]

    def requires(self, it, a):
        P = it.domain.prefix_table(it)
        out = []
        for n, u in enumerate(self.units(a)):
            if u is None:
                continue
            if self.need_str:
                out.append(("u%d consistent with its table, non-empty string" % n,
                            z3.And(S.unit_wf(u, P), z3.Length(S.ustr(u)) >= 1)))
            else:
                out.append(("u%d consistent with its table" % n, S.unit_wf(u, P)))
            if self.plain:
                out.append(("u%d has no zero-point offset" % n, S.offset(u) == 0))
        for n, o in enumerate(a.inputs):
            if isinstance(o, N.SNd):
                c = N.count_nonzero_term(o)
                out.append(("NumPy: count_nonzero(i%d) == 0 means every element is 0" % n,
                            z3.And(c >= 0, z3.Implies(c == 0, to_real(N.arr_elem(o)) == 0))))
        return out

    def snapshot(self, it, a):
        self._entry_units = (a.inputs, [o.fields["units"] if N.is_unyt_array(o) else None
                                        for o in a.inputs])
        snaps = [snapshot_array(o) if N.is_array(o) else None for o in a.inputs]
        if self.out in ("o", "v0", "v1"):
            snaps.append(snapshot_array(a.target))
        self._snaps = snaps
        return snaps

    def frames(self, a, old, raising=False):
        out = []
        ti = self.target_index()
        for n, (o, s) in enumerate(zip(a.inputs, old)):
            if s is None:
                continue
            aliased = n == ti or o is a.target or (
                a.target is not None and N.is_array(o) and N.arr_buf(o) is N.arr_buf(a.target))
            if aliased and not raising:
                continue                      # the in-place target (or memory shared with it)
            if aliased:
                out += target_unchanged("the out= target (operand %d)" % n, o, s)
            else:
                out += unchanged("operand %d" % n, o, s)
        if self.out in ("o", "v0", "v1") and raising:
            out += target_unchanged("the out= target", a.target, old[-1])
        return out

    def on_raise(self, it, a, old, exc):
        return self.frames(a, old, raising=True)

    # ---------------------------------------------------------------- shared pieces
    def si(self, it, a, n, old):
        """SI magnitude of operand n at entry (bare operands are dimensionless numbers)"""
        P = it.domain.prefix_table(it)
        o = a.inputs[n]
        if N.is_unyt_array(o):
            return S.SI(old[n]["elem"], old[n]["units"], P)
        if N.is_array(o):
            return to_real(old[n]["elem"])
        return to_real(o)

    def dim(self, a, n):
        u = self.units(a)[n]
        if u is not None:
            return S.dim(u)
        return SDim.one()

    kind = None

    def replay(self, model, label):
        from .replaylib import ufunc_script
        if self.kind is None:
            return None
        return ufunc_script(model, self.ufunc, self.config, self.kind, getattr(self, "sign", 1),
                            getattr(self, "names", None), self.method)

    def class_post(self, it, r):
        """C16: shape () <=> unyt_quantity; more than one element => never a quantity"""
        if not N.is_unyt_array(r):
            return []
        isq = r.cls.name == "unyt_quantity"
        sc, sz = to_z3(N.arr_scalar(r)), to_z3(N.arr_size(r))
        return [("a result of shape () is a unyt_quantity", z3.Implies(sc, z3.BoolVal(isq))),
                ("a result with more than one element is not a unyt_quantity",
                 z3.Implies(sz > 1, z3.BoolVal(not isq)))]


def complex_kept(it):
    """C17 'complex data stay complex': on this path no array was cast from a complex to a real dtype (NumPy
    drops the imaginary parts with a ComplexWarning); ghost events of the cast model"""
    drops = [e[3] for e in it.ctx.events if e[0] == "cast"]
    return ("C17: complex data stay complex: nothing is cast from a complex to a real dtype on the way",
            z3.Not(z3.Or(*drops)) if drops else True)


class _A:
    pass


def units_equal(it, u0, u1):
    """Unit.__eq__ as a formula (contract of Unit.__eq__)"""
    a = _A()
    a.self, a.u = u0, u1
    return UnitEq().spec(it, a)


def bare_zero(it, a, n):
    """operand n is a bare (unit-less) operand made of zeros only"""
    o = a.inputs[n]
    if N.is_unyt_array(o):
        return z3.BoolVal(False)
    if N.is_array(o):
        return N.count_nonzero_term(o) == 0
    return to_real(o) == 0


class _Commensurable(_Ufunc):
    """ufuncs whose unit rule demands operands of one dimension (add, subtract, maximum, ...,
    comparisons): shared refusal conditions"""

    def incommensurable(self, it, a):
        """the operands have different dimensions and none of the documented exceptions applies"""
        d0, d1 = self.dim(a, 0), self.dim(a, 1)
        return z3.And(z3.Not(S.dim_eq(d0, d1)), z3.Not(bare_zero(it, a, 0)),
                      z3.Not(bare_zero(it, a, 1)))

    def eff_units(self, it, a):
        """units of the two operands; a bare operand counts as the dimensionless unit"""
        return [u if u is not None else it.domain.null_unit(it) for u in self.units(a)]

    def rescaled(self, it, a):
        """the second operand has to be converted (units differ under Unit.__eq__)"""
        u0, u1 = self.eff_units(it, a)
        return z3.Not(units_equal(it, u0, u1))

    def exact_case(self, it, a):
        """either the operands were rescaled, or their scales are exactly equal (units that
        compare equal within math.isclose's 1e-9 are identified by the library)"""
        u0, u1 = self.eff_units(it, a)
        return z3.Or(self.rescaled(it, a), S.scale(u0) == S.scale(u1))

    def raises(self, it, a):
        # C01 asks for a refusal, not for a particular exception class: the dispatcher's own
        # check raises UnitOperationError, the conversion-factor lookup UnitConversionError
        d = {"UnitOperationError": self.incommensurable(it, a),
             "UnitConversionError": self.incommensurable(it, a)}
        o1 = a.inputs[1]
        if N.is_array(o1):
            # C17: the second operand is cast to the float of its item size before rescaling;
            # 1-byte data has no such float type and the call refuses (TypeError)
            d["TypeError"] = z3.And(z3.Not(self.incommensurable(it, a)), self.rescaled(it, a),
                                    to_z3(N.arr_itemsize(o1)) == 1)
        return d

    def left_label(self, it, a):
        """(scale, dimension) of the unit the statement asks for: the left-most operand's unit,
        a bare operand counting as dimensionless -- except that an all-zero bare operand
        adopts the other operand's unit"""
        u0, u1 = self.eff_units(it, a)
        z0 = bare_zero(it, a, 0)
        return z3.If(z0, S.scale(u1), S.scale(u0)), [
            z3.If(z0, to_real(y), to_real(x)) for x, y in zip(S.dim(u0).vec, S.dim(u1).vec)]

    def label_post(self, it, a, ru):
        from pyvc.unyt_domain import _math_isclose
        sc, dv = self.left_label(it, a)
        return ("C04: the result is labelled with the left-most operand's unit (units equal under "
                "Unit.__eq__ are identified)",
                z3.And(to_z3(_math_isclose(it, S.scale(ru), sc)), S.offset(ru) == 0,
                       *[to_real(x) == y for x, y in zip(S.dim(ru).vec, dv)]))

    def instantiate(self, it, a, old):
        for o, s in zip(a.inputs, old):
            if s is not None:
                it.ctx.instantiate(s["elem"])
            elif is_z3(o):
                it.ctx.instantiate(o)
            else:
                it.ctx.instantiate(to_real(o))


class _Additive(_Commensurable):
    """add / subtract on operands whose units have no zero-point offset"""
    sign = 1
    kind = "additive"

    def requires(self, it, a):
        out = _Commensurable.requires(self, it, a)
        if self.ufunc == "subtract":
            # temperature differences are the business of the C08 contracts below
            for u in self.units(a):
                if u is not None:
                    out.append(("operand is not a temperature",
                                z3.Not(_b(S.dim(u).is_base("temperature")))))
        return out

    def ensures(self, it, a, r, old):
        P = it.domain.prefix_table(it)
        self.instantiate(it, a, old)
        si0, si1 = self.si(it, a, 0, old), self.si(it, a, 1, old)
        if not N.is_unyt_array(r):
            return [("result is a unyt object", False)]
        ru = r.fields["units"]
        # a bare all-zero operand adopts the other operand's unit: it contributes 0
        z0, z1 = bare_zero(it, a, 0), bare_zero(it, a, 1)
        si0 = z3.If(z0, z3.RealVal(0), si0)
        si1 = z3.If(z1, z3.RealVal(0), si1)
        law = S.SI(N.arr_elem(r), ru, P) == si0 + self.sign * si1
        out = [(self.law_tag() + ": SI(result) == SI(a) %s SI(b)" % ("+" if self.sign == 1 else "-"),
                z3.Implies(self.exact_case(it, a), law)),
               self.label_post(it, a, ru),
               ("C17: the result of a rescaling operation is floating point or complex",
                z3.Implies(self.rescaled(it, a), z3.Not(N.is_int_kind(N.arr_kind(r))))),
               complex_kept(it)]
        return out + self.frames(a, old) + self.class_post(it, r) + self.out_post(it, a, r)

    def canary(self, it, a, r, old):
        if not N.is_unyt_array(r):
            return None
        return to_real(N.arr_elem(r)) == 12345


class _Homogeneous(_Commensurable):
    """maximum/minimum/fmax/fmin/hypot/remainder/mod/fmod: positively homogeneous of degree 1"""
    kind = "homog"

    def ensures(self, it, a, r, old):
        P = it.domain.prefix_table(it)
        self.instantiate(it, a, old)
        si0, si1 = self.si(it, a, 0, old), self.si(it, a, 1, old)
        if not N.is_unyt_array(r):
            return [("result is a unyt object", False)]
        ru = r.fields["units"]
        fn = N.BINARY_UFUNCS[self.ufunc]
        # assumed NumPy algebra (numpy-ufunc-homogeneity), instantiated at the label's scale
        if self.ufunc in ("hypot", "remainder", "mod", "fmod"):
            k = S.scale(ru)
            x0 = si0 / k
            x1 = si1 / k
            it.assume(N.homogeneity_fact(self.ufunc, k, x0, x1))
        z0, z1 = bare_zero(it, a, 0), bare_zero(it, a, 1)
        law = S.SI(N.arr_elem(r), ru, P) == fn(si0, si1)
        out = [(self.law_tag() + ": SI(result) == %s(SI(a), SI(b))" % self.ufunc,
                z3.Implies(z3.And(self.exact_case(it, a), z3.Not(z0), z3.Not(z1)), law)),
               self.label_post(it, a, ru), complex_kept(it)]
        return out + self.frames(a, old) + self.class_post(it, r) + self.out_post(it, a, r)

    def canary(self, it, a, r, old):
        if not N.is_unyt_array(r) or old[0] is None:
            return None
        return to_real(N.arr_elem(r)) == to_real(old[0]["elem"]) + 1


class _Comparison(_Commensurable):
    """the six comparisons: verdict == comparison of SI magnitudes"""
    kind = "compare"

    def either_dimensionless(self, a):
        return z3.Or(_b(self.dim(a, 0).is_one()), _b(self.dim(a, 1).is_one()))

    def incommensurable(self, it, a):
        base = _Commensurable.incommensurable(self, it, a)
        # documented: ordering comparisons accept a dimensionless operand; == / != never raise
        if self.ufunc in ("equal", "not_equal"):
            return z3.BoolVal(False)
        return z3.And(base, z3.Not(self.either_dimensionless(a)))

    def raises(self, it, a):
        d = _Commensurable.raises(self, it, a)
        if "TypeError" in d:
            mismatch = _Commensurable.incommensurable(self, it, a)
            # a dimensionless operand adopts the other's unit (conversion factor 1, still cast)
            goes_on = z3.Or(z3.Not(mismatch), self.either_dimensionless(a))
            d["TypeError"] = z3.And(goes_on, self.rescaled(it, a),
                                    to_z3(N.arr_itemsize(a.inputs[1])) == 1)
        return d

    def ensures(self, it, a, r, old):
        self.instantiate(it, a, old)
        si0, si1 = self.si(it, a, 0, old), self.si(it, a, 1, old)
        fn = N.BINARY_UFUNCS[self.ufunc]
        out = [("comparison results carry no units", not N.is_unyt_array(r))]
        if isinstance(r, bool):
            elem = z3.RealVal(1 if r else 0)
        elif is_z3(r) and z3.is_bool(r):
            elem = z3.If(r, z3.RealVal(1), z3.RealVal(0))
        elif N.is_array(r):
            elem = to_real(N.arr_elem(r))
        else:
            return out + [("comparison returns an array or a bool", False)]
        same_dim = S.dim_eq(self.dim(a, 0), self.dim(a, 1))
        z0, z1 = bare_zero(it, a, 0), bare_zero(it, a, 1)
        out.append(("C04: the verdict is the comparison of the SI magnitudes",
                    z3.Implies(z3.And(same_dim, self.exact_case(it, a), z3.Not(z0), z3.Not(z1)),
                               elem == fn(si0, si1))))
        if self.ufunc in ("equal", "not_equal"):
            mismatch = z3.And(_Commensurable.incommensurable(self, it, a),
                              z3.Not(self.either_dimensionless(a)))
            out.append(("C01: == answers all-False and != all-True for different dimensions",
                        z3.Implies(mismatch, elem == (0 if self.ufunc == "equal" else 1))))
        return out + [complex_kept(it)] + self.frames(a, old) + self.out_post(it, a, r)

    def canary(self, it, a, r, old):
        if N.is_array(r):
            return to_real(N.arr_elem(r)) == 1
        return None




class _Multiplicative(_Ufunc):
    """multiply / divide / true_divide: SI(result) == SI(a) (*|/) SI(b), dimension by
    dimensional analysis -- proved through the coefficient bookkeeping of the unit rule"""
    kind = "mult"
    need_str = False

    def eff_units(self, it, a):
        return [u if u is not None else it.domain.null_unit(it) for u in self.units(a)]

    def raises(self, it, a):
        from .unit_ops import dimless
        u0, u1 = self.eff_units(it, a)
        log_guard = z3.Or(z3.And(is_ref(S.dim(u0), "logarithmic"), z3.Not(dimless(u1))),
                          z3.And(is_ref(S.dim(u1), "logarithmic"), z3.Not(dimless(u0))))
        return {"InvalidUnitOperation": log_guard}

    def ensures(self, it, a, r, old):
        P = it.domain.prefix_table(it)
        if not N.is_unyt_array(r):
            return [("result is a unyt object", False)]
        ru = r.fields["units"]
        si0, si1 = self.si(it, a, 0, old), self.si(it, a, 1, old)
        sign = 1 if self.ufunc == "multiply" else -1
        want = si0 * si1 if sign == 1 else si0 / si1
        e1 = to_real(old[1]["elem"]) if old[1] is not None else to_real(a.inputs[1])
        guard = z3.BoolVal(True) if sign == 1 else e1 != 0
        d0, d1 = self.dim(a, 0), self.dim(a, 1)
        out = [(self.law_tag() + ": SI(result) == SI(a) %s SI(b)" % ("*" if sign == 1 else "/"),
                z3.Implies(guard, S.SI(N.arr_elem(r), ru, P) == want)),
               ("C04: dimension of the result by dimensional analysis",
                z3.And(*[to_real(x) == to_real(p) + sign * to_real(q)
                         for x, p, q in zip(S.dim(ru).vec, d0.vec, d1.vec)])),
               ("result unit has no zero-point offset", S.offset(ru) == 0),
               ("result unit is consistent with its table (positive scale)", S.unit_wf(ru, P))]
        return out + self.frames(a, old) + self.class_post(it, r) + self.out_post(it, a, r)

    def canary(self, it, a, r, old):
        if not N.is_unyt_array(r) or old[0] is None:
            return None
        return to_real(N.arr_elem(r)) == to_real(old[0]["elem"])


# the library's temperature units (C08's quantifier): name -> (has a zero point, degree size
# fixed by the table or None).  Ground obligation C08.G checks these facts against the table.
TEMPERATURE_NAMES = {
    "K": (False, None), "R": (False, None), "degC": (True, Fraction(1)), "degF": (True, Fraction(5, 9)),
    "delta_degC": (False, Fraction(1)), "delta_degF": (False, Fraction(5, 9)),
    "mK": (False, None), "mdegC": (True, None),
}


class _Temperature(_Ufunc):
    """C08: add / subtract on two temperature quantities, one contract object per ordered pair
    of the library's temperature unit names (so every string test of the dispatcher is decided),
    with arbitrary readings, degree sizes and zero points.  Whenever a value is returned it is
    the one affine (point/difference) arithmetic gives, in the degree size of the unit the result
    is labelled with; two different offset scales are refused."""
    plain = False
    sign = 1
    kind = "temperature"
    names = ("K", "K")
    # C08 allows a refusal wherever it does not demand a value; RuntimeError is the
    # "supposed to be unreachable" branch of _difference_units (reached by prefixed point scales)
    may_raise = ("UnitOperationError", "InvalidUnitOperation", "UnitConversionError", "TypeError",
                 "RuntimeError")
    properties = ("C08",)

    def formals(self, it):
        from pyvc.unyt_domain import name_expr
        f = _Ufunc.formals(self, it)
        for o, n in zip(f["inputs"], self.names):
            name_expr(it, o.fields["units"].fields["expr"], n)
        return f

    def requires(self, it, a):
        out = _Ufunc.requires(self, it, a)
        for u, n in zip(self.units(a), self.names):
            point, deg = TEMPERATURE_NAMES[n]
            out.append(("%s is a temperature" % n, _b(S.dim(u).is_base("temperature"))))
            out.append(("%s %s a zero point (table fact)" % (n, "has" if point else "has no"),
                        S.offset(u) != 0 if point else S.offset(u) == 0))
            if deg is not None:
                out.append(("%s has the table's degree size" % n, S.scale(u) == z3.RealVal(str(deg))))
        return out

    def ensures(self, it, a, r, old):
        P = it.domain.prefix_table(it)
        u0, u1 = self.units(a)
        for s_ in old:
            it.ctx.instantiate(s_["elem"], z3.RealVal(0), z3.RealVal(1))
        if not N.is_unyt_array(r):
            return [("result is a unyt object", False)]
        L = r.fields["units"]
        res = to_real(N.arr_elem(r))
        e0, e1 = to_real(old[0]["elem"]), to_real(old[1]["elem"])
        p0, p1 = TEMPERATURE_NAMES[self.names[0]][0], TEMPERATURE_NAMES[self.names[1]][0]
        K0, K1 = S.SI(e0, u0, P), S.SI(e1, u1, P)              # kelvin readings of points
        D0, D1 = e0 * S.scale(u0), e1 * S.scale(u1)            # differences, in kelvin
        KL = S.SI(res, L, P)
        DL = res * S.scale(L)
        L_point = S.offset(L) != 0
        # units that compare equal under Unit.__eq__ (isclose on scale and zero point) are
        # identified by the library: the exact law is claimed when they were rescaled or agree exactly
        exact = z3.Or(z3.Not(units_equal(it, u0, u1)),
                      z3.And(S.scale(u0) == S.scale(u1),
                             S.eff_offset(u0, P) == S.eff_offset(u1, P)))
        out = [("the result is a temperature", _b(S.dim(L).is_base("temperature")))]
        if self.sign == 1:
            if p0 and not p1:
                out.append(("point + difference: affine value, labelled with a point scale",
                            z3.Implies(exact, z3.And(L_point, KL == K0 + D1))))
            elif p1 and not p0:
                out.append(("difference + point: affine value, labelled with a point scale",
                            z3.Implies(exact, z3.And(L_point, KL == D0 + K1))))
            elif not p0 and not p1:
                out.append(("difference + difference: sum of the differences, labelled with a "
                            "difference scale", z3.Implies(exact, z3.And(z3.Not(L_point), DL == D0 + D1))))
        else:
            if p0 and not p1:
                out.append(("point - difference: affine value, labelled with a point scale",
                            z3.Implies(exact, z3.And(L_point, KL == K0 - D1))))
            elif not p0 and not p1:
                out.append(("difference - difference: labelled with a difference scale",
                            z3.Implies(exact, z3.And(z3.Not(L_point), DL == D0 - D1))))
            elif p0 and p1:
                out.append(("point - point: the temperature difference, labelled with a difference scale",
                            z3.Implies(exact, z3.And(z3.Not(L_point), DL == K0 - K1))))
        if p0 and p1:
            out.append(("two different offset scales are never combined",
                        units_equal(it, u0, u1)))
        return out + self.frames(a, old) + self.class_post(it, r) + self.out_post(it, a, r)

    def canary(self, it, a, r, old):
        if not N.is_unyt_array(r):
            return None
        return to_real(N.arr_elem(r)) == 12345


def _mk(base, ufunc, config, method="__call__", suffix="", out=None, **extra):
    if out:
        suffix += "_out_" + out
    name = "U_%s_%s_%s%s" % (ufunc, method.strip("_"), "".join(config), suffix)
    d = {"ufunc": ufunc, "config": tuple(config), "method": method, "out": out,
         "tag": "%s.%s(%s)%s" % (ufunc, method, ",".join(config), suffix)}
    if out:
        # NumPy refuses (UFuncTypeError, a TypeError) results that cannot be cast into the
        # target's dtype; 1-byte integer targets have no float of their width.  A refusal is
        # allowed; the frame obligations on the raising path are what C18 asks for.
        d["may_raise"] = tuple(getattr(base, "may_raise", ())) + ("TypeError",)
    d.update(extra)
    cls = type(name, (base,), d)
    cls.__module__ = __name__
    globals()[name] = cls
    return name


ALL = []
BINARY_CONFIGS = (("q", "q"), ("q", "s"), ("s", "q"), ("q", "z"), ("z", "q"), ("q", "n"), ("n", "q"))
for _cfg in BINARY_CONFIGS:
    ALL.append(_mk(_Additive, "add", _cfg, sign=1))
    ALL.append(_mk(_Additive, "subtract", _cfg, sign=-1))
for _uf in HOMOG:
    for _cfg in (("q", "q"), ("q", "s"), ("n", "q")):
        ALL.append(_mk(_Homogeneous, _uf, _cfg))
for _uf in COMPARE:
    for _cfg in (("q", "q"), ("q", "s"), ("s", "q"), ("q", "n")):
        ALL.append(_mk(_Comparison, _uf, _cfg))
for _uf in MULT:
    for _cfg in BINARY_CONFIGS:
        if "z" in _cfg:
            continue
        ALL.append(_mk(_Multiplicative, _uf, _cfg))
TEMPERATURE = []
for _n0 in TEMPERATURE_NAMES:
    for _n1 in TEMPERATURE_NAMES:
        for _uf, _sg in (("add", 1), ("subtract", -1)):
            TEMPERATURE.append(_mk(_Temperature, _uf, ("q", "q"), suffix="_T_%s_%s" % (_n0, _n1),
                                   sign=_sg, names=(_n0, _n1)))
ALL += TEMPERATURE


class _Unary(_Ufunc):
    """unary ufuncs on a quantity: degree-1 pass-through (negative, absolute, fabs, positive,
    conj) and powers (square, reciprocal, sqrt, cbrt)"""
    kind = None
    need_str = False
    power = None                      # None: pass-through; else the exponent

    def requires(self, it, a):
        from pyvc.unyt_domain import rpow
        out = _Ufunc.requires(self, it, a)
        u = self.units(a)[0]
        s_ = S.scale(u)
        if self.power == Fraction(1, 2):
            r_ = rpow(s_, z3.RealVal("1/2"))
            out.append(("real powers: rpow(s, 1/2) is the positive square root",
                        z3.And(r_ > 0, r_ * r_ == s_)))
            e = to_real(N.arr_elem(a.inputs[0]))
            q = N.ufn("sqrt", 1)(e)
            out.append(("NumPy: sqrt(x) >= 0 and sqrt(x)**2 == x for x >= 0",
                        z3.Implies(e >= 0, z3.And(q >= 0, q * q == e))))
        if self.power == Fraction(1, 3):
            r_ = rpow(s_, z3.RealVal("1/3"))
            out.append(("real powers: rpow(s, 1/3)**3 == s", z3.And(r_ > 0, r_ * r_ * r_ == s_)))
            e = to_real(N.arr_elem(a.inputs[0]))
            q = N.ufn("cbrt", 1)(e)
            out.append(("NumPy: cbrt(x)**3 == x", q * q * q == e))
        return out

    def raises(self, it, a):
        if self.power is None:
            return {}
        u = self.units(a)[0]
        # logarithmic units refuse powers (Unit.__pow__ / __mul__ contracts)
        return {"InvalidUnitOperation": is_ref(S.dim(u), "logarithmic")}

    def ensures(self, it, a, r, old):
        P = it.domain.prefix_table(it)
        if not N.is_unyt_array(r):
            return [("result is a unyt object", False)]
        u = self.units(a)[0]
        ru = r.fields["units"]
        x = self.si(it, a, 0, old)
        y = S.SI(N.arr_elem(r), ru, P)
        p = self.power
        if p is None:
            law = y == N.UNARY_UFUNCS[self.ufunc](x)
            dims = [to_real(d) for d in S.dim(u).vec]
        else:
            dims = [to_real(d) * to_real(p) for d in S.dim(u).vec]
            e = to_real(old[0]["elem"])
            if p == 2:
                law = y == x * x
            elif p == -1:
                law = z3.Implies(e != 0, y * x == 1)
            elif p == Fraction(1, 2):
                law = z3.Implies(e >= 0, z3.And(y >= 0, y * y == x))
            else:
                law = y * y * y == x
        out = [(self.law_tag() + ": SI(result) == %s(SI(x))" % self.ufunc, law),
               ("C04: dimension of the result by dimensional analysis",
                z3.And(*[to_real(g) == w for g, w in zip(S.dim(ru).vec, dims)])),
               ("result unit has no zero-point offset", S.offset(ru) == 0),
               ("result unit is consistent with its table (positive scale)", S.unit_wf(ru, P))]
        return out + self.frames(a, old) + self.class_post(it, r) + self.out_post(it, a, r)

    def canary(self, it, a, r, old):
        if not N.is_unyt_array(r):
            return None
        return to_real(N.arr_elem(r)) == 12345


class _UnaryOffsetRefusal(_Ufunc):
    """C08/C18: a power (square, sqrt, cbrt, reciprocal) of an offset temperature quantity is
    refused, and a refused out= call leaves its target untouched"""
    plain = False
    properties = ("C08", "C18")

    def requires(self, it, a):
        out = _Ufunc.requires(self, it, a)
        u = self.units(a)[0]
        out.append(("operand is an offset temperature scale", S.offset(u) != 0))
        return out

    def raises(self, it, a):
        return {"InvalidUnitOperation": z3.BoolVal(True)}

    def ensures(self, it, a, r, old):
        return [("C08: an offset-scale quantity is never raised to a power", False)]

    def canary(self, it, a, r, old):
        return None


UNARY = []
for _uf in UNARY_PASS:
    for _o in (None, "o", "i0"):
        UNARY.append(_mk(_Unary, _uf, ("q",), out=_o, power=None, kind=None))
for _uf, _p in UNARY_POW.items():
    for _o in (None, "o", "i0"):
        UNARY.append(_mk(_Unary, _uf, ("q",), out=_o, power=_p, kind=None))
        UNARY.append(_mk(_UnaryOffsetRefusal, _uf, ("q",), out=_o, suffix="_offset"))
ALL += UNARY

OUT_VARIANTS = []
for _uf, _base, _x in (("add", _Additive, {"sign": 1}), ("subtract", _Additive, {"sign": -1}),
                       ("multiply", _Multiplicative, {}), ("divide", _Multiplicative, {}),
                       ("maximum", _Homogeneous, {})):
    for _cfg in (("q", "q"), ("q", "s")):
        for _o in ("o", "i0") + (("i1",) if _cfg == ("q", "q") else ()):
            OUT_VARIANTS.append(_mk(_base, _uf, _cfg, out=_o, **_x))
ALL += OUT_VARIANTS


# ------------------------------------------------------------------ quantity / aliased operands
# the configurations the equivalence formulas (C09) use: constants are unyt_quantity objects
# ("Q"), the converted array may itself be a quantity, x*x passes one object twice ("e"), and
# the in-place forms name an operand as out=
EQUIV_VARIANTS = []
for _uf in ("multiply", "divide"):
    for _cfg, _outs in ((("q", "Q"), (None, "i0", "i1", "v0", "v1")), (("Q", "q"), (None, "i0", "i1", "v0", "v1")),
                        (("Q", "Q"), (None, "i0", "i1", "v0", "v1")), (("q", "q"), ("v0", "v1")),
                        (("q", "e"), (None, "i0", "v0")), (("Q", "e"), (None, "i0", "v0")),
                        (("s", "Q"), (None, "i1", "v1")), (("Q", "s"), (None, "i0", "v0")),
                        (("s", "q"), ("i1", "v1")), (("q", "s"), ("v0",))):
        for _o in _outs:
            EQUIV_VARIANTS.append(_mk(_Multiplicative, _uf, _cfg, out=_o, also=("C09",)))
for _cfg, _outs in ((("s", "q"), ("i1", "v1")), (("s", "Q"), (None, "i1", "v1"))):
    for _o in _outs:
        EQUIV_VARIANTS.append(_mk(_Additive, "subtract", _cfg, out=_o, sign=-1, also=("C09",)))
for _o in (None, "i0", "v0"):
    EQUIV_VARIANTS.append(_mk(_Unary, "sqrt", ("Q",), out=_o, power=UNARY_POW["sqrt"], kind=None, also=("C09",)))
EQUIV_VARIANTS.append(_mk(_Unary, "sqrt", ("q",), out="v0", power=UNARY_POW["sqrt"], kind=None, also=("C09",)))
ALL += EQUIV_VARIANTS


# ------------------------------------------------------------------ reductions
class _Reduce(_Ufunc):
    """ufunc.reduce on a quantity (np.sum / max / min / prod and the ndarray methods arrive here as
    add.reduce, maximum.reduce, minimum.reduce, multiply.reduce).  C04: 'arithmetic ufuncs and their
    reductions': the result is the reduction of the SI magnitudes; the numbers are NumPy's on the bare
    data (C06); the operand is untouched (C18).  The number of elements combined is symbolic."""
    method = "reduce"
    need_str = False
    kwargs = {}
    degree = 1                      # homogeneity degree per element combined: 1 (add/max/min) or "n" (multiply)

    def call_kwargs(self, formals):
        return dict(self.kwargs)

    def count(self, it, a):
        """the number of elements the caller's request combines into one result element (np.ufunc.reduce:
        axis=0 by default, axis=None: all of them)"""
        x = a.inputs[0]
        axis = self.kwargs.get("axis", 0)
        if axis is None:
            return to_z3(N.arr_size(x))
        return z3.If(to_z3(N.arr_scalar(x)), z3.IntVal(1), N.dim_length(it, N.shape_owner(x), axis))

    def requires(self, it, a):
        out = _Ufunc.requires(self, it, a)
        out.append(("data is numeric", to_z3(N.arr_kind(a.inputs[0])) != N.sv("b")))
        if self.degree != 1:
            out.append(("operand is not logarithmic (Unit.__pow__ refuses those: its own contract)",
                        z3.Not(is_ref(S.dim(self.units(a)[0]), "logarithmic"))))
        return out

    def algebra(self, it, k, e, cnt):
        """assumed NumPy algebra (numpy-ufunc-reduce), instantiated at the operand's scale, element and
        the number of elements combined"""
        from pyvc.unyt_domain import rpow
        f = N.reduce_fn(self.ufunc)
        if self.degree == 1:
            it.assume(z3.Implies(k > 0, f(k * e, cnt) == k * f(e, cnt)))
        else:
            kn = rpow(k, z3.ToReal(cnt))
            it.assume(z3.Implies(k > 0, z3.And(f(k * e, cnt) == kn * f(e, cnt), kn > 0)))

    def raises(self, it, a):
        return {}

    may_raise = ("AxisError",)

    def ensures(self, it, a, r, old):
        from pyvc.unyt_domain import rpow
        P = it.domain.prefix_table(it)
        if not N.is_unyt_array(r):
            return [("result is a unyt object", False)]
        u = self.units(a)[0]
        ru = r.fields["units"]
        origin = getattr(N.arr_buf(r), "origin", None)
        if not (isinstance(origin, tuple) and origin and origin[0] == "reduce"):
            return [("C06: the result holds what %s.reduce returned" % self.ufunc, False)]
        cnt = origin[2]
        f = N.reduce_fn(self.ufunc)
        e = to_real(old[0]["elem"])
        x = self.si(it, a, 0, old)
        y = S.SI(N.arr_elem(r), ru, P)
        self.algebra(it, S.scale(u), e, cnt)
        out = [("C06: the reduction carried out is %s.reduce" % self.ufunc, origin[1] == self.ufunc),
               ("C06: it runs over the axis the caller asked for (same number of elements combined)",
                cnt == self.count(it, a)),
               ("C06: the numbers are NumPy's reduction of the bare data", to_real(N.arr_elem(r)) == f(e, cnt)),
               (self.law_tag() + ": SI(result) == %s.reduce(SI(x))" % self.ufunc, y == f(x, cnt)),
               ("result unit has no zero-point offset", S.offset(ru) == 0)]
        if self.degree == 1:
            out.append(("C04: the result keeps the operand's dimension",
                        z3.And(*[to_real(g) == to_real(w) for g, w in zip(S.dim(ru).vec, S.dim(u).vec)])))
        else:
            out.append(("C04: the dimension of a product of n elements is n times the operand's",
                        z3.And(*[to_real(g) == to_real(w) * z3.ToReal(cnt)
                                 for g, w in zip(S.dim(ru).vec, S.dim(u).vec)])))
        return out + self.frames(a, old) + self.class_post(it, r)

    def canary(self, it, a, r, old):
        if not N.is_unyt_array(r):
            return None
        return to_real(N.arr_elem(r)) == 12345


REDUCTIONS = []
for _uf in ("add", "maximum", "minimum"):
    for _sfx, _kw in (("", {}), ("_axisNone", {"axis": None}), ("_axis1", {"axis": 1})):
        REDUCTIONS.append(_mk(_Reduce, _uf, ("q",), method="reduce", suffix=_sfx, kwargs=_kw, degree=1))
for _sfx, _kw in (("", {}), ("_axisNone", {"axis": None}), ("_axis1", {"axis": 1}), ("_axism1", {"axis": -1})):
    REDUCTIONS.append(_mk(_Reduce, "multiply", ("q",), method="reduce", suffix=_sfx, kwargs=_kw, degree="n"))
ALL += REDUCTIONS


# ------------------------------------------------------------------ np.power / ** with a bare exponent
class _Power(_Ufunc):
    """np.power(q, p) / q ** p for a bare real exponent p (C04: 'powers and roots'): the result is the
    p-th power of the SI magnitude, its dimension p times the operand's; an operand on an offset scale or in
    logarithmic units is refused for every p != 1 (C08)"""
    plain = False
    need_str = False
    properties = ("C04", "C08", "C16", "C18")

    def raises(self, it, a):
        u = self.units(a)[0]
        p = to_real(a.inputs[1])
        return {"InvalidUnitOperation": z3.And(z3.Or(is_ref(S.dim(u), "logarithmic"), S.offset(u) != 0), p != 1)}

    def ensures(self, it, a, r, old):
        from pyvc.unyt_domain import rpow
        P = it.domain.prefix_table(it)
        if not N.is_unyt_array(r):
            return [("result is a unyt object", False)]
        u = self.units(a)[0]
        ru = r.fields["units"]
        p = to_real(a.inputs[1])
        e = to_real(old[0]["elem"])
        k = S.scale(u)
        # real powers (assumed, "rpow"): (k*e)**p == k**p * e**p and k**p > 0 for k > 0
        it.assume(z3.Implies(k > 0, z3.And(rpow(k * e, p) == rpow(k, p) * rpow(e, p), rpow(k, p) > 0)))
        plain_u = S.offset(u) == 0
        x = e * k
        y = S.SI(N.arr_elem(r), ru, P)
        out = [("C06: the numbers are NumPy's power of the bare data", to_real(N.arr_elem(r)) == rpow(e, p)),
               (self.law_tag() + ": SI(result) == SI(x) ** p", z3.Implies(z3.And(plain_u, p != 1), y == rpow(x, p))),
               ("C04: the dimension of the result is p times the operand's",
                z3.And(*[to_real(g) == to_real(w) * p for g, w in zip(S.dim(ru).vec, S.dim(u).vec)])),
               ("C08: a power other than 1 of an offset-scale quantity is never returned",
                z3.Or(plain_u, p == 1)),
               ("result unit has no zero-point offset unless p == 1", z3.Or(p == 1, S.offset(ru) == 0))]
        return out + self.frames(a, old) + self.class_post(it, r) + self.out_post(it, a, r)

    def canary(self, it, a, r, old):
        if not N.is_unyt_array(r):
            return None
        return to_real(N.arr_elem(r)) == 12345


POWERS = [_mk(_Power, "power", ("q", "s")), _mk(_Power, "power", ("Q", "s"))]
ALL += POWERS


# ------------------------------------------------------------------ arctan2
class _Arctan2(_Commensurable):
    """np.arctan2(a, b): operands of one dimension (C01: refused otherwise, operands untouched); the angle of
    the SI magnitudes -- arctan2 is invariant under a common positive rescaling (assumed NumPy algebra) --
    returned as a pure number (C04)"""
    kind = None

    def ensures(self, it, a, r, old):
        P = it.domain.prefix_table(it)
        self.instantiate(it, a, old)
        si0, si1 = self.si(it, a, 0, old), self.si(it, a, 1, old)
        if not N.is_unyt_array(r):
            return [("result is a unyt object", False)]
        ru = r.fields["units"]
        u0, u1 = self.eff_units(it, a)
        fn = N.BINARY_UFUNCS["arctan2"]
        k = S.scale(u0)
        it.assume(N.homogeneity_fact("arctan2", k, si0 / k, si1 / k))
        z0, z1 = bare_zero(it, a, 0), bare_zero(it, a, 1)
        law = to_real(N.arr_elem(r)) == fn(si0, si1)
        out = [(self.law_tag() + ": the result is arctan2 of the SI magnitudes",
                z3.Implies(z3.And(self.exact_case(it, a), z3.Not(z0), z3.Not(z1)), law)),
               ("C04: the result is a pure number (dimensionless, scale 1, no zero point)",
                z3.And(S.scale(ru) == 1, S.offset(ru) == 0, _b(S.dim(ru).is_one())))]
        return out + self.frames(a, old) + self.class_post(it, r) + self.out_post(it, a, r)

    def canary(self, it, a, r, old):
        if not N.is_unyt_array(r):
            return None
        return to_real(N.arr_elem(r)) == 12345


ARCTAN2 = [_mk(_Arctan2, "arctan2", _cfg) for _cfg in (("q", "q"), ("q", "s"), ("s", "q"))]
ALL += ARCTAN2


# ------------------------------------------------------------------ use at call sites
def _callsite_result(self, it, a, old):
    """the state after a successful call, as far as the proved postconditions pin it down: a
    fresh result unit; out=: the target's memory is rewritten (dtype possibly promoted) and the
    target relabelled and returned; otherwise a new object whose class follows the C16 clauses"""
    ru = make_unit(it, "ufunc_result_unit")
    it.assume(z3.Length(S.ustr(ru)) >= 1)          # ASSUMED['sympy-str-nonempty']
    t = a.target
    if t is not None:
        b = N.arr_buf(t)
        b.elem = it.fresh_real("ufunc_out_elem")
        b.writes += 1
        b.kind = z3.String(it.ctx.fresh_name("ufunc_out_kind"))
        b.itemsize = it.fresh_int("ufunc_out_itemsize")
        t.fields["units"] = ru
        # the returned object wraps the target's memory; it need not be the target itself, and its
        # class is pinned only as far as the C16 clauses go
        sc, sz = to_z3(N.arr_scalar(t)), to_z3(N.arr_size(t))
        if it.branch(sc):
            cname = "unyt_quantity"
        elif it.branch(sz > 1):
            cname = "unyt_array"
        else:
            cname = "unyt_quantity" if it.branch(it.fresh_bool("one_element_out_result_is_quantity")) \
                else "unyt_array"
        r = N.make_unyt_array(it, "ufunc_out_result", units=ru, cls=cname, buf=b)
        r.fields["_scalar"], r.fields["_size"] = t.fields["_scalar"], t.fields["_size"]
        return r
    r = N.make_unyt_array(it, "ufunc_result", units=ru)
    all0d = z3.simplify(z3.And(*[to_z3(N.arr_scalar(o)) if N.is_array(o) else z3.BoolVal(True)
                                  for o in a.inputs]))
    r.fields["_scalar"] = all0d
    it.assume(z3.Implies(all0d, to_z3(N.arr_size(r)) == 1))
    if it.branch(all0d):
        q = N.make_unyt_array(it, "ufunc_result", units=ru, cls="unyt_quantity", buf=N.arr_buf(r))
        q.fields["_scalar"], q.fields["_size"] = r.fields["_scalar"], r.fields["_size"]
        r = q
    return r


_Ufunc.callsite_result = _callsite_result


AXIOM_LABELS = ("real powers:", "NumPy:")
from pyvc.unyt_domain import assumed as _assumed      # noqa: E402
_assumed("sympy-str-nonempty", "the printed form of a unit expression is never the empty string (str of a "
         "sympy expression; Unit.__str__ prints 'dimensionless' for 1): used for units produced by calls "
         "that are crossed by contract")


def _operand_kind(o, first):
    if o is first and first is not None:
        return "e"
    if N.is_unyt_array(o):
        return "Q" if o.cls.name == "unyt_quantity" else "q"
    if N.is_array(o):
        return "n"
    return "s"


class UfuncCallsite(Contract):
    """__array_ufunc__ at a call site: the call is matched to the proved configuration
    (ufunc, operand kinds, out= form) and that contract's precondition is checked, its refusal
    conditions branch, and its postcondition is all the caller learns.  A call that matches no
    proved configuration is undecided."""
    name = "unyt.array.unyt_array.__array_ufunc__"
    properties = ()

    def apply(self, it, bound):
        from pyvc.contracts import Args
        ufunc, method = bound["ufunc"], bound["method"]
        inputs = tuple(bound["inputs"])
        kwargs = dict(bound.get("kwargs") or {})
        out = kwargs.pop("out", None)
        if kwargs or not isinstance(ufunc, ExternalRef) or method != "__call__":
            raise Unsupported("__array_ufunc__ call-site form")
        target = None
        if out is not None:
            if not (isinstance(out, tuple) and len(out) == 1):
                raise Unsupported("__array_ufunc__ with several out= targets")
            target = out[0]
        uname = ufunc.name.split(".")[-1]
        kinds = []
        for n, o in enumerate(inputs):
            k = _operand_kind(o, inputs[0] if n else None)
            if k == "s" and not is_z3(o) and not isinstance(o, (int, float, Fraction)):
                raise Unsupported("__array_ufunc__ operand %r" % (o,))
            kinds.append(k)
        oform = None
        if target is not None:
            if not N.is_unyt_array(target):
                raise Unsupported("__array_ufunc__ with a bare out= target at a call site")
            oform = next(("i%d" % n for n, o in enumerate(inputs) if o is target), None) or next(
                ("v%d" % n for n, o in enumerate(inputs) if N.is_array(o) and N.arr_buf(o) is N.arr_buf(target)), "o")
            if oform == "o" and target.cls.name != "unyt_array":
                raise Unsupported("__array_ufunc__ with a separate unyt_quantity out= target")
        vname = "U_%s_call_%s%s" % (uname, "".join(kinds), "_out_" + oform if oform else "")
        vcls = globals().get(vname)
        if vcls is None or vname not in ALL:
            raise Unsupported("no proved __array_ufunc__ contract for %s" % vname)
        v = vcls()
        it.call_log.append("%s[%s]" % (self.name, v.tag))
        a = Args({"self": bound["self"], "ufunc": ufunc, "method": method, "inputs": inputs, "target": target})
        for label, f in v.requires(it, a):
            if label.startswith(AXIOM_LABELS):
                it.assume(f)          # instances of the stated mathematical / NumPy facts
                continue
            it.ctx.prove("%s[%s]: pre[%s] at call from %s" % (self.name, v.tag, label, it.verifying), f,
                         kind="callsite-pre")
            it.assume(f)
        for exc, cond in v.raises(it, a).items():
            if it.branch(cond):
                it.raise_(exc)
        for exc in v.may_raise:
            if it.branch(it.fresh_bool("mayraise_" + exc)):
                it.raise_(exc)
        old = v.snapshot(it, a)
        r = v.callsite_result(it, a, old)
        for label, f in v.ensures(it, a, r, old):
            if f is False:
                raise Unsupported("call-site model of %s violates its postcondition %r" % (vname, label))
            if f is True:
                continue
            it.assume(f)
        return r


# temperature pairs the library refuses for every reading (C08 allows a refusal wherever it does
# not demand a value): no returning path is expected of them; every other contract must keep one
# (cover obligation, pyvc/contracts.py)
ALWAYS_REFUSED = ('U_add_call_qq_T_K_degC', 'U_subtract_call_qq_T_K_degC', 'U_add_call_qq_T_K_degF', 'U_subtract_call_qq_T_K_degF', 'U_add_call_qq_T_K_mdegC', 'U_subtract_call_qq_T_K_mdegC', 'U_add_call_qq_T_R_degC', 'U_subtract_call_qq_T_R_degC', 'U_add_call_qq_T_R_degF', 'U_subtract_call_qq_T_R_degF', 'U_add_call_qq_T_R_mdegC', 'U_subtract_call_qq_T_R_mdegC', 'U_subtract_call_qq_T_degC_K', 'U_subtract_call_qq_T_degC_R', 'U_add_call_qq_T_degC_degF', 'U_subtract_call_qq_T_degC_degF', 'U_subtract_call_qq_T_degC_delta_degF', 'U_subtract_call_qq_T_degC_mK', 'U_subtract_call_qq_T_degF_K', 'U_subtract_call_qq_T_degF_R', 'U_add_call_qq_T_degF_degC', 'U_subtract_call_qq_T_degF_degC', 'U_subtract_call_qq_T_degF_delta_degC', 'U_subtract_call_qq_T_degF_mK', 'U_subtract_call_qq_T_delta_degC_degF', 'U_subtract_call_qq_T_delta_degC_mdegC', 'U_subtract_call_qq_T_delta_degF_degC', 'U_subtract_call_qq_T_delta_degF_mdegC', 'U_add_call_qq_T_mK_degC', 'U_subtract_call_qq_T_mK_degC', 'U_add_call_qq_T_mK_degF', 'U_subtract_call_qq_T_mK_degF', 'U_add_call_qq_T_mK_mdegC', 'U_subtract_call_qq_T_mK_mdegC', 'U_subtract_call_qq_T_mdegC_K', 'U_subtract_call_qq_T_mdegC_R', 'U_subtract_call_qq_T_mdegC_degC', 'U_subtract_call_qq_T_mdegC_degF', 'U_subtract_call_qq_T_mdegC_delta_degC', 'U_subtract_call_qq_T_mdegC_delta_degF', 'U_subtract_call_qq_T_mdegC_mK', 'U_subtract_call_qq_T_mdegC_mdegC')
for _n in ALWAYS_REFUSED:
    globals()[_n].expect_return = False
_UnaryOffsetRefusal.expect_return = False


class _BinaryOffsetRefusal(_Ufunc):
    """C08/C18: hypot / remainder / mod / fmod divide or square the readings, and multiply / divide
    multiply them: with an operand on an offset temperature scale (degC, degF, mdegC) the call is
    refused, whatever the other operand, and nothing is written"""
    plain = False
    properties = ("C08", "C18")
    expect_return = False
    which = 0                        # the operand that is on an offset scale

    def requires(self, it, a):
        out = _Ufunc.requires(self, it, a)
        u = self.units(a)[self.which]
        out.append(("operand %d is on an offset temperature scale" % self.which,
                    z3.And(_b(S.dim(u).is_base("temperature")), S.offset(u) != 0)))
        return out

    def raises(self, it, a):
        # the class is not pinned (the library uses InvalidUnitOperation here and UnitOperationError /
        # UnitConversionError for incommensurable operands, whichever test comes first)
        return {"InvalidUnitOperation": z3.BoolVal(True), "UnitOperationError": z3.BoolVal(True),
                "UnitConversionError": z3.BoolVal(True)}

    def ensures(self, it, a, r, old):
        return [("C08: an offset-scale reading is never divided, squared or multiplied", False)]

    def canary(self, it, a, r, old):
        return None


OFFSET_REFUSALS = []
for _uf in ("hypot", "remainder", "fmod", "multiply", "divide"):
    for _w in (0, 1):
        for _o in (None, "o"):
            OFFSET_REFUSALS.append(_mk(_BinaryOffsetRefusal, _uf, ("q", "q"), out=_o, suffix="_offset%d" % _w, which=_w))
ALL += OFFSET_REFUSALS
