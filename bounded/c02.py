"""C02 bounded stand-in: every unit's scale and dimension agree with its definition -- on the
real, imported package, against the independent evaluator of lib_c02_eval.py (exact Fractions
for names, 60-digit Decimals for compound expressions, exponent vectors for dimensions)."""
import math
import multiprocessing as mp
import sys, os
from decimal import Decimal
from fractions import Fraction
sys.path.insert(0, os.path.dirname(os.path.abspath(__file__)))
from common import Run, replay_script, safe

import numpy as np
import unyt
from unyt import Unit, UnitRegistry, unyt_array
from unyt import dimensions as D
from unyt._unit_lookup_table import (default_unit_symbol_lut as LUT, unit_prefixes,
                                     inv_name_alternatives as INV, physical_constants as PC)
import lib_c02_eval as E
from lib_c02_eval import (ATOMS, READING, AMBIGUOUS, PREFIX, name_info, dimvec, isclose,
                          gen_tree, render, evaluate, leaves)

R = Run("C02", "(1) every resolvable name (symbol x alias x prefix, 3.9k) vs prefix*base scale, "
        "dimension vector, offset; (1b) table atoms vs exact legal/SI definitions; (2) ordered pairs "
        "of names sharing a dimension: (x*u1).to(u2) vs x*scale(u1)/scale(u2) (affine oracle for "
        "offset units); (3) pinned + random compound expressions (1-5 factors, exponents in "
        "{-3..3,1/2,1/3,3/2,-1/2}, coefficients, sqrt, nested parentheses, several spellings); "
        "(4) fresh registries with lookup histories and add/modify; (5) Unit.__mul__/__truediv__/"
        "__pow__/__rtruediv__ bookkeeping.  non-trivial = distinct name / ordered pair / expression "
        "string / (history, name) / (op, operands)",
        "names exhaustive; pairs: quick = all atom pairs + <=1500 sampled name pairs per dimension, "
        "thorough = ALL ordered name pairs per dimension; compounds: 170 pinned + 4000 (quick) / "
        "60000 (thorough) random; ops: 145^2 atom pairs for mul/div (thorough; 45^2 quick) + random "
        "prefixed/compound operands; rtol 1e-14 names, 1e-13 conversions, 1e-12 compounds")

def _driver_error(tp, val, tb):
    """an unexpected error of the driver becomes a note; the JSON line is still printed"""
    import traceback
    R.notes.append("driver error: %r %s" % (val, "".join(traceback.format_tb(tb))[-400:]))
    try:
        R.finish()
    except SystemExit:
        sys.stdout.flush()
        os._exit(0)


sys.excepthook = _driver_error

_seen_fail = {}


def fail(key, what, replay=None, cap=1):
    _seen_fail[key] = _seen_fail.get(key, 0) + 1
    if _seen_fail[key] <= cap:
        R.fail(key, what, replay)


def uvec(u):
    return dimvec(u.dimensions)


# ------------------------------------------------------------------------------------------
# 0. the prefix table of the package against the SI prefixes
for p, (pv, word) in unit_prefixes.items():
    R.case("C02[prefix-table:%s]" % p)
    if p not in PREFIX or float(Fraction(10) ** PREFIX[p][0]) != pv or PREFIX[p][1] != word:
        fail("C02[prefix-table:%s]" % p, "unit_prefixes[%r] = %r, SI: %r" % (p, (pv, word), PREFIX.get(p)),
             replay_script("from unyt._unit_lookup_table import unit_prefixes\nprint(unit_prefixes[%r])\n"
                           "sys.exit(1 if unit_prefixes[%r][0] != %r else 0)\n"
                           % (p, p, float(Fraction(10) ** PREFIX[p][0]) if p in PREFIX else None)))
for p in PREFIX:
    if p not in unit_prefixes:
        R.case("C02[prefix-table:%s]" % p)
        fail("C02[prefix-table:%s]" % p, "SI prefix %r missing from unit_prefixes" % p)

# ------------------------------------------------------------------------------------------
# 1. every resolvable name
NAMES = sorted(set(READING) | {n for n in INV if n})
import re
NOT_ACCEPTED = re.compile(r"^(%s)°C$" % "|".join(sorted({w for _, w in PREFIX.values()} | {w.title() for _, w in PREFIX.values()})))
not_accepted = []
UNITS = {}
for n in NAMES:
    key = "C02[name:%s]" % n
    R.case(key, nontrivial=True, sample={"name": n})
    if n not in READING:
        fail(key, "name %r is exported (inv_name_alternatives) but the independent reader has no reading" % n)
        continue
    st, u = safe(Unit, n)
    if st == "exc" and NOT_ACCEPTED.match(n):
        # exported by the name table but not accepted by the parser ('°' is rewritten to 'deg'
        # before the lookup): outside "every unit expression that unyt accepts"; property C14
        not_accepted.append(n)
        continue
    if st == "exc":
        fail(key, "Unit(%r) raised %r" % (n, u),
             replay_script("try:\n    unyt.Unit(%r)\nexcept Exception as e:\n    print(repr(e)); sys.exit(1)\n" % n))
        continue
    s, dv, off, _ = name_info(n)
    fs = float(s)
    ok = isclose(u.base_value, fs, 1e-14) and uvec(u) == dv and (
        u.base_offset == off or isclose(u.base_offset, off, 1e-15))
    if not ok:
        fail(key, "Unit(%r): base_value %r dims %s offset %r; definition gives %r %s %r"
             % (n, u.base_value, u.dimensions, u.base_offset, fs, READING[n], off),
             replay_script("u = unyt.Unit(%r)\nprint(u.base_value, u.dimensions, u.base_offset)\n"
                           "sys.exit(1 if abs(u.base_value - %r) > 1e-14*abs(%r) or u.base_offset != %r else 0)\n"
                           % (n, fs, fs, off)))
    UNITS[n] = u
if not_accepted:
    R.notes.append("%d exported names are not accepted by the parser (prefix word + '°C', a C14 finding) "
                   "and are outside this property: %s ..." % (len(not_accepted), not_accepted[:3]))
for n, first, second in AMBIGUOUS:
    R.case("C02[ambiguous:%s]" % n, nontrivial=False)

# ------------------------------------------------------------------------------------------
# 1b. exact legal / SI definitions of the table atoms (Decimal; independent of the table)
PI = Decimal("3.14159265358979323846264338327950288419716939937510582097494")
LN10 = Decimal("2.30258509299404568401799145468436420760110148862877297603333")
Dc = Decimal
LB, G0, IN, FT = Dc("0.45359237"), Dc("9.80665"), Dc("0.0254"), Dc("0.3048")
GAL_US, GAL_UK = 231 * IN ** 3, Dc("4.54609e-3")
AU = Dc(149597870700)
CL = Dc(299792458)
EXACT = {
    "m": 1, "g": Dc("1e-3"), "s": 1, "K": 1, "rad": 1, "A": 1, "cd": 1, "dyn": Dc("1e-5"),
    "erg": Dc("1e-7"), "Ba": Dc("0.1"), "G": Dc("0.1").sqrt(), "statC": Dc("1e-9").sqrt(),
    "statA": Dc("1e-9").sqrt(), "statV": Dc("1e-5").sqrt(), "statohm": 100, "Mx": Dc("1e-9").sqrt(),
    "J": 1, "W": 1, "Hz": 1, "N": 1, "C": 1, "T": 1, "Pa": 1, "bar": Dc("1e5"), "V": 1, "F": 1, "H": 1,
    "Ω": 1, "Wb": 1, "lm": 1, "lx": 1, "degC": 1, "delta_degC": 1, "L": Dc("1e-3"), "ha": Dc("1e4"),
    "t": Dc("1e3"), "mil": IN / 1000, "inch": IN, "ft": FT, "yd": 3 * FT, "mile": 5280 * FT,
    "nmi": 1852, "mph": 5280 * FT / 3600, "kt": Dc(1852) / 3600, "acre": 43560 * FT ** 2,
    "furlong": 660 * FT, "degF": Dc(5) / 9, "delta_degF": Dc(5) / 9, "R": Dc(5) / 9, "lbf": LB * G0,
    "kip": 1000 * LB * G0, "lb": LB, "atm": 101325, "hp": 550 * FT * LB * G0, "oz": LB / 16,
    "ton": 2000 * LB, "ton_UK": 2240 * LB, "slug": LB * G0 / FT, "fl_oz_US": GAL_US / 128,
    "fl_oz_UK": GAL_UK / 160, "pt_US": GAL_US / 8, "pt_UK": GAL_UK / 8, "qt_US": GAL_US / 4,
    "qt_UK": GAL_UK / 4, "gal_US": GAL_US, "gal_UK": GAL_UK, "cal": Dc("4.184"), "Wh": 3600,
    "pli": LB * G0 / IN, "plf": LB * G0 / FT, "psi": LB * G0 / IN ** 2, "psf": LB * G0 / FT ** 2,
    "kli": 1000 * LB * G0 / IN, "klf": 1000 * LB * G0 / FT, "ksi": 1000 * LB * G0 / IN ** 2,
    "ksf": 1000 * LB * G0 / FT ** 2, "smoot": Dc("1.7018"), "dimensionless": 1, "%": Dc("0.01"),
    "min": 60, "hr": 3600, "day": 86400, "week": 604800, "fortnight": 1209600, "yr": 31557600,
    "c": CL, "degree": PI / 180, "arcmin": PI / 10800, "arcsec": PI / 648000, "mas": PI / 648000000,
    "hourangle": PI / 12, "sr": 1, "lat": -PI / 180, "lon": PI / 180, "rpm": 2 * PI / 60, "rev": 2 * PI,
    "spat": 4 * PI, "gradian": PI / 200, "foe": Dc("1e44"), "bethe": Dc("1e44"), "Å": Dc("1e-10"),
    "Jy": Dc("1e-26"), "counts": 1, "photons": 1, "Sv": 1, "rayleigh": Dc("1e10") / (4 * PI),
    "lambert": Dc("1e4") / PI, "nt": 1, "B": LN10 / 2, "Np": 1, "ly": CL * 31557600,
}
ROUNDED = {   # exactly defined, but conventionally quoted to 8-9 significant digits
    "AU": (AU, 1e-9), "pc": (648000 * AU / PI, 1e-9), "BTU": (Dc("1055.05585262"), 1e-7),
    "MMBTU": (Dc("1055.05585262e6"), 1e-7), "therm": (Dc("1055.05585262e5"), 1e-7),
    "quad": (Dc("1055.05585262e15"), 1e-7),
}
EXACT_OFFSET = {"degC": -273.15, "degF": -459.67, "lat": 90.0, "lon": -180.0}
MEASURED = ["mol", "Msun", "Rsun", "Lsun", "Tsun", "Zsun", "Zsun_angr", "Zsun_aspl", "Zsun_feld",
            "Zsun_lodd", "Mjup", "Mearth", "Rjup", "Rearth", "eV", "amu", "me", "mp", "Ry", "m_pl",
            "l_pl", "t_pl", "T_pl", "q_pl", "E_pl", "m_geom", "l_geom", "t_geom"]
for k in LUT:
    key = "C02[def:%s]" % k
    if k in EXACT or k in ROUNDED:
        d, tol = (EXACT[k], 1e-14) if k in EXACT else ROUNDED[k]
        R.case(key)
        got = LUT[k][0]
        off_ok = float(LUT[k][2]) == EXACT_OFFSET.get(k, 0.0)
        if not isclose(got, float(Dc(d)), tol) or not off_ok:
            fail(key, "table scale of %s is %r (offset %r), its definition gives %r (offset %r): rel %.3g"
                 % (k, got, LUT[k][2], float(Dc(d)), EXACT_OFFSET.get(k, 0.0), abs(got / float(Dc(d)) - 1)),
                 replay_script("u = unyt.Unit(%r)\nprint(u.base_value)\nsys.exit(1 if abs(u.base_value - %r) > %r*abs(%r) else 0)\n"
                               % (k, float(Dc(d)), tol, float(Dc(d)))))
    elif k not in MEASURED:
        R.case(key)
        fail(key, "table symbol %s has no definition in the driver (new unit?)" % k)
# units defined through measured constants: relations among table rows / the constants table
pc_ = {k: v[0] for k, v in PC.items()}
REL = {
    "m_geom": LUT["Msun"][0], "l_geom": pc_["G"] * LUT["Msun"][0] / pc_["c"] ** 2,
    "t_geom": pc_["G"] * LUT["Msun"][0] / pc_["c"] ** 3, "Ry": pc_["h"] * pc_["c"] * pc_["R_inf"],
    "mol": 1.0 / (LUT["amu"][0] * 1e3), "E_pl": LUT["m_pl"][0] * pc_["c"] ** 2,
    "t_pl": LUT["l_pl"][0] / pc_["c"], "T_pl": LUT["E_pl"][0] / pc_["kb"],
    "m_pl": math.sqrt(pc_["hbar"] * pc_["c"] / pc_["G"]), "l_pl": math.sqrt(pc_["hbar"] * pc_["G"] / pc_["c"] ** 3),
    "q_pl": math.sqrt(4 * math.pi * pc_["eps_0"] * pc_["hbar"] * pc_["c"]),
}
for k, v in REL.items():
    key = "C02[def-relation:%s]" % k
    R.case(key)
    if not isclose(LUT[k][0], v, 1e-13):
        fail(key, "table scale of %s is %r, its defining relation gives %r" % (k, LUT[k][0], v),
             replay_script("print(unyt.Unit(%r).base_value)\nsys.exit(1 if abs(unyt.Unit(%r).base_value - %r) > 1e-13*%r else 0)\n"
                           % (k, k, v, abs(v))))

# ------------------------------------------------------------------------------------------
# 2. conversions between names of the same dimension
GROUPS = {}
for n, u in UNITS.items():
    if n in READING:
        GROUPS.setdefault(name_info(n)[1], []).append(n)
X = np.array([1.0, -2.5e3, 3.7e-5])


def sym_of(n):
    return READING[n][1]


def expected_conv(n1, n2):
    s1, _, o1, f1 = name_info(n1)
    s2, _, o2, f2 = name_info(n2)
    if not (f1 or f2):
        return X * float(s1 / s2), False
    # affine: SI = (x - offset/prefix) * scale, offsets are written in the unprefixed degree
    e1, e2 = READING[n1][0] or 0, READING[n2][0] or 0
    si = [(Fraction(float(x)) - Fraction(o1) / Fraction(10) ** e1) * s1 for x in X]
    out = [float(v / s2 + Fraction(o2) / Fraction(10) ** e2) for v in si]
    return np.array(out), True


def check_pair(n1, n2):
    """returns None or (key, what, replay)"""
    exp, affine = expected_conv(n1, n2)
    try:
        got = unyt_array(X.copy(), n1).to(n2)
        gv = np.asarray(got.value, dtype=float)
        same_unit = got.units == UNITS[n2]
    except Exception as e:   # noqa
        return ("C02[convert:%s->%s]" % (sym_of(n1), sym_of(n2)),
                "unyt_array(x, %r).to(%r) raised %r" % (n1, n2, e), None)
    if affine:
        scale = np.maximum(np.abs(exp), np.abs(X * float(name_info(n1)[0] / name_info(n2)[0])) + abs(
            name_info(n2)[2] / float(Fraction(10) ** (READING[n2][0] or 0))))
        bad = np.any(np.abs(gv - exp) > 1e-12 * scale)
    else:
        bad = not np.allclose(gv, exp, rtol=1e-13, atol=0.0)
    if bad or not same_unit:
        return ("C02[convert%s:%s->%s]" % ("-offset" if affine else "", sym_of(n1), sym_of(n2)),
                "unyt_array(%s, %r).to(%r) = %s, definitions give %s" % (list(X), n1, n2, list(gv), list(exp)),
                replay_script("got = unyt_array(%r, %r).to(%r).value\nexp = np.array(%r)\nprint(got, exp)\n"
                              "sys.exit(1 if np.any(np.abs(got - exp) > %r * np.maximum(np.abs(exp), 1e-300)) else 0)\n"
                              % (list(X), n1, n2, [float(v) for v in exp], 1e-9 if affine else 1e-13)))
    return None


def pairs_worker(arg):
    names, rows = arg
    nbad, n = [], 0
    for n1 in rows:
        for n2 in names:
            n += 1
            r = check_pair(n1, n2)
            if r is not None and len(nbad) < 50:
                nbad.append(r)
    return n, nbad


pair_jobs = []
npairs_quick = 0
for dv, names in sorted(GROUPS.items(), key=lambda kv: -len(kv[1])):
    names = sorted(names)
    atoms = sorted({n for n in names if n in LUT})
    if R.thorough:
        step = max(1, 40000 // max(1, len(names)))
        for i in range(0, len(names), step):
            pair_jobs.append((names, names[i:i + step]))
    else:
        # all ordered pairs of table symbols of this dimension
        for a in atoms:
            for b in atoms:
                R.case("C02[pair:%s->%s]" % (a, b), nontrivial=(a != b))
                r = check_pair(a, b)
                if r:
                    fail(*r)
        # stratified sample of name pairs: every name appears at least once as source and target
        k = min(1500, len(names) ** 2)
        chosen = set()
        for n1 in names:
            chosen.add((n1, R.rng.choice(names)))
            chosen.add((R.rng.choice(names), n1))
        while len(chosen) < k:
            chosen.add((R.rng.choice(names), R.rng.choice(names)))
        for n1, n2 in sorted(chosen):
            R.case("C02[pair:%s->%s]" % (n1, n2), nontrivial=(n1 != n2))
            r = check_pair(n1, n2)
            if r:
                fail(*r)
if R.thorough:
    try:
        ctx = mp.get_context("fork")
        with ctx.Pool(processes=14) as pool:
            for (names, rows), (n, nbad) in zip(pair_jobs, pool.imap(pairs_worker, pair_jobs, chunksize=1)):
                R.evaluations += n
                for n1 in rows:
                    R.keys.add("C02[pairs-from:%s]" % n1)
                for r in nbad:
                    fail(*r)
        R.notes.append("thorough: all %d ordered name pairs within %d dimension groups evaluated"
                       % (sum(len(v) ** 2 for v in GROUPS.values()), len(GROUPS)))
    except Exception as e:   # noqa
        R.notes.append("pair pool failed: %r" % (e,))

# ------------------------------------------------------------------------------------------
# 3. compound expressions
COMPOUND_NAMES = [n for n in NAMES if n in READING and not name_info(n)[3]
                  and name_info(n)[1][7] == 0          # no logarithmic units in products
                  and n.isidentifier() or n in ("Å", "Ω", "µm", "μm", "%")]
COMPOUND_NAMES = [n for n in COMPOUND_NAMES if n in READING and not name_info(n)[3] and name_info(n)[1][7] == 0]
ATOM_NAMES = [n for n in COMPOUND_NAMES if n in LUT]


def minimal_failing(tree):
    """descend to the smallest sub-expression that still disagrees; returns (kind, tree)"""
    for child in tree[1:]:
        if isinstance(child, tuple) and child[0] not in ("num",):
            bad = compare_tree(child, " ".join)
            if bad:
                return minimal_failing(child)
    return tree


def tree_kind(t):
    k = t[0]
    if k == "pow":
        inner = t[1][0]
        return "pow(%s)of-%s" % (t[2], "name" if inner == "name" else inner)
    if k in ("mul", "div"):
        kinds = sorted({t[1][0], t[2][0]})
        return k + ("-coeff" if "num" in kinds else "")
    if k == "sqrt":
        return "sqrt-of-" + t[1][0]
    return k


class _FixedRng:
    """deterministic rendering: first spelling, no optional decoration"""
    def random(self):
        return 0.99

    def choice(self, seq):
        return seq[0]


def compare_text(text, dscale, dv):
    st, u = safe(Unit, text)
    if st == "exc":
        return "Unit(%r) raised %r" % (text, u)
    try:
        fs = float(dscale)
    except OverflowError:
        return None
    if not isclose(u.base_value, fs, 1e-12) or uvec(u) != dv or u.base_offset != 0.0:
        return "Unit(%r): base_value %r dims %s; evaluator gives %r %s (rel %.3g)" % (
            text, u.base_value, u.dimensions, fs, [str(x) for x in dv],
            abs(u.base_value / fs - 1) if fs else float("nan"))
    return None


def compare_tree(tree, _unused=None, text=None):
    dscale, dv = evaluate(tree)
    if dscale <= 0 or not E.in_float_range(tree):
        return None
    if text is None:
        text = render(tree, _FixedRng())
    return compare_text(text, dscale, dv)


def run_compound(tree, text, family):
    dscale, dv = evaluate(tree)
    if dscale <= 0 or not E.in_float_range(tree):
        return False        # some factor or partial product leaves the float range
    R.case("C02[%s:%s]" % (family, text), nontrivial=True,
           sample={"expr": text} if family == "compound" else None)
    bad = compare_text(text, dscale, dv)
    if bad:
        small = minimal_failing(tree)
        stext = render(small, _FixedRng()) if small is not tree else text
        sbad = compare_tree(small, text=stext) or bad
        if small[0] == "name":
            key = "C02[name:%s]" % small[1]
        else:
            key = "C02[compound:%s]" % tree_kind(small)
        ds, dvs = evaluate(small)
        fail(key, "%s   (found in %r)" % (sbad, text),
             replay_script("u = unyt.Unit(%r)\nprint(u.base_value, u.dimensions)\n"
                           "sys.exit(1 if abs(u.base_value - %r) > 1e-12*abs(%r) else 0)\n"
                           % (stext, float(ds), float(ds))))
    return True


# pinned witnesses: every exponent x every construct, fixed names
def T(n):
    return ("name", n)


PIN_BASES = [T("km"), T("g"), T("ft"), ("div", T("km"), T("s")), ("mul", T("g"), T("cm")),
             ("mul", ("num", "2.5"), T("km")), ("div", T("J"), ("pow", T("mile"), Fraction(2))),
             ("sqrt", ("mul", T("kg"), T("m"))), ("pow", T("hr"), Fraction(-1, 2)),
             ("mul", T("meter"), T("Msun")), ("div", ("num", "1e3"), T("µs")), T("percent")]
pinned = []
for b in PIN_BASES:
    for p in E.EXPONENTS:
        for sp in E.exp_spellings(p):
            t = ("pow", b, p)
            inner = render(b, _FixedRng())
            inner = inner if b[0] == "name" else "(" + inner + ")"
            pinned.append((t, inner + "**" + sp))
    pinned.append((("sqrt", b), "sqrt(" + render(b, _FixedRng()) + ")"))
    pinned.append((("div", ("num", "1"), b), "1/(" + render(b, _FixedRng()) + ")"))
    pinned.append((("mul", ("num", "1e-7"), b), "1e-7*(" + render(b, _FixedRng()) + ")"))
    pinned.append((("div", b, ("num", "4.184")), "(" + render(b, _FixedRng()) + ")/4.184"))
for t, text in pinned:
    run_compound(t, text, "pinned")

n_random = 60000 if R.thorough else 4000
done = 0
attempts = 0
while done < n_random and attempts < 3 * n_random:
    attempts += 1
    nf = R.rng.randint(1, 5)
    pool_names = ATOM_NAMES if R.rng.random() < 0.4 else COMPOUND_NAMES
    tree = gen_tree(R.rng, pool_names, nf)
    text = render(tree, R.rng)
    try:
        if run_compound(tree, text, "compound"):
            done += 1
    except Exception as e:   # noqa
        R.notes.append("compound driver error on %r: %r" % (text, e))
        if len(R.notes) > 20:
            break
    if R.elapsed() > (420 if R.thorough else 40):
        R.notes.append("compound loop stopped at %d expressions (time budget)" % done)
        break

# ------------------------------------------------------------------------------------------
# 4. fresh registries with lookup histories; add / modify
PREFIXABLE = [k for k, a in ATOMS.items() if a["prefixable"]]


def lookup_check(reg, n, exp_scale, exp_dv, family, hist_src):
    key = "C02[%s:%s]" % (family, n)
    R.case(key + "@" + str(hash(hist_src) % 100000), nontrivial=True)
    st, u = safe(Unit, n, registry=reg)
    if exp_scale is None:
        if st != "exc":
            fail(key, "after %s: Unit(%r) resolved to %r (scale %r) but must not resolve"
                 % (hist_src.replace("\n", "; "), n, u, u.base_value),
                 replay_script(hist_src + "try:\n    u = unyt.Unit(%r, registry=reg)\nexcept Exception:\n    sys.exit(0)\nprint(u.base_value); sys.exit(1)\n" % n))
        return
    if st == "exc" or not isclose(u.base_value, exp_scale, 1e-14) or uvec(u) != exp_dv:
        fail(key, "after %s: Unit(%r) -> %s; definitions give scale %r"
             % (hist_src.replace("\n", "; "), n, ("raised %r" % (u,)) if st == "exc" else
                "scale %r dims %s" % (u.base_value, u.dimensions), exp_scale),
             replay_script(hist_src + "u = unyt.Unit(%r, registry=reg)\nprint(u.base_value)\n"
                           "sys.exit(1 if abs(u.base_value - %r) > 1e-14*abs(%r) else 0)\n" % (n, exp_scale, exp_scale)))


# 4a. atto- before deca- (and the other way round), every prefixable symbol; registry-level lookup too
for order in ("a-then-da", "da-then-a", "d-then-da", "registry-getitem"):
    reg = UnitRegistry()
    src = "reg = unyt.UnitRegistry()\n"
    for k in PREFIXABLE:
        a, da, d = "a" + k, "da" + k, "d" + k
        seq = {"a-then-da": [a, da], "da-then-a": [da, a], "d-then-da": [d, a, da],
               "registry-getitem": [a, da]}[order]
        for n in seq:
            if n in LUT:        # the string is itself a table symbol (e.g. 'dyn'): skip
                continue
            e = {a: -18, da: 1, d: -1}[n]
            exp = float(ATOMS[k]["scale"] * Fraction(10) ** e)
            if order == "registry-getitem":
                key = "C02[order:%s:%s]" % (order, n)
                R.case(key)
                st, row = safe(lambda: reg[n])
                if st == "exc" or not isclose(row[0], exp, 1e-14):
                    fail(key, "registry[%r] after looking up %s: %r, expected scale %r" % (n, seq, row, exp))
            else:
                lookup_check(reg, n, exp, ATOMS[k]["dim"], "order:" + order,
                             src + "".join("unyt.Unit(%r, registry=reg)\n" % m for m in seq[:seq.index(n)]))

# 4a'. a derived (already prefixed) row never takes a second prefix, whichever name was seen first
reg = UnitRegistry()
hist = "reg = unyt.UnitRegistry()\n"
for k in PREFIXABLE:
    for p1 in ("a", "k", "da"):
        inner = p1 + k
        if inner in LUT or (inner in READING and READING[inner][1] != k):
            continue
        safe(Unit, inner, registry=reg)
        for p2 in ("k", "m", "da", "d"):
            n = p2 + inner
            if n in LUT or n in READING:
                continue
            lookup_check(reg, n, None, None, "double-prefix", "reg = unyt.UnitRegistry()\nunyt.Unit(%r, registry=reg)\n" % inner)

# 4b. random lookup orders over confusable names in one fresh registry each
confusable = sorted({p + k for k in PREFIXABLE for p in PREFIX} - set(LUT))
for trial in range(6 if R.thorough else 2):
    reg = UnitRegistry()
    order = list(confusable)
    R.rng.shuffle(order)
    for n in order:
        k = None
        for p in sorted(PREFIX, key=len, reverse=True):
            if n.startswith(p) and n[len(p):] in ATOMS and ATOMS[n[len(p):]]["prefixable"]:
                if n in READING and READING[n][1] != n[len(p):]:
                    continue
                k, e = n[len(p):], PREFIX[p][0]
                break
        if k is None or (n in READING and READING[n] != (e, k)):
            continue
        exp = float(ATOMS[k]["scale"] * Fraction(10) ** e)
        key = "C02[order:shuffled:%s]" % n
        R.case(key + "#%d" % trial)
        st, u = safe(Unit, n, registry=reg)
        if st == "exc" or not isclose(u.base_value, exp, 1e-14) or uvec(u) != ATOMS[k]["dim"]:
            fail(key, "in a fresh registry after a shuffled sequence of prefixed lookups Unit(%r) -> %r, expected scale %r"
                 % (n, u if st == "exc" else u.base_value, exp))

# 4c. add / modify, lookups before and after
SCEN = [
    # (label, source building reg, [(name, expected scale or None, dim symbol)])
    ("add-prefixable", "reg = unyt.UnitRegistry()\nreg.add('foo', 2.5, unyt.dimensions.length, prefixable=True)\n",
     [("foo", 2.5, "m"), ("kfoo", 2500.0, "m"), ("afoo", 2.5e-18, "m"), ("dafoo", 25.0, "m"), ("dfoo", 0.25, "m"),
      ("µfoo", 2.5e-6, "m"), ("ufoo", 2.5e-6, "m"), ("foo**2/kfoo", 2.5e-3, "m"), ("km", 1e3, "m")]),
    ("add-nonprefixable", "reg = unyt.UnitRegistry()\nreg.add('foo', 2.5, unyt.dimensions.length)\n",
     [("foo", 2.5, "m"), ("kfoo", None, "m"), ("dafoo", None, "m")]),
    ("add-a-then-da", "reg = unyt.UnitRegistry()\nreg.add('am_', 3.0, unyt.dimensions.mass, prefixable=True)\n"
     "unyt.Unit('aam_', registry=reg)\n",
     [("daam_", 30.0, "g"), ("dam", 10.0, "m"), ("am", 1e-18, "m"), ("aam_", 3e-18, "g")]),
    ("lookup-then-modify", "reg = unyt.UnitRegistry()\nunyt.Unit('kpc', registry=reg)\nunyt.Unit('apc', registry=reg)\n"
     "unyt.Unit('dapc', registry=reg)\nunyt.Unit('pc/yr', registry=reg)\nreg.modify('pc', 5.0)\n",
     [("pc", 5.0, "m"), ("kpc", 5e3, "m"), ("apc", 5e-18, "m"), ("dapc", 50.0, "m"), ("Mpc", 5e6, "m"),
      ("pc/yr", 5.0 / 31557600.0, None), ("kpc**2", 25e6, None), ("parsec", 5.0, "m"), ("kiloparsec", 5e3, "m")]),
    ("modify-then-lookup", "reg = unyt.UnitRegistry()\nreg.modify('pc', 5.0)\n",
     [("dapc", 50.0, "m"), ("apc", 5e-18, "m"), ("kpc", 5e3, "m"), ("pc**-2", 0.04, None)]),
    ("modify-quantity", "reg = unyt.UnitRegistry()\nunyt.Unit('kyr', registry=reg)\n"
     "reg.modify('yr', unyt.unyt_quantity(360.0, 'day'))\n",
     [("yr", 360 * 86400.0, "s"), ("kyr", 360 * 86400.0e3, "s"), ("Myr", 360 * 86400.0e6, "s"), ("dayr", 360 * 864000.0, "s")]),
    ("add-over-derived", "reg = unyt.UnitRegistry()\nunyt.Unit('kpc', registry=reg)\n"
     "reg.add('kpc', 9.0, unyt.dimensions.length)\n",
     [("kpc", 9.0, "m"), ("Mpc", float(ATOMS["pc"]["scale"]) * 1e6, "m")]),
    ("remove", "reg = unyt.UnitRegistry()\nunyt.Unit('kpc', registry=reg)\nunyt.Unit('dapc', registry=reg)\nreg.remove('pc')\n",
     [("pc", None, "m"), ("kpc", None, "m"), ("dapc", None, "m"), ("km", 1e3, "m")]),
    ("custom-lut", "reg = unyt.UnitRegistry(add_default_symbols=False, lut={'zz': (4.0, unyt.dimensions.time, 0.0, 'zz', True),"
     " 'm': (1.0, unyt.dimensions.length, 0.0, 'm', True)})\n",
     [("zz", 4.0, "s"), ("kzz", 4e3, "s"), ("dazz", 40.0, "s"), ("azz", 4e-18, "s"), ("dam", 10.0, "m"), ("m/zz", 0.25, None),
      ("pc", None, "m")]),
]
for label, src, probes in SCEN:
    orders = [probes, list(reversed(probes))]
    if R.thorough:
        for _ in range(4):
            o = list(probes)
            R.rng.shuffle(o)
            orders.append(o)
    for order in orders:
        env = {"unyt": unyt}
        try:
            exec(src, env)
        except Exception as e:   # noqa
            R.notes.append("scenario %s failed to build: %r" % (label, e))
            break
        reg = env["reg"]
        hist = src
        for n, exp, dsym in order:
            dv = ATOMS[dsym]["dim"] if dsym else None
            if dv is None and exp is not None:
                # compound probe: only the scale is pinned here
                key = "C02[registry:%s:%s]" % (label, n)
                R.case(key + "@" + str(len(hist)))
                st, u = safe(Unit, n, registry=reg)
                if st == "exc" or not isclose(u.base_value, exp, 1e-13):
                    fail(key, "after %s: Unit(%r) -> %r, expected scale %r" % (
                        hist.replace("\n", "; "), n, u if st == "exc" else u.base_value, exp),
                        replay_script(hist + "u = unyt.Unit(%r, registry=reg)\nprint(u.base_value)\n"
                                      "sys.exit(1 if abs(u.base_value - %r) > 1e-13*abs(%r) else 0)\n" % (n, exp, exp)))
            else:
                lookup_check(reg, n, exp, dv, "registry:" + label, hist)
            hist += "try:\n    unyt.Unit(%r, registry=reg)\nexcept Exception:\n    pass\n" % n

# ------------------------------------------------------------------------------------------
# 5. operator bookkeeping
OPS_ATOMS = sorted(ATOM_NAMES)
if not R.thorough:
    OPS_ATOMS = sorted(R.rng.sample(OPS_ATOMS, 45) + ["m", "g", "s", "Msun", "mol", "%", "dimensionless", "eV", "G"])
    OPS_ATOMS = sorted(set(OPS_ATOMS))


def op_check(kind, desc, fn, exp_scale, exp_dv, replay_expr):
    key = "C02[op:%s]" % kind
    R.case("C02[op:%s:%s]" % (kind, desc), nontrivial=True)
    st, w = safe(fn)
    if st == "exc":
        fail(key, "%s raised %r" % (desc, w), replay_script(
            "try:\n    %s\nexcept Exception as e:\n    print(repr(e)); sys.exit(1)\n" % replay_expr))
        return
    try:
        fs = float(exp_scale)
    except OverflowError:
        return
    if not (1e-290 < abs(fs) < 1e290):
        return
    if not isinstance(w, Unit) or not isclose(w.base_value, fs, 1e-13) or uvec(w) != exp_dv or w.base_offset != 0.0:
        fail(key, "%s = %r with base_value %r dims %s; expected %r %s"
             % (desc, w, getattr(w, "base_value", None), getattr(w, "dimensions", None), fs, [str(x) for x in exp_dv]),
             replay_script("w = %s\nprint(w.base_value, w.dimensions)\nsys.exit(1 if abs(w.base_value - %r) > 1e-13*abs(%r) else 0)\n"
                           % (replay_expr, fs, fs)))


def dec(fr):
    return Decimal(fr.numerator) / Decimal(fr.denominator)


for a in OPS_ATOMS:
    sa, da, _, _ = name_info(a)
    ua = UNITS[a]
    for b in OPS_ATOMS:
        sb, db, _, _ = name_info(b)
        ub = UNITS[b]
        op_check("mul", "%s*%s" % (a, b), lambda: ua * ub, sa * sb, E.vec_mul(da, db),
                 "unyt.Unit(%r)*unyt.Unit(%r)" % (a, b))
        op_check("div", "%s/%s" % (a, b), lambda: ua / ub, sa / sb, E.vec_mul(da, E.vec_pow(db, Fraction(-1))),
                 "unyt.Unit(%r)/unyt.Unit(%r)" % (a, b))
POW_EXPS = [Fraction(n) for n in (-3, -2, -1, 0, 1, 2, 3)] + [Fraction(1, 2), Fraction(1, 3), Fraction(3, 2),
                                                             Fraction(-1, 2), Fraction(2, 3), Fraction(-3, 2)]
for a in sorted(ATOM_NAMES):
    sa, da, _, _ = name_info(a)
    ua = UNITS[a]
    for p in POW_EXPS:
        for form, pv in (("frac", p), ("float", float(p))):
            if form == "float" and p.denominator == 3:
                pv = float(p)          # 0.333.. is read as 1/3 by limit_denominator
            op_check("pow(%s)" % p, "%s**%r" % (a, pv), lambda: ua ** pv, E.dpow(dec(sa), p), E.vec_pow(da, p),
                     "unyt.Unit(%r)**%s" % (a, "__import__('fractions').Fraction(%d,%d)" % (p.numerator, p.denominator)
                                            if form == "frac" else repr(pv)))
    # 1/u is a quantity 1.0 [u**-1]: its unit carries the bookkeeping
    op_check("rtruediv", "1/%s" % a, lambda: (1 / ua).units, 1 / sa, E.vec_pow(da, Fraction(-1)),
             "(1/unyt.Unit(%r)).units" % a)
# random prefixed / alias / compound operands
n_ops = 20000 if R.thorough else 2500
for i in range(n_ops):
    ta = gen_tree(R.rng, COMPOUND_NAMES, R.rng.randint(1, 2))
    tb = gen_tree(R.rng, COMPOUND_NAMES, R.rng.randint(1, 2))
    xa, xb = render(ta, R.rng), render(tb, R.rng)
    (sa, da), (sb, db) = evaluate(ta), evaluate(tb)
    if not all(Decimal("1e-90") < s < Decimal("1e90") for s in (sa, sb)):
        continue
    sua, ua = safe(Unit, xa)
    sub, ub = safe(Unit, xb)
    if sua == "exc" or sub == "exc":
        continue        # reported by section 3
    op_check("mul", "(%s)*(%s)" % (xa, xb), lambda: ua * ub, sa * sb, E.vec_mul(da, db),
             "unyt.Unit(%r)*unyt.Unit(%r)" % (xa, xb))
    op_check("div", "(%s)/(%s)" % (xa, xb), lambda: ua / ub, sa / sb, E.vec_mul(da, E.vec_pow(db, Fraction(-1))),
             "unyt.Unit(%r)/unyt.Unit(%r)" % (xa, xb))
    p = R.rng.choice(POW_EXPS)
    op_check("pow(%s)" % p, "(%s)**%s" % (xa, p), lambda: ua ** p, E.dpow(sa, p), E.vec_pow(da, p),
             "unyt.Unit(%r)**__import__('fractions').Fraction(%d,%d)" % (xa, p.numerator, p.denominator))
    # consequence: conversion between the operands' product and its reading as a string
    if i % 10 == 0:
        s = "(%s)*(%s)" % (xa, xb)
        op_check("string-vs-operator", s, lambda: Unit(s), sa * sb, E.vec_mul(da, db), "unyt.Unit(%r)" % s)

R.exhaustive = False
R.finish()
