"""C13 bounded stand-in: registries are isolated from each other and the default registry is
read-only -- on the real package.

Scenarios (see lib_c13_engine.py): a registry r1 (three kinds, or the default registry itself),
a registry r2 created from it by one of ten routes, an unrelated r3, then a sequence of steps
(actor, operation).  After the creation and after every step every registry other than the
actor, the default registry's table, a sample of the unyt namespace and built-in conversions are
compared with their state before the step.  Scenarios run in throw-away worker processes; a
worker whose process-wide state was changed by a scenario is discarded and replaced."""
import itertools
import json
import os
import subprocess
import sys
import threading

HERE = os.path.dirname(os.path.abspath(__file__))
sys.path.insert(0, HERE)


# ----------------------------------------------------------------------------------------
# worker: python c13.py --worker   (scenarios as JSON on stdin, one result line per scenario)
# ----------------------------------------------------------------------------------------
def worker():
    import warnings
    warnings.filterwarnings("ignore")
    import lib_c13_engine as E
    todo = json.loads(sys.stdin.read())
    # this process is only a pristine template: every scenario runs in a forked child, so no
    # scenario can see state (default registry, caches, namespace objects) left by another one
    pos = 0
    while pos < len(todo):
        # a child takes scenarios until one of them changed process-wide state; scenarios that start
        # from the default registry itself always get a child of their own
        rfd, wfd = os.pipe()
        pid = os.fork()
        if pid == 0:
            os.close(rfd)
            k = pos
            try:
                while k < len(todo):
                    idx, (base, route, steps) = todo[k]
                    solo = route.startswith("default:") or any(op.startswith("default-") for _, op in steps)
                    if solo and k > pos:
                        break
                    try:
                        fails, corrupted = E.run_scenario(base, route, [tuple(s) for s in steps])
                        out = {"idx": idx, "fails": fails, "corrupted": corrupted}
                    except BaseException as e:
                        out = {"idx": idx, "fails": [], "corrupted": True, "note": "driver exception %r" % (e,)}
                    os.write(wfd, (json.dumps(out, default=str) + "\n").encode())
                    k += 1
                    if out["corrupted"] or solo:
                        break
            finally:
                os._exit(0)
        os.close(wfd)
        data = b""
        while True:
            b = os.read(rfd, 1 << 16)
            if not b:
                break
            data += b
        os.close(rfd)
        os.waitpid(pid, 0)
        lines = [x for x in data.decode().splitlines() if x.strip()]
        if not lines:
            lines = [json.dumps({"idx": todo[pos][0], "fails": [], "corrupted": True, "note": "child died"})]
        for ln in lines:
            sys.stdout.write("RES " + ln + "\n")
        sys.stdout.flush()
        pos += len(lines)
    sys.exit(0)


if "--worker" in sys.argv:
    worker()

from common import Run, replay_script  # noqa: E402

R = Run("C13",
        "scenario = (kind of r1: default table / 5-symbol table / cgs unit system, each with a custom "
        "prefixable symbol and a modified built-in; or the default registry itself) x (route creating r2: "
        "independent, lut= by reference with/without defaults, lut= copied, JSON, pickle, deepcopy, "
        "Unit.copy shallow/deep, array deepcopy) x (sequence of (actor, operation) steps over 22 operations: "
        "add/modify/remove of custom and built-in symbols, define_unit, prefixed lookups, namespaces, unit "
        "systems, round trips, conversions, mixed-registry Unit/array arithmetic, constructor with "
        "registry=); non-trivial = at least one step",
        "quick: all single steps for every kind x route x actor (cgs kind: actor r2 only), every cached mixed "
        "operation from both sides, all 2-step sequences over an 8-operation core alphabet x 2 actors for the "
        "5-symbol kind, default-registry routes with 1-2 steps, 60 seeded random sequences of 6-10 steps; "
        "thorough: all 2-step sequences over the full alphabet (5-symbol kind) / core alphabet (other kinds), "
        "3-step over 6 operations x 2 actors, 2-step with 3 actors, 1000 random")

ROUTES = ["independent", "lut=alias", "lut=alias+defaults", "lut=dict-copy", "json", "pickle", "deepcopy",
          "Unit.copy", "Unit.copy-deep", "array-deepcopy"]
DROUTES = ["default:" + r for r in ROUTES if r != "independent"]
OPS = ["add-new", "add-over", "modify", "modify-builtin", "modify-quantity", "remove", "remove-builtin",
       "define_unit", "lookup", "namespace", "unit-system", "roundtrip", "convert", "mixed-unit-mul",
       "mixed-unit-div", "mixed-array-mul", "mixed-array-div", "mixed-array-add", "mixed-array-sub",
       "bypass-rebind", "bypass-rebind-namespace", "coerce-units"]
MIXED = [o for o in OPS if o.startswith("mixed-")]
CORE = ["add-new", "modify", "modify-builtin", "remove", "define_unit", "lookup", "mixed-array-mul",
        "bypass-rebind"]
CORE6 = ["add-over", "modify", "remove", "lookup", "mixed-array-mul", "define_unit"]
READONLY = ["modify", "modify-builtin", "modify-quantity", "remove", "remove-builtin"]


def scenarios():
    q = not R.thorough
    S = []
    two = [("r1", o) for o in OPS] + [("r2", o) for o in OPS]
    core = [("r1", o) for o in CORE] + [("r2", o) for o in CORE]
    core6 = [(a, o) for a in ("r1", "r2") for o in CORE6]
    for base in ("D", "E", "G"):
        for route in ROUTES:
            S.append((base, route, []))
            for st in two:
                if q and base == "G" and st[0] == "r1":
                    continue
                S.append((base, route, [st]))
            # every cached mixed operation from both sides (process-wide rule caches)
            if base != "G" or not q:
                for m in MIXED:
                    S.append((base, route, [("r1", m), ("r2", m)]))
                    S.append((base, route, [("r2", m), ("r1", m)]))
            if base == "E" or not q:
                # the 5-symbol table is the cheapest one: exhaustive 2-step sequences live there
                alpha = core if (q or base != "E") else [x for x in two if x[1] != "namespace"]
                for s2 in itertools.product(alpha, repeat=2):
                    S.append((base, route, list(s2)))
            if not q and base == "E":
                for s3 in itertools.product(core6, repeat=3):
                    S.append((base, route, list(s3)))
                three = [(a, o) for a in ("r1", "r2", "r3") for o in CORE6]
                for s2 in itertools.product(three, repeat=2):
                    if any(a == "r3" for a, _ in s2):
                        S.append((base, route, list(s2)))
    # routes that start from the default registry itself (r1 IS the default registry)
    for route in DROUTES:
        S.append(("D", route, []))
        for o in OPS:
            S.append(("D", route, [("r2", o)]))
            S.append(("D", route, [("r1", o)]) if o in READONLY or o in ("lookup", "namespace", "convert", "roundtrip",
                                                                         "coerce-units", "unit-system") or o in MIXED
                     else ("D", route, [("r2", "lookup"), ("r2", o)]))
        for a, b in itertools.product(["add-new", "modify", "remove", "modify-builtin", "lookup"], repeat=2):
            if not q or "lookup" in (a, b):
                S.append(("D", route, [("r2", a), ("r2", b)]))
    # legitimate edits of the default registry: nobody else may notice
    for route in ("independent", "json", "deepcopy"):
        for d in ("default-add", "default-define_unit"):
            S.append(("D", route, [("r3", d)]))
            S.append(("D", route, [("r1", "lookup"), ("r3", d), ("r2", "lookup")]))
    # seeded random sequences
    nrand = 60 if q else 1000
    actors = ["r1", "r2", "r3"]
    for i in range(nrand):
        base = R.rng.choice(["D", "D", "E", "G"])
        route = R.rng.choice(ROUTES)
        n = R.rng.randint(6, 10)
        S.append((base, route, [(R.rng.choice(actors), R.rng.choice(OPS)) for _ in range(n)]))
    return S


def run_chunk(chunk, results, notes, env):
    """feed a chunk to worker processes; a worker stops after a scenario that changed process-wide
    state, the rest of the chunk goes to a fresh worker"""
    pos = 0
    guard = 0
    while pos < len(chunk) and guard < len(chunk) + 5:
        guard += 1
        todo = chunk[pos:]
        try:
            p = subprocess.run([sys.executable, os.path.abspath(__file__), "--worker"],
                               input=json.dumps(todo), capture_output=True, text=True, env=env, cwd="/",
                               timeout=900)
        except Exception as e:
            notes.append("worker failed: %r" % (e,))
            return
        done = 0
        for line in p.stdout.splitlines():
            if line.startswith("RES "):
                results.append(json.loads(line[4:]))
                done += 1
        if done == 0:
            notes.append("worker produced nothing for scenario %r: %s" % (todo[0], p.stderr[-300:]))
            pos += 1
        pos += done


# ----------------------------------------------------------------------------------------
# compact replays (one template per key family)
# ----------------------------------------------------------------------------------------
def replay_for(key, base, route, steps):
    """the scenario engine itself (verbatim) + the one scenario; exit 1 iff the key shows again"""
    src = open(os.path.join(HERE, "lib_c13_engine.py")).read()
    body = (src + "\n\nfails, corrupted = run_scenario(%r, %r, %r)\n" % (base, route, [tuple(s) for s in steps])
            + "print('scenario:', %r, %r, %r)\n" % (base, route, steps)
            + "for k, w in fails:\n    print(k, '|', w)\n"
            + "sys.exit(1 if any(k == %r for k, _ in fails) else 0)" % key)
    return replay_script(body)


def main():
    S = scenarios()
    env = dict(os.environ)
    nproc = min(12, max(2, (os.cpu_count() or 4) - 2))
    indexed = list(enumerate(S))
    # interleave so that every worker gets a mix of cheap and process-corrupting scenarios
    per = 100 if len(indexed) < 20000 else 400
    chunks = []
    for w in range(0, len(indexed), per * nproc):
        block = indexed[w:w + per * nproc]
        for k in range(nproc):
            c = block[k::nproc]
            if c:
                chunks.append(c)
    results, notes = [], []
    lock = threading.Lock()
    it = iter(chunks)
    limit = R.args.budget or (50.0 if not R.thorough else 540.0)
    skipped = [0]

    def pump():
        while True:
            with lock:
                c = next(it, None)
            if c is None:
                return
            if R.elapsed() > limit:
                skipped[0] += len(c)
                continue
            run_chunk(c, results, notes, env)

    ths = [threading.Thread(target=pump) for _ in range(nproc)]
    for t in ths:
        t.start()
    for t in ths:
        t.join()
    if skipped[0]:
        notes.append("time budget reached; %d scenarios skipped" % skipped[0])
    results.sort(key=lambda r: r["idx"])
    best = {}
    respawns = 0
    for r in results:
        base, route, steps = S[r["idx"]]
        R.case("s%d" % r["idx"], nontrivial=len(steps) > 0,
               sample={"base": base, "route": route, "steps": steps} if r["idx"] % 997 == 5 else None)
        if r.get("note"):
            notes.append("scenario %s: %s" % (S[r["idx"]], r["note"]))
        if r["corrupted"]:
            respawns += 1
        for key, what in r["fails"]:
            cand = (len(steps), r["idx"])
            if key not in best or cand < best[key][0]:
                best[key] = (cand, what, (base, route, steps))
    for key in sorted(best):
        cand, what, (base, route, steps) = best[key]
        rep = None
        try:
            rep = replay_for(key, base, route, steps)
        except Exception as e:
            notes.append("replay generation failed for %s: %r" % (key, e))
        R.fail(key, what, rep)
    R.notes.extend(notes[:20])
    R.samples.append({"scenarios": len(S), "evaluated": len(results), "workers discarded after a "
                      "scenario changed process-wide state": respawns})
    R.finish()


if __name__ == "__main__":
    main()
