"""Shared harness for the bounded stand-ins.  These drivers run the REAL package (imported
from $UNYT_VERIF_REPO / PYTHONPATH) under /venv/bin/python over an enumerated or generated
input set with a stated bound.  They are labelled `bounded` everywhere and are never counted
as proved.  Output: one line  BOUNDED-JSON {...}."""
import argparse
import json
import os
import random
import sys
import time
import traceback
import warnings

warnings.filterwarnings("ignore")


class Run:
    def __init__(self, pid, rule, bound):
        ap = argparse.ArgumentParser()
        ap.add_argument("--tier", default="quick")
        ap.add_argument("--seed", type=int, default=0)
        ap.add_argument("--budget", type=float, default=None)
        self.args, _ = ap.parse_known_args()
        self.tier = self.args.tier
        self.thorough = self.tier == "thorough"
        self.rng = random.Random(self.args.seed)
        self.pid = pid
        self.rule = rule
        self.bound = bound
        self.evaluations = 0
        self.keys = set()
        self.failures = []
        self.samples = []
        self.t0 = time.time()
        self.exhaustive = False
        self.notes = []

    def case(self, key, nontrivial=True, sample=None):
        """count one evaluated case; `key` identifies a distinct case"""
        self.evaluations += 1
        if nontrivial:
            self.keys.add(key)
        if sample is not None and len(self.samples) < 6:
            self.samples.append(sample)

    def fail(self, key, what, replay=None):
        if len(self.failures) < 400:
            self.failures.append({"key": key, "what": str(what)[:600], "replay": replay})

    def elapsed(self):
        return time.time() - self.t0

    def finish(self):
        out = {"property": self.pid, "evaluations": self.evaluations,
               "distinct_nontrivial": len(self.keys), "rule": self.rule, "bound": self.bound,
               "failures": self.failures, "samples": self.samples,
               "exhaustive": self.exhaustive, "wall_s": round(self.elapsed(), 2),
               "notes": self.notes}
        print("BOUNDED-JSON " + json.dumps(out, default=str))
        sys.exit(0)


REPLAY_HEAD = "import sys, warnings\nwarnings.filterwarnings('ignore')\nimport numpy as np\nimport unyt\nfrom unyt import *\n"


def replay_script(body):
    """body: python statements that `sys.exit(1)` iff the violation reproduces"""
    return REPLAY_HEAD + body + "\nsys.exit(0)\n"


def safe(fn, *a, **k):
    try:
        return ("ok", fn(*a, **k))
    except Exception as e:  # noqa
        return ("exc", e)
