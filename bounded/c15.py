"""C15 bounded stand-in: physical constants are coherent across unit systems, registries and
with the unit table -- on the real, imported package.

Oracle (independent of unyt's conversion machinery): the constants table gives (value, SI unit
string); the driver parses the SI unit string itself (hand table of kg m s K A C J W N mol) into
an SI magnitude and an exponent vector over (mass, length, time, temperature, current).  Every
guise of the constant (name, alias, _mks, _cgs, namespaces built by add_constants for any
registry) must have that dimension (or the documented Gaussian counterpart for a pure charge)
and `value * scale(unit expression)` equal to the SI magnitude, where scale() is evaluated by the
driver over its own model of the registry (default table rows + the edits the scenario made).
"""
import math
import multiprocessing as mp
import re
import sys, os
from fractions import Fraction
sys.path.insert(0, os.path.dirname(os.path.abspath(__file__)))
from common import Run, replay_script, safe

import numpy as np
import unyt
from unyt import Unit, UnitRegistry, UnitSystem
from unyt import dimensions as D
from unyt import physical_constants as PCM
from unyt._unit_lookup_table import (default_unit_symbol_lut as LUT, physical_constants as PC,
                                     unit_prefixes as PREFIXES, inv_name_alternatives as INV)
from unyt.unit_systems import add_constants, unit_system_registry

RTOL = 1e-12
BUILTIN = ["cgs", "mks", "imperial", "galactic", "solar", "geometrized", "planck"]

# ----------------------------------------------------------------------------------------------
# independent reading of the SI unit strings of the constants table
BASE = ("M", "L", "T", "K", "I")
SI_ATOMS = {          # symbol -> (scale, exponents over BASE)
    "kg": (1.0, (1, 0, 0, 0, 0)), "m": (1.0, (0, 1, 0, 0, 0)), "s": (1.0, (0, 0, 1, 0, 0)),
    "K": (1.0, (0, 0, 0, 1, 0)), "A": (1.0, (0, 0, 0, 0, 1)), "C": (1.0, (0, 0, 1, 0, 1)),
    "J": (1.0, (1, 2, -2, 0, 0)), "W": (1.0, (1, 2, -3, 0, 0)), "N": (1.0, (1, 1, -2, 0, 0)),
    "mol": (LUT["mol"][0], (0, 0, 0, 0, 0)),
}
TOK = re.compile(r"\s*([*/]?)\s*([A-Za-z]+)(?:\*\*(-?\d+))?")


def parse_si(s):
    scale, exps, pos = 1.0, [0] * 5, 0
    while pos < len(s):
        m = TOK.match(s, pos)
        if not m:
            raise ValueError("cannot read SI unit string %r" % s)
        op, sym, p = m.groups()
        p = int(p) if p else 1
        if op == "/":
            p = -p
        sc, ex = SI_ATOMS[sym]
        scale *= sc ** p
        exps = [a + p * b for a, b in zip(exps, ex)]
        pos = m.end()
    return scale, tuple(exps)


DIMSYM = {"M": D.mass, "L": D.length, "T": D.time, "K": D.temperature, "I": D.current_mks}


def dims_of(exps):
    d = 1
    for b, e in zip(BASE, exps):
        d = d * DIMSYM[b] ** e
    return d


def gaussian(exps):
    """Gaussian counterpart of an SI exponent vector: A -> g**(1/2) cm**(3/2) s**-2"""
    M, L, T, K, I = [Fraction(x) for x in exps]
    return (M + I / 2, L + 3 * I / 2, T - 2 * I, K, Fraction(0))


def dims_of_frac(exps):
    from sympy import Rational
    d = 1
    for b, e in zip(BASE, exps):
        d = d * DIMSYM[b] ** Rational(e.numerator, e.denominator)
    return d


C_CGS_OVER_10 = 2997924580.0          # statC per C (exact by definition of the Gaussian system)
STATC_SCALE = 1e-3 ** 0.5 * 1e-2 ** 1.5   # g**(1/2) cm**(3/2) / s in kg, m, s

CONST = {}
for cn, (val, ustr, aliases) in PC.items():
    sc, ex = parse_si(ustr)
    CONST[cn] = dict(value=val, ustr=ustr, names=list(aliases) + [cn], si=val * sc, exps=ex,
                     has_I=ex[4] != 0, pure_charge=(ex == (0, 0, 1, 0, 1)))

# ----------------------------------------------------------------------------------------------
# the driver's own model of a registry: symbol -> (scale, prefixable)
PREFIX_LIST = sorted(PREFIXES.items(), key=lambda kv: -len(kv[0]))


def default_model():
    return {k: (row[0], row[4]) for k, row in LUT.items()}


def model_scale_of_symbol(name, model):
    if name in model:
        return model[name][0]
    for p, (pv, _) in PREFIX_LIST:
        if name.startswith(p) and name[len(p):] in model and model[name[len(p):]][1]:
            return pv * model[name[len(p):]][0]
    raise KeyError(name)


def model_scale(expr, model):
    """scale of a sympy unit expression over the model table (float)"""
    s = 1.0
    for base, e in expr.as_powers_dict().items():
        if base.is_Number:
            s *= float(base) ** float(e)
        else:
            s *= model_scale_of_symbol(str(base), model) ** float(e)
    return s


def atoms_of(expr):
    return {str(a) for a in expr.free_symbols}


def close(a, b, rtol=RTOL):
    return math.isclose(a, b, rel_tol=rtol, abs_tol=0.0)


# ----------------------------------------------------------------------------------------------
# checking one namespace against the oracle.  Returns (ncases, [fail tuples])
SYSTEM_ATOMS = {
    "cgs": {"cm", "g", "s", "K", "rad", "cd", "Np", "erg", "dyn", "G", "statC", "statA"},
    "mks": {"m", "kg", "s", "K", "rad", "A", "cd", "Np", "J", "Pa", "N", "T", "C", "Hz", "W", "V",
            "F", "H", "Ω", "Wb", "lm"},
    "imperial": {"ft", "lb", "s", "R", "rad", "A", "cd", "Np", "lbf", "hp"},
    "galactic": {"kpc", "Msun", "Myr", "K", "rad", "A", "cd", "Np", "keV", "μG"},
    "solar": {"AU", "Mearth", "yr", "K", "rad", "A", "cd", "Np"},
    "geometrized": {"l_geom", "m_geom", "t_geom", "K", "rad", "A", "cd", "Np"},
    "planck": {"l_pl", "m_pl", "t_pl", "T_pl", "rad", "A", "cd", "Np", "E_pl", "q_pl"},
}
SI_FALLBACK_ATOMS = {"C", "N", "m", "A", "kg", "s"}


def check_quantity(q, c, model, want_cgs=False):
    """None if q denotes constant c, else a description"""
    if not isinstance(q, unyt.unyt_quantity):
        return "is a %s, not a unyt_quantity" % type(q).__name__
    u = q.units
    si_dims = dims_of(c["exps"])
    try:
        sc = model_scale(u.expr, model)
    except KeyError as e:
        return "unit %s has a symbol the registry model cannot resolve: %s" % (u, e)
    v = float(q.value)
    # a reading on an offset temperature scale denotes (reading + zero point) degrees above absolute zero
    # (zero points from the definitions of the Celsius and Fahrenheit scales, not from the package)
    zero_point = {"degC": 273.15, "degF": 459.67}.get(str(u.expr), 0.0)
    v = v + zero_point
    if u.dimensions == si_dims:
        target = c["si"]
    elif c["pure_charge"] and u.dimensions == dims_of_frac(gaussian(c["exps"])):
        target = c["si"] * C_CGS_OVER_10 * STATC_SCALE
    else:
        return "dimension %s, expected %s%s" % (u.dimensions, si_dims,
                                               " or its Gaussian counterpart" if c["pure_charge"] else "")
    if not close(v * sc, target):
        return ("value %r %s has SI magnitude %r (unit scale %r evaluated over the registry's "
                "definitions), expected %r (rel %.3g)" % (v, u, v * sc, sc, target,
                                                          abs(v * sc / target - 1)))
    if not close(u.base_value, sc):
        return ("unit %s carries base_value %r but the registry's definitions give %r"
                % (u, u.base_value, sc))
    if want_cgs and not c["has_I"]:
        bad = atoms_of(u.expr) - SYSTEM_ATOMS["cgs"]
        if bad:
            return "_cgs value is expressed in %s, not in CGS units" % u
    return None


def check_namespace(ns, model, sysname, sys_atoms, label, keyfn, replay_fn, out):
    """out: list receiving ('case', key, nontrivial) / ('fail', key, what, replay)"""
    for cn, c in CONST.items():
        for name in c["names"]:
            for suffix in ("", "_mks", "_cgs"):
                full = name + suffix
                key = keyfn(cn, suffix)
                if full not in ns:
                    if suffix == "_cgs" and c["has_I"] and not c["pure_charge"]:
                        continue        # not representable in CGS: documented omission
                    out.append(("case", key + "/" + name, True))
                    out.append(("fail", key, "%s: name %r missing from the namespace" % (label, full),
                                replay_fn(full, None, None)))
                    continue
                q = ns[full]
                out.append(("case", key + "/" + name, True))
                try:
                    why = check_quantity(q, c, model, want_cgs=(suffix == "_cgs"))
                    if why is None and suffix == "" and not c["has_I"] and sys_atoms is not None:
                        bad = atoms_of(q.units.expr) - sys_atoms
                        if bad:
                            why = ("expressed in %s: symbols %s are not units of the registry's "
                                   "unit system %s" % (q.units, sorted(bad), sysname))
                    if why is None and suffix == "_mks":
                        if not (float(q.value) == c["value"] or close(float(q.value), c["value"])):
                            why = "_mks value %r differs from the table value %r" % (float(q.value), c["value"])
                except Exception as e:   # noqa
                    why = "checking raised %r" % (e,)
                if why is not None:
                    target = None
                    try:
                        target = c["si"] / model_scale(q.units.expr, model)
                    except Exception:
                        pass
                    out.append(("fail", key, "%s: %s = %s" % (label, full, why),
                                replay_fn(full, str(q.units), target)))
    # hmks / hcgs backward-compatibility names
    for nm, ref in (("hmks", "h_mks"), ("hcgs", "h_cgs")):
        key = keyfn("h", "[" + nm + "]")
        out.append(("case", key, True))
        if nm not in ns or ref not in ns or not (float(ns[nm].value) == float(ns[ref].value)
                                                 and ns[nm].units == ns[ref].units):
            out.append(("fail", key, "%s: %s is %r, %s is %r" % (label, nm, ns.get(nm), ref, ns.get(ref)),
                        replay_fn(nm, None, None)))


# ----------------------------------------------------------------------------------------------
# registry scenarios: python source that builds `reg` (so replays run the same text) + model edits
def spec(src, edits=None, sysname=None, sys_atoms=None, collapse=None):
    return dict(src=src, edits=edits or {}, sysname=sysname, sys_atoms=sys_atoms, collapse=collapse)


CODE_SRC = (
    "reg = UnitRegistry()\n"
    "reg.add('code_length', %(L)r, unyt.dimensions.length)\n"
    "reg.add('code_mass', %(M)r, unyt.dimensions.mass)\n"
    "reg.add('code_time', %(T)r, unyt.dimensions.time)\n"
    "reg.add('code_temperature', %(K)r, unyt.dimensions.temperature)\n"
    "reg.unit_system = unyt.UnitSystem(reg.unit_system_id, 'code_length', 'code_mass', 'code_time',"
    " 'code_temperature', registry=reg)\n")
CODE_ATOMS = {"code_length", "code_mass", "code_time", "code_temperature", "rad", "A", "cd", "Np"}


def code_spec(L, M, T, K, then=""):
    ed = {"code_length": (L, False), "code_mass": (M, False), "code_time": (T, False),
          "code_temperature": (K, False)}
    return spec(CODE_SRC % dict(L=L, M=M, T=T, K=K) + then, ed, "code", CODE_ATOMS)


SPECS = {}
for _n in BUILTIN:
    SPECS[_n] = spec("reg = UnitRegistry(unit_system=%r)\n" % _n, {}, _n, SYSTEM_ATOMS[_n])
SPECS["default-system"] = spec("reg = UnitRegistry()\n", {}, "mks", SYSTEM_ATOMS["mks"])


def mod_spec(sysname, mods, warm=()):
    src = "reg = UnitRegistry(unit_system=%r)\n" % sysname
    for w in warm:
        src += "Unit(%r, registry=reg)\n" % w
    ed = {}
    for sym, val in mods:
        src += "reg.modify(%r, %r)\n" % (sym, val)
        ed[sym] = (val, LUT[sym][4])
    return spec(src, ed, sysname, SYSTEM_ATOMS[sysname])


SPECS["galactic/Msun"] = mod_spec("galactic", [("Msun", 1.98847e30)])
SPECS["galactic/Msun,pc,yr"] = mod_spec("galactic", [("Msun", 1.98847e30), ("pc", 3.0857e16), ("yr", 3.1536e7)])
SPECS["galactic/warm,Msun,pc,yr"] = mod_spec(
    "galactic", [("Msun", 2.0e30), ("pc", 3.0e16), ("yr", 3.0e7)],
    warm=("Msun", "kpc", "Myr", "kpc**3/(Msun*Myr**2)", "keV"))
SPECS["galactic/eV"] = mod_spec("galactic", [("eV", 1.7e-19)], warm=("keV",))
SPECS["imperial/ft,lb,R"] = mod_spec("imperial", [("ft", 0.3), ("lb", 0.5), ("R", 0.5)])
SPECS["imperial/lbf,hp"] = mod_spec("imperial", [("lbf", 4.5), ("hp", 750.0)], warm=("lbf", "ft*lbf", "hp"))
SPECS["solar/AU,Mearth,yr"] = mod_spec("solar", [("AU", 1.5e11), ("Mearth", 5.9722e24), ("yr", 3.1536e7)])
SPECS["geometrized/all"] = mod_spec("geometrized", [("l_geom", 1500.0), ("m_geom", 2e30), ("t_geom", 5e-6)])
SPECS["planck/all"] = mod_spec("planck", [("l_pl", 1.6e-35), ("m_pl", 2.2e-8), ("t_pl", 5.4e-44),
                                          ("T_pl", 1.4e32), ("E_pl", 2.0e9), ("q_pl", 1.9e-18)])
SPECS["cgs/erg,dyn"] = mod_spec("cgs", [("erg", 2e-7), ("dyn", 2e-5)], warm=("erg", "dyn"))
SPECS["mks/added"] = spec(
    "reg = UnitRegistry()\nreg.add('foo', 2.5, unyt.dimensions.length, prefixable=True)\n"
    "reg.add('code_mass', 3.0e33, unyt.dimensions.mass)\n",
    {"foo": (2.5, True), "code_mass": (3.0e33, False)}, "mks", SYSTEM_ATOMS["mks"])
SPECS["cgs/added"] = spec(
    "reg = UnitRegistry(unit_system='cgs')\nreg.add('bar_', 7.0, unyt.dimensions.time)\n",
    {"bar_": (7.0, False)}, "cgs", SYSTEM_ATOMS["cgs"])
SPECS["code/A"] = code_spec(3.0857e22, 1.989e40, 3.15e16, 1.0)
SPECS["code/B"] = code_spec(1.0e21, 2.0e38, 1.0e15, 2.5)
SPECS["code/A-then-modify"] = code_spec(
    3.0857e22, 1.989e40, 3.15e16, 1.0,
    then="_ns = {}\nunyt.unit_systems.add_constants(_ns, reg)\nreg.modify('code_length', 1.0e22)\n"
         "reg.modify('code_time', 2.0e16)\n")
SPECS["code/A-then-modify"]["edits"].update({"code_length": (1.0e22, False), "code_time": (2.0e16, False)})
# custom unit systems registered under their own names
SPECS["custom/mm-mg-ms"] = spec(
    "unyt.UnitSystem('c15_mmmgms', 'mm', 'mg', 'ms')\nreg = UnitRegistry(unit_system='c15_mmmgms')\n",
    {}, "c15_mmmgms", {"mm", "mg", "ms", "K", "rad", "A", "cd", "Np"})
SPECS["custom/gaussian-like"] = spec(
    "unyt.UnitSystem('c15_gausslike', 'mm', 'mg', 'ms', current_mks_unit=None)\n"
    "reg = UnitRegistry(unit_system='c15_gausslike')\n",
    {}, "c15_gausslike", {"mm", "mg", "ms", "K", "rad", "cd", "Np"})
SPECS["custom/derived"] = spec(
    "_us = unyt.UnitSystem('c15_derived', 'km', 'Mearth', 'hr', temperature_unit='R')\n"
    "_us['energy'] = 'BTU'\n_us['velocity'] = 'mph'\n_us['mass'] = 'Mearth'\n"
    "reg = UnitRegistry(unit_system='c15_derived')\n",
    {}, "c15_derived", {"km", "Mearth", "hr", "R", "rad", "A", "cd", "Np", "BTU", "mph"})
# unit systems whose base temperature unit has a zero point (degC / degF): a constant given in K (Tcmb,
# planck_temperature) is a point on that scale after conversion, not a multiple of "1 K in base units"
SPECS["custom/degC-base"] = spec(
    "unyt.UnitSystem('c15_degc', 'm', 'kg', 's', temperature_unit='degC')\n"
    "reg = UnitRegistry(unit_system='c15_degc')\n",
    {}, "c15_degc", {"m", "kg", "s", "degC", "rad", "A", "cd", "Np"})
SPECS["custom/degF-base"] = spec(
    "unyt.UnitSystem('c15_degf', 'ft', 'lb', 's', temperature_unit='degF')\n"
    "reg = UnitRegistry(unit_system='c15_degf')\n",
    {}, "c15_degf", {"ft", "lb", "s", "degF", "rad", "A", "cd", "Np"})
# a registry in which an SI-named unit of the constants table itself is redefined: every
# constant whose table unit mentions kg is then read in the registry's own kilogram
SPECS["cgs/g-modified"] = mod_spec("cgs", [("g", 1.1e-3)])
SPECS["cgs/g-modified"]["collapse"] = "C15[reg:si-named-unit-redefined]"


def build(spec_name, env):
    sp = SPECS[spec_name]
    exec(sp["src"], env)
    reg = env["reg"]
    ns = {}
    add_constants(ns, reg)
    model = default_model()
    model.update(sp["edits"])
    return reg, ns, model


HIST_HEAD = "from unyt import Unit, UnitRegistry\nfrom unyt.unit_systems import add_constants\n"


def history_replay(hist):
    def fn(full, ustr, target):
        body = HIST_HEAD
        for s in hist:
            body += SPECS[s]["src"] + "ns = {}\nadd_constants(ns, reg)\n"
        if target is None:
            body += "print(%r in ns)\nsys.exit(0 if %r in ns else 1)\n" % (full, full)
        else:
            body += ("q = ns[%r]\nprint(repr(q), 'expected', %r, %r)\n"
                     "bad = str(q.units) != %r or abs(float(q.value) - %r) > 1e-12 * abs(%r)\n"
                     "sys.exit(1 if bad else 0)\n" % (full, target, ustr, ustr, target, target))
        return replay_script(body)
    return fn


def run_history(arg):
    """executed in a forked child: build the namespaces of `hist` in order, check every one"""
    hname, hist, keymode = arg
    out = []
    env = {"unyt": unyt, "Unit": Unit, "UnitRegistry": UnitRegistry}
    built = []
    try:
        for i, s in enumerate(hist):
            reg, ns, model = build(s, env)
            built.append((s, reg, ns, model))
            sp = SPECS[s]

            def keyfn(cn, suffix, s=s, sp=sp):
                if sp["collapse"]:
                    return sp["collapse"]
                if keymode == "single":
                    return "C15[reg:%s:%s%s]" % (s, cn, suffix)
                if keymode == "random":
                    return "C15[hist-random:%s:%s%s]" % (s, cn, suffix)
                return "C15[hist:%s:step%d=%s:%s%s]" % (hname, i + 1, s, cn, suffix)
            check_namespace(ns, model, sp["sysname"], sp["sys_atoms"],
                            "history %s step %d (%s)" % (" > ".join(hist), i + 1, s),
                            keyfn, history_replay(hist[:i + 1]), out)
        # namespaces built earlier must not have been changed by the later steps
        for j, (s, reg, ns, model) in enumerate(built[:-1]):
            sp = SPECS[s]
            tmp = []
            check_namespace(ns, model, sp["sysname"], sp["sys_atoms"],
                            "history %s: namespace of step %d re-read at the end" % (" > ".join(hist), j + 1),
                            lambda cn, suffix, s=s, sp=sp: sp["collapse"] or (
                                "C15[hist-reread:%s:%s%s]" % (s, cn, suffix)),
                            history_replay(hist), tmp)
            out.extend(t for t in tmp)
    except Exception as e:      # noqa
        import traceback
        out.append(("note", "history %s: driver/build raised %r %s" % (hname, e, traceback.format_exc()[-300:])))
    return out


_FAILCOUNT = {}


def absorb(R, out):
    for t in out:
        if t[0] == "case":
            R.case(t[1], nontrivial=t[2])
        elif t[0] == "fail":
            # one defect family is recorded at most twice (first witnesses stand for it)
            _FAILCOUNT[t[1]] = _FAILCOUNT.get(t[1], 0) + 1
            if _FAILCOUNT[t[1]] <= 2:
                R.fail(t[1], t[2], t[3])
        else:
            R.notes.append(t[1])


# ----------------------------------------------------------------------------------------------
def make_run():
    return Run("C15", "every constant of unyt._unit_lookup_table.physical_constants x every alias x "
            "{plain,_mks,_cgs} on the imported package and in namespaces built by add_constants for "
            "registries with each built-in unit system, custom unit systems, registries with added "
            "units, modified base/derived units of their unit system and code units -- each namespace "
            "built inside a call HISTORY (other registries using the same-named unit system with "
            "different definitions built before/after it; every history in a freshly forked process, "
            "plus one long sequential history in the main process); defining relations among the "
            "imported values; names that are both a unit and a constant; namespace precedence; "
            "published values by uncertainty class.  non-trivial = every (history, step, constant, "
            "name, suffix)",
            "37 constants x all aliases x 3 suffixes x ~30 registry scenarios x histories of length "
            "1-3 (quick) / +all ordered pairs of scenarios sharing a unit system and 300 random "
            "histories of length 3-5 (thorough); rtol 1e-12")


def main(R):

    # ---- D. histories in forked children (first, so the parent state they inherit is pristine)
    hists = []
    for s in SPECS:
        hists.append(("single:" + s, [s], "single"))
    fam = {}
    for s in SPECS:
        fam.setdefault(s.split("/")[0], []).append(s)
    fam["galactic"] = [s for s in SPECS if s.startswith("galactic")]
    pairs = [("galactic", "galactic/Msun"), ("galactic", "galactic/Msun,pc,yr"),
             ("galactic", "galactic/warm,Msun,pc,yr"), ("galactic/Msun", "galactic/Msun,pc,yr"),
             ("galactic", "galactic/eV"),
             ("imperial", "imperial/ft,lb,R"), ("imperial", "imperial/lbf,hp"),
             ("solar", "solar/AU,Mearth,yr"), ("geometrized", "geometrized/all"),
             ("planck", "planck/all"), ("cgs", "cgs/erg,dyn"), ("cgs", "cgs/added"),
             ("mks", "mks/added"), ("default-system", "mks/added"), ("code/A", "code/B"),
             ("code/A", "code/A-then-modify"), ("cgs", "custom/gaussian-like"),
             ("mks", "custom/mm-mg-ms"), ("imperial", "custom/derived"), ("cgs", "cgs/g-modified")]
    for a, b in pairs:
        hists.append(("%s>%s" % (a, b), [a, b], "hist"))
        hists.append(("%s>%s" % (b, a), [b, a], "hist"))
        hists.append(("%s>%s>%s" % (a, b, a), [a, b, a], "hist"))
    if R.thorough:
        for f, members in fam.items():
            for a in members:
                for b in members:
                    if a != b and not any(h[1] == [a, b] for h in hists):
                        hists.append(("%s>%s" % (a, b), [a, b], "hist"))
        names = [s for s in SPECS]
        for k in range(300):
            n = R.rng.randint(3, 5)
            h = [R.rng.choice(names) for _ in range(n)]
            hists.append(("random%d" % k, h, "random"))
    else:
        names = [s for s in SPECS]
        for k in range(6):
            h = [R.rng.choice(names) for _ in range(3)]
            hists.append(("random%d" % k, h, "random"))

    try:
        ctx = mp.get_context("fork")
        with ctx.Pool(processes=8, maxtasksperchild=1) as pool:
            results = pool.map(run_history, hists, chunksize=1)
        for out in results:
            absorb(R, out)
    except Exception as e:   # noqa
        R.notes.append("fork pool failed (%r); histories run in-process" % (e,))
        for h in hists:
            absorb(R, run_history(h))

    # ---- A. the imported package: module unyt.physical_constants and the unyt namespace
    model0 = default_model()
    modns = vars(PCM)

    def default_replay(full, ustr, target):
        if target is None:
            return replay_script("sys.exit(0 if hasattr(unyt.physical_constants, %r) else 1)\n" % full)
        return replay_script(
            "q = getattr(unyt.physical_constants, %r)\nprint(repr(q), 'expected', %r, %r)\n"
            "sys.exit(1 if str(q.units) != %r or abs(float(q.value) - %r) > 1e-12 * abs(%r) else 0)\n"
            % (full, target, ustr, ustr, target, target))
    out = []
    check_namespace(modns, model0, "mks", SYSTEM_ATOMS["mks"], "unyt.physical_constants",
                    lambda cn, suffix: "C15[default:%s%s]" % (cn, suffix), default_replay, out)
    absorb(R, out)

    # equal as quantities through unyt's own routes: in_mks() of every guise, == between guises
    for cn, c in CONST.items():
        for name in c["names"]:
            for suffix in ("", "_mks", "_cgs"):
                q = modns.get(name + suffix)
                if q is None:
                    continue
                key = "C15[in_mks:%s%s]" % (cn, suffix)
                R.case(key + "/" + name)
                st, m = safe(lambda: q.in_mks())
                if st == "exc":
                    R.fail(key, "%s.in_mks() raised %r" % (name + suffix, m),
                           replay_script("try:\n    unyt.physical_constants.%s.in_mks()\nexcept Exception as e:\n"
                                         "    print(repr(e)); sys.exit(1)\n" % (name + suffix)
                                         if (name + suffix).isascii() else
                                         "try:\n    getattr(unyt.physical_constants, %r).in_mks()\nexcept Exception as e:\n"
                                         "    print(repr(e)); sys.exit(1)\n" % (name + suffix)))
                    continue
                if not (close(float(m.value), c["si"]) and m.units.dimensions == dims_of(c["exps"])
                        and close(m.units.base_value, 1.0)):
                    R.fail(key, "%s.in_mks() = %r, expected %r with dimension %s"
                           % (name + suffix, m, c["si"], dims_of(c["exps"])),
                           replay_script("m = getattr(unyt.physical_constants, %r).in_mks()\nprint(repr(m))\n"
                                         "sys.exit(1 if abs(float(m.value) - %r) > 1e-12 * abs(%r) else 0)\n"
                                         % (name + suffix, c["si"], c["si"])))
                # unyt's own comparison with the canonical name
                ref = modns.get(cn)
                if ref is not None and q.units.dimensions == ref.units.dimensions:
                    R.case("C15[eq:%s%s]/%s" % (cn, suffix, name))
                    st, e = safe(lambda: bool(np.isclose(float(q.to(ref.units).value), float(ref.value),
                                                         rtol=RTOL, atol=0)))
                    if st == "exc" or not e:
                        R.fail("C15[eq:%s%s]" % (cn, suffix), "%s converted to %s gives %r, canonical %r"
                               % (name + suffix, ref.units, e, ref))

    # ---- namespace precedence: unyt.<name> is the constant for every constant name
    for full, q in list(modns.items()):
        if full.startswith("_") or not isinstance(q, unyt.unyt_quantity):
            continue
        key = "C15[precedence:%s]" % full
        dual = full in INV or full in LUT
        R.case(key, nontrivial=dual)
        top = getattr(unyt, full, None)
        if top is not q:
            R.fail(key, "unyt.%s is %r, unyt.physical_constants.%s is %r" % (full, top, full, q),
                   replay_script("sys.exit(0 if getattr(unyt, %r, None) is getattr(unyt.physical_constants, %r) else 1)\n"
                                 % (full, full)))

    # ---- B. defining relations on the imported values
    V = {}
    for cn in CONST:
        q = modns.get(cn)
        if q is not None:
            V[cn] = float(q.in_mks().value) if True else None
    pi = math.pi

    def rel(name, lhs, rhs, rtol=RTOL, expr=None):
        key = "C15[relation:%s]" % name
        R.case(key)
        try:
            a, b = lhs(), rhs()
            if not close(a, b, rtol):
                R.fail(key, "%s: lhs %r rhs %r (rel %.3g)" % (name, a, b, abs(a / b - 1)),
                       replay_script(
                           "P = unyt.physical_constants\nV = lambda n: float(getattr(P, n).in_mks().value)\n"
                           "import math\npi = math.pi\na, b = %s\nprint(a, b)\n"
                           "sys.exit(1 if abs(a - b) > %r * abs(b) else 0)\n" % (expr, rtol)) if expr else None)
        except Exception as e:  # noqa
            R.fail(key, "%s: evaluating raised %r" % (name, e))

    v = lambda n: V[n]   # noqa
    rel("hbar=h/2pi", lambda: v("hbar"), lambda: v("h") / (2 * pi), expr="V('hbar'), V('h')/(2*pi)")
    rel("eps0*mu0*c^2=1", lambda: v("eps_0") * v("mu_0") * v("c") ** 2, lambda: 1.0,
        expr="V('eps_0')*V('mu_0')*V('c')**2, 1.0")
    rel("stefan_boltzmann", lambda: v("σ"), lambda: 2 * pi ** 5 * v("kb") ** 4 / (15 * v("c") ** 2 * v("h") ** 3),
        expr="V('stefan_boltzmann_constant'), 2*pi**5*V('kb')**4/(15*V('c')**2*V('h')**3)")
    rel("radiation_constant", lambda: v("a"), lambda: 4 * v("σ") / v("c"),
        expr="V('a'), 4*V('stefan_boltzmann_constant')/V('c')")
    rel("rydberg", lambda: v("R_inf"),
        lambda: v("me") * v("qp") ** 4 / (8 * v("eps_0") ** 2 * v("h") ** 3 * v("c")),
        expr="V('R_inf'), V('me')*V('qp')**4/(8*V('eps_0')**2*V('h')**3*V('c'))")
    rel("planck_mass", lambda: v("m_pl"), lambda: math.sqrt(v("hbar") * v("c") / v("G")),
        expr="V('m_pl'), math.sqrt(V('hbar')*V('c')/V('G'))")
    rel("planck_length", lambda: v("l_pl"), lambda: math.sqrt(v("hbar") * v("G") / v("c") ** 3),
        expr="V('l_pl'), math.sqrt(V('hbar')*V('G')/V('c')**3)")
    rel("planck_time", lambda: v("t_pl"), lambda: math.sqrt(v("hbar") * v("G") / v("c") ** 5),
        expr="V('t_pl'), math.sqrt(V('hbar')*V('G')/V('c')**5)")
    rel("planck_energy", lambda: v("E_pl"), lambda: math.sqrt(v("hbar") * v("c") ** 5 / v("G")),
        expr="V('E_pl'), math.sqrt(V('hbar')*V('c')**5/V('G'))")
    rel("planck_temperature", lambda: v("T_pl"), lambda: math.sqrt(v("hbar") * v("c") ** 5 / v("G")) / v("kb"),
        expr="V('T_pl'), math.sqrt(V('hbar')*V('c')**5/V('G'))/V('kb')")
    rel("planck_charge", lambda: v("q_pl"), lambda: math.sqrt(4 * pi * v("eps_0") * v("hbar") * v("c")),
        expr="V('q_pl'), math.sqrt(4*pi*V('eps_0')*V('hbar')*V('c'))")
    rel("qe=-qp", lambda: v("qe"), lambda: -v("qp"), rtol=0.0, expr="V('qe'), -V('qp')")
    rel("mu0=4pi*1e-7", lambda: v("mu_0"), lambda: 4e-7 * pi, expr="V('mu_0'), 4e-7*pi")
    rel("Na*mol=1 (uncertainty class 1e-7)", lambda: v("Na"), lambda: 1.0, rtol=1e-7, expr="V('Na'), 1.0")
    rel("mh=1.007947 amu", lambda: v("mh"), lambda: 1.007947 * LUT["amu"][0], expr="V('mh'), 1.007947*float(unyt.Unit('amu').base_value)")
    # the same relations as quantity arithmetic (dimension bookkeeping of the imported objects)
    P = PCM

    def qrel(name, f, g):
        key = "C15[qrelation:%s]" % name
        R.case(key)
        try:
            a, b = f().in_mks(), g().in_mks()
            if not (a.units.dimensions == b.units.dimensions and close(float(a.value), float(b.value))):
                R.fail(key, "%s: %r vs %r" % (name, a, b))
        except Exception as e:  # noqa
            R.fail(key, "%s raised %r" % (name, e))
    qrel("hbar", lambda: P.hbar, lambda: P.h / (2 * pi))
    qrel("eps0*mu0*c^2", lambda: P.eps_0 * P.mu_0 * P.c ** 2, lambda: unyt.unyt_quantity(1.0, ""))
    qrel("sigma", lambda: P.stefan_boltzmann_constant, lambda: 2 * pi ** 5 * P.kb ** 4 / (15 * P.c ** 2 * P.h ** 3))
    qrel("a", lambda: P.radiation_density_constant, lambda: 4 * P.stefan_boltzmann_constant / P.c)
    qrel("R_inf", lambda: P.R_inf, lambda: P.me * P.qp ** 4 / (8 * P.eps_0 ** 2 * P.h ** 3 * P.c))
    qrel("m_pl", lambda: P.m_pl, lambda: (P.hbar * P.c / P.G) ** 0.5)
    qrel("l_pl", lambda: P.l_pl, lambda: (P.hbar * P.G / P.c ** 3) ** 0.5)
    qrel("t_pl", lambda: P.t_pl, lambda: (P.hbar * P.G / P.c ** 5) ** 0.5)
    qrel("E_pl", lambda: P.E_pl, lambda: P.m_pl * P.c ** 2)
    qrel("T_pl", lambda: P.T_pl, lambda: P.E_pl / P.kb)
    qrel("q_pl", lambda: P.q_pl, lambda: (4 * pi * P.eps_0 * P.hbar * P.c) ** 0.5)

    # natural-unit systems: the defining constants are 1 in their own system
    for sysname, ones in (("planck", ["G", "c", "hbar", "kb", "m_pl", "l_pl", "t_pl", "T_pl", "E_pl", "q_pl"]),
                          ("geometrized", ["G", "c", "Msun"])):
        ns = {}
        st, e = safe(add_constants, ns, UnitRegistry(unit_system=sysname))
        for cn in ones:
            key = "C15[natural:%s:%s]" % (sysname, cn)
            R.case(key)
            q = ns.get(cn)
            if q is None or not close(float(q.value), 1.0, 1e-12):
                R.fail(key, "%s in a registry with the %s unit system is %r, must be 1" % (cn, sysname, q),
                       replay_script(HIST_HEAD + "ns = {}\nadd_constants(ns, UnitRegistry(unit_system=%r))\n"
                                     "print(repr(ns[%r]))\nsys.exit(1 if abs(float(ns[%r].value) - 1) > 1e-12 else 0)\n"
                                     % (sysname, cn, cn)))

    # ---- C. names that are both a unit and a constant denote the same quantity
    DUAL_LISTED = ("me", "mp", "c", "Msun", "Mjup", "Mearth", "m_pl", "l_pl", "t_pl", "E_pl", "q_pl", "T_pl")
    homonyms = []
    allnames = {}
    for cn, c in CONST.items():
        for name in c["names"]:
            allnames[name] = cn
    for name, cn in sorted(allnames.items()):
        if name not in INV and name not in LUT:
            continue
        sym = INV.get(name, name)
        key = "C15[dual:%s]" % sym
        R.case(key + "/" + name, sample={"name": name, "unit": sym, "constant": cn})
        st, u = safe(Unit, name)
        if st == "exc":
            R.fail(key, "Unit(%r) raised %r" % (name, u))
            continue
        c = CONST[cn]
        if u.dimensions != dims_of(c["exps"]) and sym not in DUAL_LISTED:
            # a homonym (G: gauss / Newton's constant, hbar: hectobar / reduced Planck constant),
            # not a unit named after the constant
            homonyms.append("%s: unit %s [%s] / constant %s" % (name, sym, u.dimensions, cn))
            continue
        one = (1.0 * u).in_mks()
        ok = (u.dimensions == dims_of(c["exps"]) and close(u.base_value, c["si"])
              and close(float(one.value), c["si"]) and close(float(one.value), float(modns[name].in_mks().value)))
        if not ok:
            R.fail(key, "unit %s (as %r) is %r in SI, constant %s is %r (rel %.3g)"
                   % (sym, name, u.base_value, cn, c["si"], abs(u.base_value / c["si"] - 1)),
                   replay_script("a = (1.0*unyt.Unit(%r)).in_mks()\nb = getattr(unyt.physical_constants, %r).in_mks()\n"
                                 "print(a, b)\nsys.exit(1 if abs(float(a.value) - float(b.value)) > 1e-12*abs(float(b.value)) else 0)\n"
                                 % (name, name)))
    # every unit symbol that shares a name with a constant must have been visited
    if homonyms:
        R.notes.append("homonyms (unit and constant of different dimensions, not compared): " + "; ".join(homonyms))
    for sym in DUAL_LISTED:
        R.case("C15[dual-listed:%s]" % sym, nontrivial=False)
        if sym not in allnames or sym not in LUT:
            R.fail("C15[dual-listed:%s]" % sym, "%s is no longer both a unit and a constant" % sym)

    # ---- E. published values by uncertainty class (CODATA 2018 / IAU 2015 / NASA fact sheets)
    PUBLISHED = {   # name: (value, relative class)
        "me": (9.1093837015e-31, 1e-6), "mp": (1.67262192369e-27, 1e-6), "mh": (1.6735575e-27, 1e-3),
        "Na": (6.02214076e23 / LUT["mol"][0], 1e-6), "c": (299792458.0, 0.0),
        "σ_T": (6.6524587321e-29, 1e-6), "qp": (1.602176634e-19, 1e-6), "qe": (-1.602176634e-19, 1e-6),
        "kb": (1.380649e-23, 1e-5), "G": (6.67430e-11, 5e-4), "h": (6.62607015e-34, 1e-6),
        "hbar": (1.054571817e-34, 1e-6), "σ": (5.670374419e-8, 1e-5), "a": (7.565733e-16, 1e-5),
        "Tcmb": (2.7255, 1e-3), "Msun": (1.98841e30, 5e-4), "Mjup": (1.89813e27, 1e-3),
        "mercury_mass": (3.3011e23, 1e-3), "venus_mass": (4.8675e24, 1e-3), "Mearth": (5.9722e24, 1e-3),
        "mars_mass": (6.4171e23, 1e-3), "saturn_mass": (5.6834e26, 1e-3), "uranus_mass": (8.6813e25, 1e-3),
        "neptune_mass": (1.02413e26, 1e-3), "m_pl": (2.176434e-8, 1e-4), "l_pl": (1.616255e-35, 1e-4),
        "t_pl": (5.391247e-44, 1e-4), "E_pl": (1.956082e9, 1e-4), "q_pl": (1.875546e-18, 1e-4),
        "T_pl": (1.416784e32, 1e-4), "mu_0": (1.25663706212e-6, 1e-8), "eps_0": (8.8541878128e-12, 1e-8),
        "R_inf": (10973731.568160, 1e-6), "standard_gravity": (9.80665, 0.0),
    }
    for cn in CONST:
        key = "C15[published:%s]" % cn
        R.case(key)
        if cn not in PUBLISHED:
            R.fail(key, "no published value in the driver's table for constant %s" % cn)
            continue
        pv, cls = PUBLISHED[cn]
        if not close(V[cn], pv, max(cls, 1e-15)):
            R.fail(key, "%s = %r, published %r (rel %.3g, class %g)" % (cn, V[cn], pv, abs(V[cn] / pv - 1), cls),
                   replay_script("v = float(getattr(unyt.physical_constants, %r).in_mks().value)\nprint(v)\n"
                                 "sys.exit(1 if abs(v - %r) > %r * abs(%r) else 0)\n" % (cn, pv, max(cls, 1e-15), pv)))

    # ---- one long sequential history in this process (caches accumulate over all scenarios)
    order = list(SPECS)
    R.rng.shuffle(order)
    seq = [s for s in SPECS] + order
    env = {"unyt": unyt, "Unit": Unit, "UnitRegistry": UnitRegistry}
    for i, s in enumerate(seq):
        try:
            reg, ns, model = build(s, env)
        except Exception as e:  # noqa
            R.notes.append("sequential history: building %s raised %r" % (s, e))
            continue
        sp = SPECS[s]
        out = []
        check_namespace(ns, model, sp["sysname"], sp["sys_atoms"],
                        "long sequential history, scenario %s" % s,
                        lambda cn, suffix, s=s, sp=sp: sp["collapse"] or "C15[hist-sequential:%s:%s%s]" % (s, cn, suffix),
                        history_replay(seq[:i + 1]), out)
        absorb(R, out)
    # the imported constants are still what they were
    out = []
    check_namespace(vars(PCM), model0, "mks", SYSTEM_ATOMS["mks"], "unyt.physical_constants after all histories",
                    lambda cn, suffix: "C15[default-after:%s%s]" % (cn, suffix), default_replay, out)
    absorb(R, out)

    R.exhaustive = False
    R.finish()


if __name__ == "__main__":
    _R = make_run()
    try:
        main(_R)
    except SystemExit:
        raise
    except Exception as _e:   # noqa  (a driver error is a note, never a crash)
        import traceback
        _R.notes.append("driver error: %r %s" % (_e, traceback.format_exc()[-400:]))
        _R.finish()
