"""C03 bounded stand-in: unit conversion obeys identity, inverse and composition on every route.

Units: every symbol of the default table grouped by dimension, plus SI-prefixed variants (incl.
prefixed offset temperatures), lat/lon, CGS<->SI electromagnetic families and generated
compounds.  Laws are checked on the real package with tolerances derived from the scales and
offsets of the unit table (not from the code under test)."""
import itertools
import os
import sys
import zlib

sys.path.insert(0, os.path.dirname(os.path.abspath(__file__)))
from common import Run, replay_script  # noqa: E402

import numpy as np  # noqa: E402
import unyt  # noqa: E402
from unyt import Unit, unyt_array, unyt_quantity  # noqa: E402
from unyt._unit_lookup_table import default_unit_symbol_lut as LUT  # noqa: E402

R = Run("C03",
        "units = every symbol of the default table grouped by dimension + prefixed variants (mK, mdegC, kdegF, ...), lat/lon, "
        "CGS<->SI EM families (C/statC/esu, T/G, A/statA, V/statV, ohm/statohm with prefixes) and generated compounds (velocity, "
        "density, acceleration, force, energy, area, volume, heat capacity, angular rate); laws: identity A->A (exact), inverse "
        "A->B->A, composition A->B->C == A->C over all ordered pairs/triples of a group, route agreement (to, in_units, to_value, "
        "convert_to_units, get_conversion_factor by hand; in_base/in_cgs/in_mks and in-place twins against to(get_base_equivalent)) "
        "in numbers and resulting unit; data float64/float32/int64/complex128 (thorough + int32/complex64), scalar and array. "
        "Non-trivial = A, B (, C) distinct.",
        "quick: every pair of every group for all dtypes, every triple for float64 arrays and a 1/6 sample of triples for the other "
        "dtype/shape combinations; thorough: everything")

SEED = R.args.seed
seen = set()
skipped = {"not-convertible": 0, "overflow": 0}
RTOL = {"float64": 1e-12, "complex128": 1e-12, "int64": 1e-12, "int32": 64 * 1.2e-7, "float32": 64 * 1.2e-7, "complex64": 64 * 1.2e-7}
EFF = {"float64": "float64", "complex128": "float64", "int64": "float64", "int32": "float32", "float32": "float32", "complex64": "float32"}
DTYPES = ["float64", "float32", "int64", "complex128"] + (["int32", "complex64"] if R.thorough else [])
VALUES = {"f": [1.0, 2.5, -3.75], "i": [1, 2, -3], "c": [1 + 2j, -2.5 + 0.5j, 3 - 1j]}
KN = {"float64": "flt", "float32": "flt32", "int64": "int", "int32": "int32", "complex128": "cpx", "complex64": "cpx64"}

PRE = '''
def mk(vals, dt, unit, scalar):
    a = np.array(vals, dtype=dt)
    return unyt.unyt_quantity(a[0], unit) if scalar else unyt.unyt_array(a, unit)
def close(a, b, scale, rtol):
    a = np.atleast_1d(np.asarray(a)).astype(complex); b = np.atleast_1d(np.asarray(b)).astype(complex)
    return bool(np.all(np.abs(a - b) <= rtol * np.asarray(scale)))
'''
exec(PRE)


def h(*parts):
    return zlib.crc32("|".join(str(p) for p in parts).encode())


# ---------------------------------------------------------------------------- unit groups
def build_groups():
    by_dim = {}
    for k in LUT:
        try:
            u = Unit(k)
        except Exception:  # noqa
            continue
        by_dim.setdefault(u.dimensions, []).append(k)
    label = {"(length)": "length", "(mass)": "mass", "(time)": "time", "(temperature)": "temperature", "(angle)": "angle", "1": "dimensionless",
             "(length)**2*(mass)/(time)**2": "energy", "(length)**3": "volume", "(mass)/((length)*(time)**2)": "pressure",
             "(length)*(mass)/(time)**2": "force", "(length)**2*(mass)/(time)**3": "power", "(length)/(time)": "velocity",
             "(length)**2": "area", "(mass)/(time)**2": "surface-tension", "(angle)**2": "solid-angle", "(logarithmic)": "logarithmic",
             "1/(time)": "frequency"}
    extra = {
        "length": ["cm", "km", "nm", "kpc", "Mpc", "um"], "mass": ["kg", "mg", "kMsun"], "time": ["ms", "Myr", "ns"],
        "temperature": ["mK", "kK", "uK", "mdegC", "kdegC", "mdegF", "mR"], "energy": ["keV", "MJ", "kcal", "mJ", "kg*m**2/s**2", "N*m", "W*s", "dyn*cm"],
        "angle": ["mrad", "udegree"], "pressure": ["kPa", "mbar", "N/m**2", "dyn/cm**2", "lbf/inch**2"], "volume": ["m**3", "cm**3", "inch**3", "mL"],
        "area": ["m**2", "cm**2", "ft**2", "km**2"], "velocity": ["km/s", "m/s", "cm/s", "mile/hr", "ft/s", "pc/Myr", "AU/yr", "km/hr"],
        "force": ["kg*m/s**2", "g*cm/s**2", "lb*ft/s**2", "kN"], "power": ["kW", "erg/s", "J/s", "BTU/hr"], "frequency": ["1/s", "kHz", "1/day", "1/Myr"],
        "dimensionless": ["ppm" if "ppm" in LUT else "%"],
    }
    groups = {}
    for dim, names in by_dim.items():
        lab = label.get(str(dim), str(dim).replace(" ", ""))
        groups[lab] = list(names) + [n for n in extra.get(lab, []) if n not in names]
    for lab, names in extra.items():
        groups.setdefault(lab, names)
    groups["density"] = ["g/cm**3", "kg/m**3", "Msun/pc**3", "lb/ft**3", "amu/cm**3", "Mearth/AU**3", "oz/inch**3"]
    groups["acceleration"] = ["m/s**2", "cm/s**2", "ft/s**2", "km/s/Myr", "mile/hr/s"]
    groups["heat-capacity"] = ["J/K", "erg/K", "BTU/R", "cal/K", "eV/K", "kJ/mK"]
    groups["angular-rate"] = ["rad/s", "degree/s", "rpm", "rev/min", "arcsec/yr", "mas/yr"]
    groups["temperature-rate"] = ["K/s", "R/hr", "mK/ms", "delta_degC/min", "delta_degF/hr"]
    # CGS <-> SI electromagnetic families (members live in two dimension groups)
    groups["em-charge"] = ["C", "mC", "kC", "statC", "esu", "mstatC", "q_pl"]
    groups["em-field"] = ["T", "mT", "uT", "G", "gauss", "kG", "uG"]
    groups["em-current"] = ["A", "mA", "kA", "statA", "mstatA"]
    groups["em-potential"] = ["V", "kV", "mV", "statV", "kstatV"]
    groups["em-resistance"] = ["ohm", "kohm", "statohm", "mstatohm"]
    out = {}
    for lab, names in groups.items():
        us = []
        for n in names:
            try:
                us.append((n, Unit(n)))
            except Exception:  # noqa
                pass
        if len(us) >= 1:
            out[lab] = us
    return out


GROUPS = build_groups()
PREFIXES = tuple(unyt._unit_lookup_table.unit_prefixes)


def uclass(group, *units):
    if group.startswith("em-"):
        return "em"
    cls = "plain"
    for n, u in units:
        if u.base_offset:
            base = n in LUT
            cls = "offset" if (base and cls != "prefixed-offset") else "prefixed-offset"
    if cls == "plain" and any(not u.is_atomic for _, u in units):
        cls = "compound"
    return cls


def offs_si(units):
    """magnitude (in SI) of the zero-point offsets involved: temperatures < 512 K, angles < 4 rad"""
    for _, u in units:
        if u.base_offset:
            return 512.0 if u.dimensions == unyt.dimensions.temperature else 4.0
    return 0.0


def finite_ok(*arrs):
    for a in arrs:
        b = np.atleast_1d(np.asarray(a))
        if b.dtype.kind not in "fc":
            continue
        if not np.all(np.isfinite(b)) or np.any(b == 0):
            return False        # overflow, or underflow to zero (all inputs are non-zero)
        fi = np.finfo(b.dtype)
        nz = np.abs(b[b != 0])
        if nz.size and (nz.min() < float(fi.tiny) / float(fi.eps) or nz.max() > float(fi.max) * float(fi.eps)):
            return False
    return True


def fail(key, what, body):
    if key in seen:
        return
    seen.add(key)
    R.fail(key, what, replay_script(PRE + body))


def conv(q, u):
    """q.to(u) -> ('ok', result) | ('exc', e)"""
    try:
        with np.errstate(all="ignore"):
            return "ok", q.to(u)
    except Exception as e:  # noqa
        return "exc", e


def mkq(dt, name, scalar):
    vals = VALUES[np.dtype(dt).kind if np.dtype(dt).kind != "u" else "i"]
    return mk(vals, dt, name, scalar), vals


def rscale(x, sA, sT, off):
    """tolerance scale (in units T) for a value that was computed from x (units A): |x| sA/sT + offsets"""
    return np.abs(np.atleast_1d(np.asarray(x)).astype(complex)) * (sA / sT) + off / sT


def em_scale(group, A, B):
    """base_value ratios are meaningless across the CGS/SI EM boundary: use the actual magnitudes"""
    return group.startswith("em-") and A[1].dimensions != B[1].dimensions


# ---------------------------------------------------------------------------- the laws
def check_pairs(group, units, dt, scalar):
    kn = KN[dt]
    rtol = RTOL[dt]
    for A in units:
        nA, uA = A
        x, vals = mkq(dt, nA, scalar)
        xb = np.asarray(x)
        mkx = "x = mk(%r, %r, %r, %r)\n" % (vals, dt, nA, scalar)
        # identity
        key = "C03[identity:%s:%s:%s]" % (group, uclass(group, A), kn)
        R.case(key + nA, nontrivial=False)
        st, r = conv(x, uA)
        if st == "ok":
            if not np.array_equal(np.asarray(r), xb):
                fail(key, "%s %s .to(%s) = %s" % (vals, nA, nA, np.asarray(r)), mkx + "r = x.to(%r)\nprint(r)\nsys.exit(0 if np.array_equal(np.asarray(r), np.asarray(x)) else 1)\n" % nA)
            if not (r.units == uA):
                fail(key + ":unit", "x.to(%s) has unit %s" % (nA, r.units), mkx + "sys.exit(0 if x.to(%r).units == unyt.Unit(%r) else 1)\n" % (nA, nA))
            st2, r2 = conv(x, nA)
            if st2 != "ok" or not np.array_equal(np.asarray(r2), xb):
                fail(key + ":string", "x.to('%s') (string) = %r" % (nA, r2), mkx + "r = x.to(%r)\nsys.exit(0 if np.array_equal(np.asarray(r), np.asarray(x)) else 1)\n" % nA)
        for B in units:
            nB, uB = B
            if nB == nA:
                continue
            cls = uclass(group, A, B)
            st, y = conv(x, uB)
            if st != "ok":
                skipped["not-convertible"] += 1
                continue
            yb = np.asarray(y)
            sA, sB = abs(float(uA.base_value)), abs(float(uB.base_value))
            off = offs_si((A, B))
            cross = em_scale(group, A, B)
            # ---- inverse
            key = "C03[inverse:%s:%s:%s]" % (group, cls, kn)
            R.case(key + nA + ">" + nB, nontrivial=True, sample={"law": "inverse", "A": nA, "B": nB, "dtype": dt} if R.evaluations % 5003 == 0 else None)
            st2, xr = conv(y, uA)
            if st2 != "ok":
                fail("C03[inverse:%s:%s:raises]" % (group, cls), "%s -> %s works but the way back raises %r" % (nA, nB, xr),
                     mkx + "y = x.to(%r)\ntry:\n    y.to(%r)\nexcept Exception as e:\n    print(repr(e)); sys.exit(1)\n" % (nB, nA))
            elif finite_ok(yb, xr):
                scale = np.abs(np.atleast_1d(xb).astype(complex)) + (0 if cross else off / sA)
                if not close(xr, xb, scale, rtol):
                    fail(key, "%s %s -> %s -> %s gives %s (intermediate %s)" % (vals, nA, nB, nA, np.asarray(xr), yb),
                         mkx + "r = x.to(%r).to(%r)\nprint(r)\nsys.exit(0 if close(r, x, np.abs(np.atleast_1d(np.asarray(x)).astype(complex)) + %r, %r) else 1)\n" % (
                             nB, nA, 0 if cross else off / sA, rtol))
            else:
                skipped["overflow"] += 1
            # ---- routes
            key = "C03[routes:%s:%s:%s]" % (group, cls, kn)
            R.case(key + nA + ">" + nB, nontrivial=True)
            if not finite_ok(yb):
                skipped["overflow"] += 1
                continue
            yscale = np.abs(np.atleast_1d(yb).astype(complex)) + (0 if cross else off / sB)
            rt = 8 * float(np.finfo(yb.dtype if yb.dtype.kind in "fc" else np.dtype("float64")).eps)
            routes = []
            for rname, code in (("in_units", "r = x.in_units(U)"), ("to-string", "r = x.to(%r)" % nB), ("to_value", "r = x.to_value(U)"),
                                ("to_value-string", "r = x.to_value(%r)" % nB),
                                ("convert_to_units", "r = x.copy(); r.convert_to_units(U)"),
                                ("convert_to_units-string", "r = x.copy(); r.convert_to_units(%r)" % nB),
                                ("by-hand", "f, o = x.units.get_conversion_factor(U, x.dtype); r = np.asarray(x) * f - (o or 0)")):
                env = {"x": x, "U": uB, "np": np}
                try:
                    with np.errstate(all="ignore"):
                        exec(code, env)
                except Exception as e:  # noqa
                    if rname == "by-hand" and cross:
                        continue      # get_conversion_factor is not defined across the CGS/SI boundary
                    if rname.startswith("to_value") and scalar and np.dtype(dt).kind == "c":
                        fail("C03[routes:to_value:complex-scalar:raises]", "x.to(%s) works on a complex128 quantity in %s but `%s` raises %r" % (nB, nA, code, e),
                             mkx + "U = unyt.Unit(%r)\nx.to(U)\ntry:\n    %s\nexcept Exception as e:\n    print(repr(e)); sys.exit(1)\n" % (nB, code))
                        continue
                    fail(key + ":" + rname + ":raises", "x.to(%s) works on %s %s but `%s` raises %r" % (nB, dt, nA, code, e),
                         mkx + "U = unyt.Unit(%r)\nx.to(U)\ntry:\n    %s\nexcept Exception as e:\n    print(repr(e)); sys.exit(1)\n" % (nB, code.replace("; ", "\n    ")))
                    continue
                r = env["r"]
                rb = np.asarray(r)
                if not finite_ok(rb):
                    skipped["overflow"] += 1
                    continue
                if rname == "by-hand" and yb.dtype.kind in "fc" and rb.dtype != yb.dtype:
                    rb = rb.astype(yb.dtype)
                routes.append(rname)
                if rname == "by-hand" and xb.dtype.kind in "iu":
                    pass
                if not close(rb, yb, yscale, rt if rname != "by-hand" or xb.dtype.kind not in "iu" else max(rt, rtol)):
                    fail(key + ":" + rname, "%s %s: to(%s) = %s but `%s` gives %s" % (vals, nA, nB, yb, code, rb),
                         mkx + "U = unyt.Unit(%r)\ny = x.to(U)\n%s\nprint(y, r)\nsys.exit(0 if close(r, y, np.abs(np.atleast_1d(np.asarray(y)).astype(complex)) + %r, %r) else 1)\n" % (
                             nB, code.replace("; ", "\n"), 0 if cross else off / sB, max(rt, rtol) if rname == "by-hand" else rt))
                if hasattr(r, "units") and rname != "by-hand":
                    if not (r.units == y.units) or r.units.expr != y.units.expr:
                        fail(key + ":" + rname + ":unit", "to(%s) has unit %s but `%s` leaves unit %s" % (nB, y.units, code, r.units),
                             mkx + "U = unyt.Unit(%r)\ny = x.to(U)\n%s\nprint(y.units, r.units)\nsys.exit(0 if r.units == y.units and r.units.expr == y.units.expr else 1)\n" % (
                                 nB, code.replace("; ", "\n")))
            if not (y.units == uB) or (not cross and y.units.expr != uB.expr):
                fail(key + ":to:unit", "x.to(%s) has unit %s" % (nB, y.units), mkx + "y = x.to(unyt.Unit(%r))\nprint(y.units)\nsys.exit(0 if y.units == unyt.Unit(%r) and y.units.expr == unyt.Unit(%r).expr else 1)\n" % (nB, nB, nB))


# witnesses of known families, always evaluated (the seeded 1/6 sample of the quick tier would find them only for some seeds)
PINNED = {("quad", "cal", "foe"), ("quad", "kg*m**2/s**2", "bethe"), ("quad", "BTU", "foe"), ("C", "q_pl", "statC"), ("K", "mdegC", "degF"),
          ("degF", "mK", "degC"), ("lat", "rad", "lon"), ("statC", "C", "mC"), ("G", "T", "mT")}


def check_triples(group, units, dt, scalar, stride):
    kn = KN[dt]
    rtol = RTOL[dt]
    cache = {}
    for A in units:
        x, vals = mkq(dt, A[0], scalar)
        for B in units:
            if B[0] == A[0]:
                continue
            st, y = conv(x, B[1])
            if st != "ok" or not finite_ok(y):
                continue
            for C in units:
                if C[0] in (A[0], B[0]):
                    continue
                if stride > 1 and h(SEED, group, A[0], B[0], C[0], dt, scalar) % stride and (A[0], B[0], C[0]) not in PINNED:
                    continue
                ck = (A[0], C[0])
                if ck not in cache:
                    cache[ck] = conv(x, C[1])
                st2, z2 = cache[ck]
                st1, z1 = conv(y, C[1])
                cls = uclass(group, A, B, C)
                key = "C03[composition:%s:%s:%s]" % (group, cls, kn)
                R.case(key + ">".join((A[0], B[0], C[0])), nontrivial=True,
                       sample={"law": "composition", "A": A[0], "B": B[0], "C": C[0], "dtype": dt} if R.evaluations % 20011 == 0 else None)
                if st1 != "ok" or st2 != "ok":
                    if st1 != st2:
                        fail("C03[composition:%s:%s:raise-asymmetry]" % (group, cls), "%s->%s->%s %s but %s->%s %s" % (A[0], B[0], C[0], "works" if st1 == "ok" else "raises %r" % (z1,),
                                                                                     A[0], C[0], "works" if st2 == "ok" else "raises %r" % (z2,)),
                             "x = mk(%r, %r, %r, %r)\ndef ok(f):\n    try:\n        f(); return True\n    except Exception as e:\n        print(repr(e)); return False\n"
                             "a = ok(lambda: x.to(%r).to(%r)); b = ok(lambda: x.to(%r))\nsys.exit(1 if a != b else 0)\n" % (vals, dt, A[0], scalar, B[0], C[0], C[0]))
                    else:
                        skipped["not-convertible"] += 1
                    continue
                if not finite_ok(z1, z2):
                    skipped["overflow"] += 1
                    continue
                sC = abs(float(C[1].base_value))
                cross = group.startswith("em-")
                off = 0 if cross else offs_si((A, B, C)) / sC
                scale = np.maximum(np.abs(np.atleast_1d(np.asarray(z2)).astype(complex)), np.abs(np.atleast_1d(np.asarray(z1)).astype(complex))) + off
                if not close(z1, z2, scale, rtol):
                    fail(key, "%s %s: ->%s->%s = %s but ->%s = %s" % (vals, A[0], B[0], C[0], np.asarray(z1), C[0], np.asarray(z2)),
                         "x = mk(%r, %r, %r, %r)\nz1 = x.to(%r).to(%r); z2 = x.to(%r)\nprint(z1, z2)\n"
                         "sc = np.maximum(np.abs(np.atleast_1d(np.asarray(z1)).astype(complex)), np.abs(np.atleast_1d(np.asarray(z2)).astype(complex))) + %r\n"
                         "sys.exit(0 if close(z1, z2, sc, %r) else 1)\n" % (vals, dt, A[0], scalar, B[0], C[0], C[0], off, rtol))


SYSTEMS = ["mks", "cgs"] + (["imperial", "galactic", "solar", "geometrized", "planck"] if R.thorough else ["imperial"])


def check_base(group, units, dt, scalar):
    kn = KN[dt]
    for A in units:
        nA, uA = A
        x, vals = mkq(dt, nA, scalar)
        mkx = "x = mk(%r, %r, %r, %r)\n" % (vals, dt, nA, scalar)
        for system in SYSTEMS:
            cls = uclass(group, A)
            key = "C03[base-routes:%s:%s:%s:%s]" % (system, group, cls, kn)
            R.case(key + nA, nontrivial=True)
            try:
                with np.errstate(all="ignore"):
                    ref = x.in_base(system)
            except Exception:  # noqa   irreducible in this system
                skipped["not-convertible"] += 1
                continue
            rb = np.asarray(ref)
            if not finite_ok(rb):
                skipped["overflow"] += 1
                continue
            routes = [("to(get_base_equivalent)", "r = x.to(x.units.get_base_equivalent(%r))" % system),
                      ("convert_to_base", "r = x.copy(); r.convert_to_base(%r)" % system),
                      ("convert_to_units(get_base_equivalent)", "r = x.copy(); r.convert_to_units(x.units.get_base_equivalent(%r))" % system),
                      ]
            if system == "mks":
                routes += [("in_mks", "r = x.in_mks()"), ("convert_to_mks", "r = x.copy(); r.convert_to_mks()"), ("in_base-default", "r = x.in_base()"),
                           ("convert_to_base-default", "r = x.copy(); r.convert_to_base()")]
            if system == "cgs":
                routes += [("in_cgs", "r = x.in_cgs()"), ("convert_to_cgs", "r = x.copy(); r.convert_to_cgs()")]
            off = offs_si((A,))
            tu = ref.units
            scale = np.abs(np.atleast_1d(rb).astype(complex)) + (off / abs(float(tu.base_value)) if not group.startswith("em-") else 0)
            rt = max(8 * float(np.finfo(rb.dtype if rb.dtype.kind in "fc" else np.dtype("float64")).eps), 8 * float(np.finfo(np.dtype(EFF[dt])).eps))
            for rname, code in routes:
                env = {"x": x, "np": np}
                try:
                    with np.errstate(all="ignore"):
                        exec(code, env)
                except Exception as e:  # noqa
                    fail(key + ":" + rname + ":raises", "x.in_base(%r) works on %s %s but `%s` raises %r" % (system, dt, nA, code, e),
                         mkx + "x.in_base(%r)\ntry:\n    %s\nexcept Exception as e:\n    print(repr(e)); sys.exit(1)\n" % (system, code.replace("; ", "\n    ")))
                    continue
                r = env["r"]
                if not finite_ok(np.asarray(r)):
                    skipped["overflow"] += 1
                    continue
                if not close(np.asarray(r), rb, scale, rt):
                    fail(key + ":" + rname, "%s %s: in_base(%r) = %s %s but `%s` gives %s %s" % (vals, nA, system, rb, tu, code, np.asarray(r), r.units),
                         mkx + "y = x.in_base(%r)\n%s\nprint(y, r)\nsys.exit(0 if close(r, y, np.abs(np.atleast_1d(np.asarray(y)).astype(complex)) + %r, %r) else 1)\n" % (
                             system, code.replace("; ", "\n"), float(np.max(scale - np.abs(np.atleast_1d(rb).astype(complex))).real), rt))
                if not (r.units == tu) or r.units.dimensions != tu.dimensions:
                    fail(key + ":" + rname + ":unit", "in_base(%r) of %s has unit %s but `%s` leaves %s" % (system, nA, tu, code, r.units),
                         mkx + "y = x.in_base(%r)\n%s\nprint(y.units, r.units)\nsys.exit(0 if r.units == y.units else 1)\n" % (system, code.replace("; ", "\n")))


def main():
    order = sorted(GROUPS)
    total_units = sum(len(v) for v in GROUPS.values())
    R.notes.append("%d groups, %d units: %s" % (len(order), total_units, ", ".join("%s(%d)" % (g, len(GROUPS[g])) for g in order)))
    for group in order:
        units = GROUPS[group]
        for dt in DTYPES:
            for scalar in (False, True):
                try:
                    check_pairs(group, units, dt, scalar)
                    if not group.startswith("em-") or True:
                        check_base(group, units, dt, scalar)
                    full = R.thorough or (dt == "float64" and not scalar)
                    check_triples(group, units, dt, scalar, 1 if full else 6)
                except Exception as e:  # noqa
                    import traceback
                    R.notes.append("driver error in %s/%s: %r %s" % (group, dt, e, traceback.format_exc()[-500:]))
    R.notes.append("skipped: %r" % skipped)


main()
R.finish()
