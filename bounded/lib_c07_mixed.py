"""C07, mixed configurations: call templates of the shared catalogue that take two or more
array arguments (quantity slots with ndim >= 1) are also evaluated with every non-empty proper
subset of those slots BARE (a plain ndarray, and the same data as a nested python list), the other
slots staying quantities.  At least one array argument always keeps its units.  Besides the seeded
data every configuration is also run with the bare slots holding the same numbers as a quantity
slot of equal shape (deterministic adversarial data for comparisons / searches / merges).

Two relations are checked; neither needs a per-function expectation:

  (cov)  unit covariance with the bare slots held fixed: a bare argument carries no unit, so it is
         not re-expressed (it counts as dimensionless); re-expressing the remaining quantity slots
         must change the result only by re-expression (same machinery and aspects as the
         all-quantity section: H_run07).  A function that merges values (concatenate / where / clip /
         insert / searchsorted / set operations ...) cannot be covariant if it accepts bare +
         dimensionful data, so for those the relation holds exactly when the call is refused (or the
         other operand is dimensionless) - which is what unyt documents
         (`_validate_units_consistency`: a bare array counts as dimensionless).
  (bdl)  bare == dimensionless (ndarray form only): the same call with the bare slots replaced by
         explicitly dimensionless unyt arrays of the same numbers must give the same quantity (a
         unit-less leaf is read as dimensionless: some handlers deliberately do not wrap a result
         when nothing carried units), and when unyt refuses the dimensionless form with a unit
         error it must not accept the bare form.  Aspects `bdl-dims`, `bdl-value`, `bdl-structure`,
         `bdl-raise`.  (The converse - bare refused, dimensionless accepted - is a refusal and
         therefore no statement; a call that writes into a bare slot is not judged either: a bare
         destination cannot carry units, that is C06's business.)

0-d slots (scalar parameters: initial=, left=/right=, period=, constant_values=, fill values, range
ends, tolerances, dx) are not varied: a bare *number* there is documented to be read in the
array's unit, which the `bare-scalar` / `*-bare` templates of the catalogue cover (findings section
D).  The receiver of an ndarray method template stays a quantity (a method of a bare ndarray is not
unyt's).  out= buffers (slot O) are not touched."""
import inspect
import itertools
import re

import numpy as np

from lib_c06_harness import H_arr, H_close, H_env, H_eps, H_eval, H_leaves, H_same, parse_spec, replay_source  # noqa: F401

QDIMS = "LTMA1"
_STR = r"'[^'\\]*'|\"[^\"\\]*\""


def quantity_slots(c):
    """array arguments that carry units: quantity slots with ndim >= 1 (not the out= buffer)"""
    return [n for n, (d, s) in c.slots.items()
            if d in QDIMS and n != "O" and not s.startswith("@") and len(parse_spec(s)[1]) >= 1]


def receiver_slots(c):
    """slots used as `X.method(...)`, `X[...]`, `(X % ...)` in a method template"""
    if not c.fname.startswith("ndarray."):
        return []
    return [n for n in c.slots if re.search(r"\b%s\s*(\.|\[|%%)" % n, c.expr)]


def bare_subsets(c):
    """non-empty subsets of the quantity slots that leave at least one quantity slot"""
    q = quantity_slots(c)
    if len(q) < 2:
        return []
    rec = receiver_slots(c)
    if c.fname.startswith("ndarray.") and not [n for n in rec if n in q]:
        return []       # method of an array that is bare already (ndarray.choose of a bare index array)
    el = [n for n in q if n not in rec]
    out = []
    for k in range(1, len(el) + 1):
        for s in itertools.combinations(el, k):
            if len(s) < len(q):
                out.append(s)
    return out


def listify(expr, names):
    """replace the slot names (outside string literals) by NAME.tolist()"""
    if not names:
        return expr
    pat = re.compile(r"(%s)|\b(%s)\b" % (_STR, "|".join(names)))
    return pat.sub(lambda m: m.group(1) if m.group(1) else m.group(2) + ".tolist()", expr)


def aligned(sdm, bare):
    """coinciding numbers: every bare slot that has a quantity partner of the same dtype and shape gets the
    partner's numbers (the adversarial data for comparisons, searches and merges: when units are ignored
    the numbers agree in one unit system and in no other).  -> slotdefs or None when nothing can be aligned"""
    out = dict(sdm)
    done = False
    for n in bare:
        for m, v in sdm.items():
            if m != n and m != "O" and v[0] in "LTMA" and v[1:3] == sdm[n][1:3]:
                out[n] = ("-",) + tuple(v[1:])
                done = True
                break
    return out if done else None


def mixed_configs(c, sd):
    """-> [(bare slot tuple, form, slotdefs with the bare slots' dimension set to '-', expression)]; form is
    ndarray | list | same-numbers (ndarray form on `aligned` data)"""
    out = []
    for s in bare_subsets(c):
        sdm = dict(sd)
        for n in s:
            sdm[n] = ("-",) + tuple(sd[n][1:])
        out.append((s, "ndarray", sdm, c.expr))
        out.append((s, "list", sdm, listify(c.expr, s)))
        sda = aligned(sdm, s)
        if sda is not None:
            out.append((s, "same-numbers", sda, c.expr))
    return out


# ----------------------------------------------------------------------------- embedded in replays
def M_unit_of(x):
    from unyt import unyt_array
    return x.units if isinstance(x, unyt_array) else None


def M_cmp(rm, rd, tol=1e-9):
    """result with bare slots vs result with explicitly dimensionless slots -> [(aspect, message)]"""
    lm, ld = H_leaves(rm), H_leaves(rd)
    if [p for p, _ in lm] != [p for p, _ in ld]:
        return [("bdl-structure", "result structure %s with bare arguments vs %s with dimensionless ones" % (
            [p for p, _ in lm][:8], [p for p, _ in ld][:8]))]
    out = []
    for (p, x), (_, y) in zip(lm, ld):
        ax, vx = H_arr(x)
        ay, vy = H_arr(y)
        if ax != ay:
            out.append(("bdl-structure", "%s: %s vs %s" % (p, type(x).__name__, type(y).__name__)))
            continue
        if not ax:
            continue
        if vx.shape != vy.shape:
            out.append(("bdl-structure", "%s: shape %s vs %s" % (p, vx.shape, vy.shape)))
            continue
        ux, uy = M_unit_of(x), M_unit_of(y)
        dx = ux.dimensions if ux is not None else 1
        dy = uy.dimensions if uy is not None else 1
        if dx != dy:
            out.append(("bdl-dims", "%s: units %s with bare arguments, %s when the same numbers are dimensionless quantities" % (
                p, ux if ux is not None else "none (bare %s)" % type(x).__name__, uy if uy is not None else "none (bare %s)" % type(y).__name__)))
            continue
        fx = float(ux.base_value) if ux is not None else 1.0
        fy = float(uy.base_value) if uy is not None else 1.0
        if vx.dtype.kind in "biu" and vy.dtype.kind in "biu" and fx == fy:
            wx, wy = vx, vy
        else:
            wx = (vx if vx.dtype.kind in "fc" else vx.astype("float64")) * fx
            wy = (vy if vy.dtype.kind in "fc" else vy.astype("float64")) * fy
        eps = H_eps(vx, vy)
        if H_close(np.asarray(wx), np.asarray(wy), False, max(tol, 64 * eps), eps) != "same":
            out.append(("bdl-value", "%s: %s %s with bare arguments vs %s %s with dimensionless ones" % (
                p, np.array2string(vx.ravel()[:6]), ux, np.array2string(vy.ravel()[:6]), uy)))
    return out


def M_run(sd, expr_mixed, expr_dl, bare, sysname, tol=1e-9):
    """sd: slotdefs in which the slots `bare` have dimension '-'.  -> (status, findings), status in
    ok | raises"""
    sdd = dict(sd)
    for n in bare:
        sdd[n] = ("1",) + tuple(sd[n][1:])
    em, ed = H_env(sd, sysname), H_env(sdd, sysname)
    before = dict((n, np.array(em[n])) for n in bare)
    with np.errstate(all="ignore"):
        sm, rm = H_eval(expr_mixed, em)
        s1, rd = H_eval(expr_dl, ed)
    if [n for n in bare if not H_same(before[n], np.asarray(em[n]))]:
        # the call wrote into a bare slot: a bare destination cannot carry units (C06's business)
        return "raises", [("info", "a bare slot is the destination of the call")]
    if sm == "exc" and s1 == "exc":
        return "raises", [("info", "%s: %s" % (type(rm).__name__, str(rm)[:160]))]
    if sm == "exc":
        return "raises", [("info", "bare form refused: %s: %s" % (type(rm).__name__, str(rm)[:160]))]
    if s1 == "exc":
        if not (type(rd).__module__.startswith("unyt") and type(rd).__name__ in (
                "UnitInconsistencyError", "UnitConversionError", "UnitOperationError", "InvalidUnitOperation",
                "IterableUnitCoercionError", "UnitsNotReducible")):
            return "raises", [("info", "dimensionless form fails for another reason: %r" % (rd,))]
        return "ok", [("bdl-raise", "with bare %s -> %s, with the same numbers as dimensionless quantities -> %s" % (
            "/".join(bare), repr(rm)[:150] if sm == "exc" else "a result", repr(rd)[:150] if s1 == "exc" else "a result"))]
    try:
        return "ok", M_cmp(rm, rd, tol)
    except Exception as ex:
        return "ok", [("broken-result", "inspecting the result failed: %r" % (ex,))]


M_FUNCS = [M_unit_of, M_cmp, M_run]


# ----------------------------------------------------------------------------- replays
def replay_cov(sd, expr, s0, s1, keep, tol, nocov, aspect):
    body = [
        "st, found = H_run07(SD, EXPR, %r, %r, keep=%r, tol=%r, nocov=%r)" % (s0, s1, keep, tol, nocov),
        "print(st)",
        "for a, m in found: print(a, '|', m)",
        "sys.exit(1 if st == 'ok' and %r in [a for a, _ in found] else 0)" % aspect,
    ]
    return replay_source(body, sd, expr)


def replay_bdl(sd, expr_mixed, expr_dl, bare, sysname, tol, aspect):
    body = [inspect.getsource(f) for f in M_FUNCS] + [
        "st, found = M_run(SD, EXPR, %r, %r, %r, tol=%r)" % (expr_dl, tuple(bare), sysname, tol),
        "print(st)",
        "for a, m in found: print(a, '|', m)",
        "sys.exit(1 if st == 'ok' and %r in [a for a, _ in found] else 0)" % aspect,
    ]
    return replay_source(body, sd, expr_mixed)
