"""catalogue part 1: reductions, statistics, cumulative functions"""
from lib_c06_catalogue import T, ANY, D2, D1, R2, R1

MASK2 = "-:b2"

# ---- sum-like: (a, axis, dtype, out, keepdims, initial, where)
for fn, init in (("sum", "0"), ("nansum", "0")):
    a = "L:" + (ANY if fn == "sum" else "f1~|f2~|f2|i2|c2|f0")
    T("np." + fn, {
        "pos": "np.%s(A)" % fn,
        "axis": ("np.%s(A, 1)" % fn, {"A": "L:" + D2}),
        "axis-neg-keepdims": ("np.%s(A, axis=-2, keepdims=True)" % fn, {"A": "L:" + D2 + "|f3"}),
        "axis-tuple": ("np.%s(A, axis=(0, 2))" % fn, {"A": "L:f3|i3"}),
        "dtype": ("np.%s(A, axis=0, dtype=np.float32)" % fn, {"A": "L:f2|i2"}),
        "dtype-pos": ("np.%s(A, None, np.complex128)" % fn, {"A": "L:f2|i1"}),
        "out": ("np.%s(A, axis=0, out=O)" % fn, {"A": "L:f2|i2|c2"}),
        "where": ("np.%s(A, axis=1, where=K, initial=%s)" % (fn, init), {"A": "L:f2|i2"}),
        "where-empty-row": ("np.%s(A, axis=1, where=np.array([[True, True, False, True], [False, False, False, False], [True, False, True, False]]), initial=%s)" % (fn, init), {"A": "L:f2"}),
        "initial": ("np.%s(A, axis=1, initial=I)" % fn, {"A": "L:f2", "I": "L:f0"}),
    }, keep="A", A=a, K=MASK2)

for fn in ("prod", "nanprod"):
    T("np." + fn, {
        "pos": "np.%s(A)" % fn,
        "axis": ("np.%s(A, 1)" % fn, {"A": "L:" + D2}),
        "axis-keepdims": ("np.%s(A, axis=0, keepdims=True)" % fn, {"A": "L:" + D2 + "|f3"}),
        "dtype": ("np.%s(A, axis=0, dtype=np.float32)" % fn, {"A": "L:f2|i2"}),
        "out": ("np.%s(A, axis=0, out=O)" % fn, {"A": "L:f2|c2"}),
        "where": ("np.%s(A, axis=1, where=K, initial=1)" % fn, {"A": "L:f2"}),
    }, A="L:f1|f2|i1|c2|f0|g2|fo" + ("|f2~" if fn == "nanprod" else ""), K=MASK2)

# ---- max/min-like: (a, axis, out, keepdims, initial, where)
for fn in ("max", "min", "amax", "amin", "nanmax", "nanmin"):
    a = "L:f1|f2|i2|f0|g2|k1|h1" + ("|f2~" if fn.startswith("nan") else "")
    T("np." + fn, {
        "pos": "np.%s(A)" % fn,
        "axis": ("np.%s(A, 1)" % fn, {"A": "L:" + R2}),
        "axis-keepdims": ("np.%s(A, axis=0, keepdims=True)" % fn, {"A": "L:" + R2 + "|f3"}),
        "out": ("np.%s(A, axis=0, out=O)" % fn, {"A": "L:f2|i2"}),
        "where": ("np.%s(A, axis=1, where=K, initial=I)" % fn, {"A": "L:f2", "I": "L:f0"}),
        "initial": ("np.%s(A, axis=0, initial=I)" % fn, {"A": "L:f2", "I": "L:f0"}),
        "where-empty-row": ("np.%s(A, axis=1, where=np.array([[True, True, False, True], [False, False, False, False], [True, False, True, False]]), initial=I)" % fn, {"A": "L:f2", "I": "L:f0"}),
    }, keep="A", A=a, K=MASK2)

T("np.ptp", {
    "pos": "np.ptp(A)",
    "axis": ("np.ptp(A, 1)", {"A": "L:" + R2}),
    "axis-keepdims": ("np.ptp(A, axis=0, keepdims=True)", {"A": "L:" + R2}),
    "out": ("np.ptp(A, axis=0, out=O)", {"A": "L:f2|i2"}),
}, keep="A", A="L:f1|f2|i2|f0|g2")

# ---- mean-like: (a, axis, dtype, out, keepdims, where)
for fn in ("mean", "nanmean"):
    T("np." + fn, {
        "pos": "np.%s(A)" % fn,
        "axis": ("np.%s(A, 1)" % fn, {"A": "L:" + D2}),
        "axis-keepdims": ("np.%s(A, axis=0, keepdims=True)" % fn, {"A": "L:" + D2}),
        "dtype": ("np.%s(A, axis=0, dtype=np.float32)" % fn, {"A": "L:f2|i2"}),
        "out": ("np.%s(A, axis=0, out=O)" % fn, {"A": "L:f2|c2"}),
        "where": ("np.%s(A, axis=1, where=K)" % fn, {"A": "L:f2|i2"}),
    }, keep="A", A="L:f1|f2|i2|c2|f0|g2" + ("|f2~" if fn == "nanmean" else ""), K=MASK2)

# ---- std/var: (a, axis, dtype, out, ddof, keepdims, where, mean, correction)
for fn in ("std", "var", "nanstd", "nanvar"):
    T("np." + fn, {
        "pos": "np.%s(A)" % fn,
        "axis": ("np.%s(A, 1)" % fn, {"A": "L:" + D2}),
        "axis-keepdims": ("np.%s(A, axis=0, keepdims=True)" % fn, {"A": "L:" + D2}),
        "dtype": ("np.%s(A, axis=0, dtype=np.float32)" % fn, {"A": "L:f2|i2"}),
        "ddof": ("np.%s(A, axis=1, ddof=1)" % fn, {"A": "L:f2|i2"}),
        "ddof-pos": ("np.%s(A, 1, None, None, 2)" % fn, {"A": "L:f2"}),
        "correction": ("np.%s(A, axis=1, correction=1)" % fn, {"A": "L:f2"}),
        "out": ("np.%s(A, axis=0, out=O)" % fn, {"A": "L:f2"}),
        "where": ("np.%s(A, axis=1, where=K)" % fn, {"A": "L:f2"}),
        "mean": ("np.%s(A, axis=1, mean=np.mean(A, axis=1, keepdims=True))" % fn, {"A": "L:f2"}),
    }, keep=("A" if "std" in fn else None), A="L:f1|f2|i2|c2|f0|g2" + ("|f2~" if fn.startswith("nan") else ""), K=MASK2)

for fn in ("median", "nanmedian"):
    T("np." + fn, {
        "pos": "np.%s(A)" % fn,
        "axis": ("np.%s(A, 1)" % fn, {"A": "L:" + R2}),
        "axis-keepdims": ("np.%s(A, axis=0, keepdims=True)" % fn, {"A": "L:" + R2}),
        "out": ("np.%s(A, axis=0, out=O)" % fn, {"A": "L:f2"}),
        "overwrite": ("np.%s(A, axis=0, overwrite_input=True)" % fn, {"A": "L:f2"}),
    }, keep="A", A="L:f1|f2|i2|f0|g2|f6" + ("|f2~" if fn == "nanmedian" else ""))

T("np.average", {
    "pos": "np.average(A)",
    "axis": ("np.average(A, 1)", {"A": "L:" + D2}),
    "weights-bare": ("np.average(A, axis=1, weights=W)", {"A": "L:f2|i2", "W": "-:f[4]+"}),
    "weights-qty": ("np.average(A, axis=1, weights=W)", {"A": "L:f2|i2", "W": "T:f[4]+"}),
    "weights-full": ("np.average(A, weights=W)", {"A": "L:f2", "W": "T:f2+"}),
    "returned": ("np.average(A, axis=0, weights=W, returned=True)", {"A": "L:f2", "W": "T:f[3]+"}, "A@0"),
    "keepdims": ("np.average(A, axis=0, keepdims=True)", {"A": "L:f2"}),
}, keep="A", A="L:f1|f2|i2|c2|f0|g2")

# ---- quantiles: (a, q, axis, out, overwrite_input, method, keepdims, weights)
for fn, q in (("percentile", "40"), ("quantile", "0.4"), ("nanpercentile", "40"), ("nanquantile", "0.4")):
    q2 = "[25, 50]" if "perc" in fn else "[0.25, 0.5]"
    T("np." + fn, {
        "pos": "np.%s(A, %s)" % (fn, q),
        "q-list": "np.%s(A, %s)" % (fn, q2),
        "axis": ("np.%s(A, %s, 1)" % (fn, q), {"A": "L:" + R2}),
        "axis-keepdims": ("np.%s(A, %s, axis=0, keepdims=True)" % (fn, q2), {"A": "L:" + R2}),
        "out": ("np.%s(A, %s, axis=0, out=O)" % (fn, q), {"A": "L:f2"}),
        "overwrite": ("np.%s(A, %s, axis=0, overwrite_input=True)" % (fn, q), {"A": "L:f2"}),
        "method-lower": ("np.%s(A, %s, axis=1, method='lower')" % (fn, q), {"A": "L:f2|i2"}),
        "method-midpoint": ("np.%s(A, %s, method='midpoint')" % (fn, q), {"A": "L:f2|f1"}),
        "method-weibull": ("np.%s(A, %s, axis=0, method='weibull')" % (fn, q), {"A": "L:f2"}),
        "weights": ("np.%s(A, %s, axis=1, method='inverted_cdf', weights=W)" % (fn, q), {"A": "L:f2", "W": "-:f2+"}),
    }, keep="A", A="L:f1|f2|i2|f0|g2|f6" + ("|f2~" if fn.startswith("nan") else ""))

# ---- boolean reductions
for fn in ("all", "any"):
    T("np." + fn, {
        "pos": "np.%s(A)" % fn,
        "axis": ("np.%s(A, 1)" % fn, {"A": "L:f2z|i2z"}),
        "axis-keepdims": ("np.%s(A, axis=0, keepdims=True)" % fn, {"A": "L:f2z|i2z"}),
        "out": ("np.%s(A, axis=0, out=O)" % fn, {"A": "L:f2z"}),
        "where": ("np.%s(A, axis=1, where=K)" % fn, {"A": "L:f2z"}),
    }, A="L:f1z|f2z|i2z|c2|f0|fe", K=MASK2)

for fn in ("argmax", "argmin", "nanargmax", "nanargmin"):
    T("np." + fn, {
        "pos": "np.%s(A)" % fn,
        "axis": ("np.%s(A, 1)" % fn, {"A": "L:" + R2}),
        "axis-keepdims": ("np.%s(A, axis=0, keepdims=True)" % fn, {"A": "L:" + R2}),
        "out": ("np.%s(A, axis=0, out=O)" % fn, {"A": "L:f2|i2"}),
    }, A="L:f1|f2|i2|f0|g2|k1")

T("np.count_nonzero", {
    "pos": "np.count_nonzero(A)",
    "axis": ("np.count_nonzero(A, 1)", {"A": "L:f2z|i2z"}),
    "axis-keepdims": ("np.count_nonzero(A, axis=0, keepdims=True)", {"A": "L:f2z|i2z"}),
}, A="L:f1z|f2z|i2z|c2|f0|fe")

# ---- cumulative: (a, axis, dtype, out)
for fn in ("cumsum", "nancumsum", "cumprod", "nancumprod"):
    T("np." + fn, {
        "pos": "np.%s(A)" % fn,
        "axis": ("np.%s(A, 1)" % fn, {"A": "L:" + D2}),
        "axis-kw": ("np.%s(A, axis=0)" % fn, {"A": "L:" + D2 + "|f3"}),
        "dtype": ("np.%s(A, axis=0, dtype=np.float32)" % fn, {"A": "L:f2|i2"}),
        "out": ("np.%s(A, axis=0, out=O)" % fn, {"A": "L:f2|c2"}),
    }, keep=("A" if "sum" in fn else None), A="L:f1|f2|i2|c2|f0|g2|fe" + ("|f2~" if fn.startswith("nan") else ""))
for fn in ("cumulative_sum", "cumulative_prod"):
    T("np." + fn, {
        "pos": "np.%s(A)" % fn,
        "axis": ("np.%s(A, axis=1)" % fn, {"A": "L:" + D2}),
        "dtype": ("np.%s(A, axis=0, dtype=np.float32)" % fn, {"A": "L:f2|i2"}),
        "out": ("np.%s(A, axis=0, out=O)" % fn, {"A": "L:f2|c2"}),
        "include-initial": ("np.%s(A, axis=1, include_initial=True)" % fn, {"A": "L:f2|i2"}),
    }, keep=("A" if "sum" in fn else None), A="L:f1|i1|c1|g1")

T("np.trace", {
    "pos": "np.trace(A)",
    "offset": "np.trace(A, 1)",
    "offset-kw": "np.trace(A, offset=-1)",
    "axes": ("np.trace(A, 0, 2, 1)", {"A": "L:f3|i3"}),
    "axes-kw": ("np.trace(A, axis1=1, axis2=2)", {"A": "L:f3|ft"}),
    "dtype": "np.trace(A, dtype=np.float32)",
    "out": ("np.trace(A, axis1=1, axis2=2, out=O)", {"A": "L:f3"}),
}, keep="A", A="L:fs|f2|i2|c2|g2")

T("np.cov", {
    "pos": "np.cov(A)",
    "y": ("np.cov(A, B)", {"A": "L:f2", "B": "T:f2"}),
    "rowvar": "np.cov(A, rowvar=False)",
    "bias": "np.cov(A, bias=True)",
    "ddof": "np.cov(A, ddof=0)",
    "fweights": ("np.cov(A, fweights=[1, 2, 1, 3])", {"A": "L:f2"}),
    "aweights": ("np.cov(A, aweights=W)", {"A": "L:f2", "W": "-:f[4]+"}),
    "dtype": ("np.cov(A, dtype=np.float32)", {"A": "L:f2"}),
    "1d": ("np.cov(A)", {"A": "L:f1|i1"}),
}, A="L:f2|i2|c2|g2")
T("np.corrcoef", {
    "pos": "np.corrcoef(A)",
    "y": ("np.corrcoef(A, B)", {"A": "L:f2", "B": "T:f2"}),
    "rowvar": "np.corrcoef(A, rowvar=False)",
    "dtype": ("np.corrcoef(A, dtype=np.float32)", {"A": "L:f2"}),
}, A="L:f2|i2|g2")

# ---- histograms
T("np.histogram", {
    "pos": "np.histogram(A)",
    "bins-int": "np.histogram(A, 4)",
    "bins-kw": "np.histogram(A, bins=3)",
    "bins-edges": ("np.histogram(A, bins=B)", {"B": "L:f[4]^"}),
    "bins-str": "np.histogram(A, bins='sturges')",
    "range": ("np.histogram(A, bins=3, range=(P, P + Q))", {"P": "L:f0", "Q": "L:f0+"}),
    "density": "np.histogram(A, bins=3, density=True)",
    "weights-bare": ("np.histogram(A, bins=3, weights=W)", {"W": "-:f8+"}),
    "weights-qty": ("np.histogram(A, bins=3, weights=W)", {"W": "T:f8+"}),
    "weights-density": ("np.histogram(A, bins=3, weights=W, density=True)", {"W": "T:f8+"}),
}, A="L:f8|i8=|g8", P="L:f0", Q="L:f0+")
T("np.histogram_bin_edges", {
    "pos": "np.histogram_bin_edges(A)",
    "bins-int": "np.histogram_bin_edges(A, 4)",
    "bins-str": "np.histogram_bin_edges(A, bins='fd')",
    "bins-edges": ("np.histogram_bin_edges(A, bins=B)", {"B": "L:f[4]^"}),
    "weights": ("np.histogram_bin_edges(A, bins=3, weights=W)", {"W": "-:f8+"}),
}, keep="A", A="L:f8|i8=|g8")
T("np.histogram2d", {
    "pos": "np.histogram2d(A, B)",
    "bins-int": "np.histogram2d(A, B, 3)",
    "bins-pair": "np.histogram2d(A, B, bins=(2, 3))",
    "density": "np.histogram2d(A, B, bins=3, density=True)",
    "weights-bare": ("np.histogram2d(A, B, bins=3, weights=W)", {"W": "-:f8+"}),
    "weights-qty": ("np.histogram2d(A, B, bins=(2, 3), weights=W)", {"W": "M:f8+"}),
    "weights-density": ("np.histogram2d(A, B, bins=3, weights=W, density=True)", {"W": "M:f8+"}),
    "same-dim": ("np.histogram2d(A, B, bins=3, density=True)", {"B": "L:f8"}),
}, A="L:f8|g8", B="T:f8|g8")
T("np.histogramdd", {
    "pos": "np.histogramdd((A, B))",
    "bins-int": "np.histogramdd((A, B), 3)",
    "bins-pair": "np.histogramdd((A, B), bins=(2, 3))",
    "three": ("np.histogramdd((A, B, C), bins=2)", {"C": "M:f8"}),
    "density": "np.histogramdd((A, B), bins=3, density=True)",
    "weights-bare": ("np.histogramdd((A, B), bins=3, weights=W)", {"W": "-:f8+"}),
    "weights-qty": ("np.histogramdd((A, B), bins=(2, 3), weights=W)", {"W": "M:f8+"}),
    "weights-density": ("np.histogramdd((A, B), bins=3, weights=W, density=True)", {"W": "M:f8+"}),
    "array-sample": ("np.histogramdd(A, bins=2)", {"A": "L:f[6x2]"}),
}, A="L:f8|g8", B="T:f8|g8")
T("np.bincount", {
    "pos": "np.bincount(A)",
    "weights": ("np.bincount(A, W)", {"W": "T:f6"}, "W"),
    "weights-kw": ("np.bincount(A, weights=W, minlength=8)", {"W": "T:f6"}, "W"),
    "bare-x": ("np.bincount(I, weights=W)", {"I": "-:i6+=", "W": "T:f6|i6"}, "W"),
    "minlength": "np.bincount(A, minlength=9)",
}, A="1:i6+=|j6+=")
T("np.digitize", {
    "pos": "np.digitize(A, B)",
    "right": "np.digitize(A, B, right=True)",
    "right-pos": "np.digitize(A, B, True)",
    "decreasing": "np.digitize(A, B[::-1])",
}, A="L:f1|f2|i1|f0", B="L:f6^")
