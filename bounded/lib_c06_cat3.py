"""catalogue part 3: sorting / searching / sets, arithmetic-like functions, predicates, misc, text, IO,
functions unyt declares unsupported"""
from lib_c06_catalogue import T, ANY, D2, D1, R2, R1

# ---- sorting
T("np.sort", {
    "pos": "np.sort(A)",
    "axis": ("np.sort(A, 0)", {"A": "L:" + R2}),
    "axis-none": "np.sort(A, axis=None)",
    "kind": "np.sort(A, kind='stable')",
    "kind-pos": ("np.sort(A, 0, 'mergesort')", {"A": "L:f2"}),
    "stable": "np.sort(A, stable=True)",
    "complex": ("np.sort(A)", {"A": "L:c1|c2"}),
}, keep="A", A="L:f1|f2|i2|g2|k1|f1=|fe")
T("np.argsort", {
    "pos": "np.argsort(A)",
    "axis": ("np.argsort(A, 0)", {"A": "L:" + R2}),
    "axis-none": "np.argsort(A, axis=None)",
    "kind": "np.argsort(A, kind='stable')",
    "kind-pos": ("np.argsort(A, 0, 'stable')", {"A": "L:f2|f2="}),
    "stable": "np.argsort(A, stable=True)",
}, A="L:f1|f2|i2|g2|k1|f1=|fe")
T("np.lexsort", {"pos": "np.lexsort((A, B))", "axis": ("np.lexsort((A, B), axis=0)", {"A": "L:f2=", "B": "T:f2="}),
                 "single": "np.lexsort((A,))"}, A="L:f6=|i6=", B="T:f6=|i6=")
T("np.partition", {"pos": "np.partition(A, 2)", "axis": ("np.partition(A, 1, 0)", {"A": "L:f2|i2"}),
                   "axis-kw": ("np.partition(A, kth=(1, 2), axis=1)", {"A": "L:f2"}), "kind": "np.partition(A, 2, kind='introselect')",
                   "axis-none": ("np.partition(A, 5, axis=None)", {"A": "L:f2"})}, keep="A", A="L:f1|i1|g1|f6")
T("np.argpartition", {"pos": "np.argpartition(A, 2)", "axis": ("np.argpartition(A, 1, 0)", {"A": "L:f2|i2"}),
                      "axis-kw": ("np.argpartition(A, kth=(1, 2), axis=1)", {"A": "L:f2"})}, A="L:f1|i1|g1|f6")
T("np.sort_complex", "np.sort_complex(A)", keep="A", A="L:c1|c2|f1|i1|g1")
T("np.searchsorted", {
    "pos": "np.searchsorted(A, V)",
    "side": "np.searchsorted(A, V, 'right')",
    "side-kw": "np.searchsorted(A, V, side='right')",
    "sorter": ("np.searchsorted(B, V, sorter=np.argsort(np.asarray(B)))", {"B": "L:f6"}),
    "sorter-pos": ("np.searchsorted(B, V, 'left', np.argsort(np.asarray(B)))", {"B": "L:f6"}),
    "scalar": ("np.searchsorted(A, V)", {"V": "L:f0"}),
    "dups-left": ("np.searchsorted(A, A[2])", {"A": "L:f6=^"}),
    "dups-right": ("np.searchsorted(A, A[2], side='right')", {"A": "L:f6=^"}),
}, A="L:f6^|i6^|f6=^", V="L:f1|i1|f1=")
T("np.searchsorted", {"bare-scalar": "np.searchsorted(A, 5.5)"}, A="L:f6^+")
T("np.unique", {
    "pos": "np.unique(A)",
    "index": ("np.unique(A, True)", {}, "A@0"),
    "inverse": ("np.unique(A, return_inverse=True)", {}, "A@0"),
    "counts": ("np.unique(A, return_counts=True)", {}, "A@0"),
    "all": ("np.unique(A, True, True, True)", {}, "A@0"),
    "axis": ("np.unique(A, axis=0)", {"A": "L:f2=|i2="}),
    "nan": ("np.unique(A, equal_nan=False)", {"A": "L:f6~"}),
}, keep="A", A="L:f6=|i6=|f2=|c1|f0")
for fn in ("unique_all", "unique_counts", "unique_inverse"):
    T("np." + fn, "np.%s(A)" % fn, keep="A@0", A="L:f6=|i6=|f2=")
T("np.unique_values", {"sorted": "np.sort(np.unique_values(A))"}, keep="A", A="L:f6=|i6=|f2=")   # order is unspecified
for fn in ("intersect1d", "union1d", "setdiff1d", "setxor1d"):
    d = {"pos": "np.%s(A, B)" % fn}
    if fn != "union1d":
        d["assume-unique"] = ("np.%s(A, B, True)" % fn, {"A": "L:f6^", "B": "L:f1"})
        d["assume-unique-kw"] = ("np.%s(A, B, assume_unique=True)" % fn, {"A": "L:f6^", "B": "L:f1"})
    if fn == "intersect1d":
        d["indices"] = ("np.intersect1d(A, B, return_indices=True)", {}, "A@0")
        d["indices-pos"] = ("np.intersect1d(A, B, False, True)", {}, "A@0")
    T("np." + fn, d, keep="A", A="L:f6=|i6=|f2=", B="L:f6=|i6=|f1=")
T("np.isin", {
    "pos": "np.isin(A, B)", "invert": "np.isin(A, B, invert=True)", "assume-unique": "np.isin(A, B, True)",
    "kind": "np.isin(A, B, kind='sort')", "invert-pos": "np.isin(A, B, False, True)",
}, A="L:f6=|i6=|f2=", B="L:f6=|i6=|f1=")

# ---- rounding / clipping
for fn in ("around", "round"):
    T("np." + fn, {
        "pos": "np.%s(A)" % fn, "decimals": "np.%s(A, 1)" % fn, "decimals-kw": "np.%s(A, decimals=2)" % fn,
        "decimals-neg": ("np.%s(A, -1)" % fn, {"A": "L:i2|f2"}), "out": "np.%s(A, 1, out=O)" % fn,
        "out-pos": ("np.%s(A, 2, O)" % fn, {"O": "L:@np.%s(A, 2)" % fn}),
    }, keep="A", nocov=True, A="L:f2|g2|c2|f0|f1")
T("np.fix", {"pos": "np.fix(A)", "out": "np.fix(A, out=O)"}, keep="A", nocov=True, A="L:f2|g2|f0|f1")
T("np.clip", {
    "pos": "np.clip(A, P, Q)",
    "kw": "np.clip(A, a_min=P, a_max=Q)",
    "min-max": "np.clip(A, min=P, max=Q)",
    "only-min": "np.clip(A, P, None)",
    "only-max": "np.clip(A, None, Q)",
    "only-max-kw": "np.clip(A, max=Q)",
    "out": "np.clip(A, P, Q, out=O)",
    "array-bounds": ("np.clip(A, P, Q)", {"P": "L:f[4]", "Q": "L:f[4]+"}),
    "dtype": ("np.clip(A, P, Q, dtype=np.float32)", {"A": "L:f2"}),
}, keep="A", A="L:f2|i2|g2|f1", P="L:f0|i0|f0|f0", Q="L:f0+|i0+|f0+|f0+")
T("np.clip", {"bare-bounds": "np.clip(A, -1.0, 1.5)"}, keep="A", A="L:f2")

# ---- differences / integration / interpolation
T("np.diff", {
    "pos": "np.diff(A)", "n": "np.diff(A, 2)", "n-kw": "np.diff(A, n=3)", "n-zero": "np.diff(A, 0)",
    "axis": ("np.diff(A, 1, 0)", {"A": "L:f2|i2"}), "axis-kw": ("np.diff(A, axis=0)", {"A": "L:f2|c2"}),
    "prepend": ("np.diff(A, prepend=V)", {"V": "L:f0"}), "append": ("np.diff(A, append=V)", {"V": "L:f0"}),
    "prepend-append": ("np.diff(A, 1, -1, V, V)", {"V": "L:f[1]"}),
}, keep="A", A="L:f1|f2|i2|c1|g1|f6")
T("np.ediff1d", {
    "pos": "np.ediff1d(A)", "to-end": ("np.ediff1d(A, V)", {"V": "L:f0"}), "to-end-kw": ("np.ediff1d(A, to_end=V)", {"V": "L:f[2]"}),
    "to-begin": ("np.ediff1d(A, to_begin=V)", {"V": "L:f0"}), "both": ("np.ediff1d(A, V, W)", {"V": "L:f0", "W": "L:f[2]"}),
}, keep="A", A="L:f1|f2|i1|g1")
T("np.gradient", {
    "pos": "np.gradient(A)",
    "dx-bare": "np.gradient(A, 0.5)",
    "dx-qty": ("np.gradient(A, V)", {"V": "T:f0+"}),
    "coords": ("np.gradient(A, X)", {"A": "L:f6", "X": "T:f6^"}),
    "axis": ("np.gradient(A, axis=0)", {"A": "L:f2|i2"}),
    "axis-dx": ("np.gradient(A, V, axis=1)", {"A": "L:f2", "V": "T:f0+"}),
    "two-dx": ("np.gradient(A, V, W)", {"A": "L:f2", "V": "T:f0+", "W": "M:f0+"}),
    "edge-order": "np.gradient(A, edge_order=2)",
    "edge-order-dx": ("np.gradient(A, V, edge_order=2)", {"V": "T:f0+"}),
}, A="L:f1|f6|i1|c1|g1")
T("np.gradient", {"keep": "np.gradient(A)", "keep-2d": ("np.gradient(A)", {"A": "L:f2"})}, keep="A", A="L:f1")
T("np.trapezoid", {
    "pos": "np.trapezoid(A)",
    "x": ("np.trapezoid(A, X)", {"X": "T:f1^|f[4]^|i1^|f1^"}),
    "x-kw": ("np.trapezoid(A, x=X)", {"X": "T:f1^|f[4]^|i1^|f1^"}),
    "x-bare": ("np.trapezoid(A, X)", {"X": "-:f1^|f[4]^|i1^|f1^"}),
    "dx-bare": "np.trapezoid(A, dx=0.5)",
    "dx-qty": ("np.trapezoid(A, dx=V)", {"V": "T:f0+"}),
    "dx-pos": ("np.trapezoid(A, None, V)", {"V": "T:f0+"}),
    "axis": ("np.trapezoid(A, axis=0)", {"A": "L:f2|i2"}),
    "axis-x": ("np.trapezoid(A, X, axis=0)", {"A": "L:f2", "X": "T:f[3]^"}),
    "axis-pos": ("np.trapezoid(A, None, V, 0)", {"A": "L:f2", "V": "T:f0+"}),
}, A="L:f1|f2|i1|c1")
T("np.interp", {
    "pos": "np.interp(A, X, F)",
    "scalar": ("np.interp(A, X, F)", {"A": "L:f0"}),
    "left-right-qty": ("np.interp(A, X, F, V, W)", {"V": "T:f0", "W": "T:f0"}),
    "left-right-kw": ("np.interp(A, X, F, left=V, right=W)", {"V": "T:f0", "W": "T:f0"}),
    "period": ("np.interp(A, X, F, period=V)", {"V": "L:f0+"}),
    "bare-fp": ("np.interp(A, X, G)", {"G": "-:f6"}, None),
    "complex-fp": ("np.interp(A, X, F)", {"F": "T:c6"}),
}, keep="F", A="L:f1|i1|f2", X="L:f6^", F="T:f6|i6|f6")
T("np.interp", {"left-right-bare": "np.interp(A, X, F, left=-1.0, right=2.5)",
                "period-bare": "np.interp(A, X, F, period=3.0)"}, keep="F", A="L:f1", X="L:f6^", F="T:f6")
T("np.unwrap", {
    "pos": "np.unwrap(A)", "discont-bare": "np.unwrap(A, 2.0)", "axis": ("np.unwrap(A, axis=0)", {"A": "A:f2"}),
    "period-bare": "np.unwrap(A, period=4.0)",
    "period-qty": ("np.unwrap(A, period=V)", {"V": "A:f0+"}),
    "discont-period-qty": ("np.unwrap(A, discont=W, period=V)", {"V": "A:f0+", "W": "A:f0+"}),
}, keep="A", A="A:f6|f2|g6")
T("np.convolve", {"pos": "np.convolve(A, B)", "mode": "np.convolve(A, B, 'same')", "mode-kw": "np.convolve(A, B, mode='valid')"},
  A="L:f1|i1|c1|f6", B="T:f[3]|i[3]|f[3]|c[3]")
T("np.correlate", {"pos": "np.correlate(A, B)", "mode": "np.correlate(A, B, 'same')", "mode-kw": "np.correlate(A, B, mode='full')"},
  A="L:f1|i1|c1|f6", B="T:f[3]|i[3]|f[3]|c[3]")

# ---- products
T("np.dot", {"pos": "np.dot(A, B)", "kw": "np.dot(a=A, b=B)", "out": "np.dot(A, B, out=O)",
             "1d": ("np.dot(A, B)", {"A": "L:f1|c1", "B": "T:f1|f1"}), "scalar": ("np.dot(A, B)", {"B": "T:f0"}),
             "same-dim": ("np.dot(A, B)", {"B": "L:fq"}), "bare-b": ("np.dot(A, B)", {"B": "-:fq"}),
             "bare-a": ("np.dot(B, A)", {"B": "-:fs", "A": "L:f2"})},
  A="L:f2|i2|c2|g2", B="T:fq|iq|fq|gq")
T("np.vdot", {"pos": "np.vdot(A, B)", "2d": ("np.vdot(A, B)", {"A": "L:f2", "B": "T:f2"}), "same-dim": ("np.vdot(A, B)", {"B": "L:f1"}),
              "bare-b": ("np.vdot(A, B)", {"B": "-:f1"})}, A="L:f1|i1|c1", B="T:f1|i1|c1")
T("np.inner", {"pos": "np.inner(A, B)", "2d": ("np.inner(A, B)", {"A": "L:f2", "B": "T:f2"}), "scalar": ("np.inner(A, B)", {"B": "T:f0"}),
               "bare-b": ("np.inner(A, B)", {"B": "-:f1"})}, A="L:f1|i1|c1", B="T:f1|i1|c1")
T("np.outer", {"pos": "np.outer(A, B)", "out": "np.outer(A, B, out=O)", "2d": ("np.outer(A, B)", {"A": "L:f2"}),
               "bare-a": ("np.outer(B, A)", {"B": "-:f1"})}, A="L:f1|i1|c1", B="T:f[3]|i[3]|f[3]")
T("np.kron", {"pos": "np.kron(A, B)", "1d": ("np.kron(A, B)", {"A": "L:f1", "B": "T:f[3]"}), "bare-b": ("np.kron(A, B)", {"B": "-:fw"})},
  A="L:f2|i2|c2", B="T:fw|iw|fw")
T("np.cross", {
    "pos": "np.cross(A, B)", "2d": ("np.cross(A, B)", {"A": "L:f[4x3]", "B": "T:f[4x3]"}),
    "axis": ("np.cross(A, B, axis=0)", {"A": "L:f[3x4]|fs|is", "B": "T:f[3x4]|fs|is"}),
    "axes": ("np.cross(A, B, 0, 1, 0)", {"A": "L:f[3x4]", "B": "T:f[4x3]"}),
    "axes-kw": ("np.cross(A, B, axisa=0, axisb=1, axisc=1)", {"A": "L:f[3x4]|fs", "B": "T:f[4x3]|fs"}),
    "axisc-kw": ("np.cross(A, B, axisc=0)", {"A": "L:fs", "B": "T:fs"}),
    "bare-b": ("np.cross(A, B)", {"B": "-:fv"}),
}, A="L:fv|iv|cv", B="T:fv|iv|fv")
T("np.tensordot", {"pos": "np.tensordot(A, B)", "axes": "np.tensordot(A, B, 1)", "axes-kw": "np.tensordot(A, B, axes=([1], [0]))",
                   "axes-pairs": "np.tensordot(A, B, axes=([0, 1], [1, 0]))", "outer": "np.tensordot(A, B, 0)",
                   "bare-b": ("np.tensordot(A, B, 1)", {"B": "-:fs"})},
  A="L:fs|is|cs", B="T:fs|is|fs")
T("np.einsum", {
    "matmul": "np.einsum('ij,jk->ik', A, B)",
    "matmul-same-dim": ("np.einsum('ij,jk', A, B)", {"B": "L:fs|is|fs"}),
    "trace": "np.einsum('ii', A)",
    "transpose": "np.einsum('ij->ji', A)",
    "row-sum": "np.einsum('ij->i', A)",
    "self-product": "np.einsum('ij,ij->', A, A)",
    "triple-same-dim": ("np.einsum('ij,jk,kl->il', A, B, A)", {"B": "L:fs"}),
    "out": ("np.einsum('ij,jk->ik', A, B, out=O)", {"B": "L:fs|is|fs"}),
    "out-single": "np.einsum('ij->ji', A, out=O)",
    "dtype": "np.einsum('ij->i', A, dtype=np.complex128)",
    "optimize": ("np.einsum('ij,jk,kl->il', A, B, A, optimize=True)", {"B": "L:fs"}),
    "order": "np.einsum('ij->ji', A, order='F')",
    "casting": ("np.einsum('ij->i', A, dtype=np.float32, casting='same_kind')", {"A": "L:fs|is"}),
    "sublist": "np.einsum(A, [0, 1], [1, 0])",
    "bare-b": ("np.einsum('ij,jk->ik', A, B)", {"B": "-:fs"}),
    "ellipsis": "np.einsum('...j->...', A)",
}, A="L:fs|is|cs", B="T:fs|is|fs")
T("np.einsum", {"keep": "np.einsum('ij->ji', A)", "keep-diag": "np.einsum('ii->i', A)"}, keep="A", A="L:fs")
T("np.einsum_path", {"pos": "np.einsum_path('ij,jk->ik', A, B)", "optimize": "np.einsum_path('ij,jk,kl->il', A, B, A, optimize='optimal')"},
  A="L:fs", B="T:fs")

# ---- predicates / comparisons
for fn in ("isclose", "allclose"):
    T("np." + fn, {
        "pos": "np.%s(A, B)" % fn, "self": "np.%s(A, A)" % fn, "near": "np.%s(A, A * (1 + 1e-7))" % fn,
        "rtol": "np.%s(A, A * 1.01, 0.1)" % fn, "rtol-kw": "np.%s(A, A * 1.01, rtol=1e-3)" % fn,
        "atol-zero": "np.%s(A, A * 1.000001, rtol=0, atol=0)" % fn,
        "equal-nan": ("np.%s(A, A, equal_nan=True)" % fn, {"A": "L:f2~"}),
        "equal-nan-pos": ("np.%s(A, A, 1e-5, 0, True)" % fn, {"A": "L:f2~"}),
        "nan-default": ("np.%s(A, A)" % fn, {"A": "L:f2~"}),
    }, A="L:f2|i2|c2|f0", B="L:f2|i2|f2|f0")
    T("np." + fn, {"atol-bare": "np.%s(A, A + V * (0.5 / float(np.asarray(V))), rtol=0, atol=0.75)" % fn}, A="L:f2", V="L:f0+")
T("np.array_equal", {"pos": "np.array_equal(A, B)", "self": "np.array_equal(A, A)", "copy": "np.array_equal(A, A.copy())",
                     "equal-nan": ("np.array_equal(A, A.copy(), equal_nan=True)", {"A": "L:f2~"}),
                     "equal-nan-pos": ("np.array_equal(A, A.copy(), True)", {"A": "L:f2~"}),
                     "nan-default": ("np.array_equal(A, A.copy())", {"A": "L:f2~"}),
                     "shape": ("np.array_equal(A, B)", {"B": "L:f1"})}, A="L:f2|i2|c2|f0", B="L:f2|i2|f2|f0")
T("np.array_equiv", {"pos": "np.array_equiv(A, B)", "self": "np.array_equiv(A, A)",
                     "broadcast": ("np.array_equiv(A, A[0])", {"A": "L:f2"}),
                     "broadcast-true": "np.array_equiv(np.broadcast_to(A[0], A.shape, subok=True), A[0])"}, A="L:f2|i2|c2", B="L:f2|i2|f2")
for fn in ("isneginf", "isposinf"):
    T("np." + fn, {"pos": "np.%s(A)" % fn, "inf": "np.%s(A / np.where(K, 0.0, 1.0))" % fn, "out": ("np.%s(A, out=O)" % fn, {"A": "L:f2|g2"})},
      A="L:f2|g2|f0", K="-:b2")
for fn in ("iscomplex", "isreal", "iscomplexobj", "isrealobj"):
    T("np." + fn, "np.%s(A)" % fn, A="L:f2|c2|i2|c0|f0")
T("np.angle", {"pos": "np.angle(A)", "deg": "np.angle(A, True)", "deg-kw": "np.angle(A, deg=True)"}, A="L:c2|c1|f1|c0")
T("np.sinc", "np.sinc(A)", A="L:f1|f2|g1")
T("np.sinc", {"dimensionless": "np.sinc(A)"}, A="1:f1")
T("np.i0", "np.i0(A)", A="L:f1|f2")
T("np.i0", {"dimensionless": "np.i0(A)"}, A="1:f1")

# ---- queries returning python objects / dtypes / indices
for fn in ("ndim", "shape", "size"):
    T("np." + fn, {"pos": "np.%s(A)" % fn}, A="L:f2|i2|f0|fe|f3")
T("np.size", {"axis": "np.size(A, 1)", "axis-kw": "np.size(A, axis=0)"}, A="L:f2|f3")
T("np.can_cast", {"pos": "np.can_cast(A.dtype, np.float32)", "arr": "np.can_cast(A, np.complex128)",
                  "casting": "np.can_cast(A, np.int32, casting='unsafe')"}, A="L:f2|i2|c2")
T("np.common_type", {"pos": "np.common_type(A)", "two": "np.common_type(A, B)"}, A="L:f2|i2|g2|c2", B="T:g1")
T("np.result_type", {"pos": "np.result_type(A)", "two": "np.result_type(A, B)", "scalar": "np.result_type(A, 1.0)"},
  A="L:f2|i2|g2|c2|k1", B="T:g1")
T("np.min_scalar_type", "np.min_scalar_type(A)", A="L:f0|i0|f1|c0")
for fn in ("may_share_memory", "shares_memory"):
    T("np." + fn, {"self": "np.%s(A, A)" % fn, "view": "np.%s(A, A[1:])" % fn, "other": "np.%s(A, B)" % fn,
                   "max-work": "np.%s(A, A[::2], max_work=10)" % fn}, A="L:f2|f1", B="T:f2")
T("np.ravel_multi_index", {"pos": "np.ravel_multi_index((A, B), (7, 7))", "mode": "np.ravel_multi_index((A, B), (3, 4), mode='clip')",
                           "order": "np.ravel_multi_index((A, B), dims=(7, 7), order='F')"}, A="1:i6+", B="1:i6+")
T("np.unravel_index", {"pos": "np.unravel_index(A, (3, 4))", "order": "np.unravel_index(A, shape=(4, 3), order='F')"}, A="1:i6+|i0+")
for fn in ("diag_indices_from", "tril_indices_from", "triu_indices_from"):
    d = {"pos": "np.%s(A)" % fn}
    if fn != "diag_indices_from":
        d["k"] = "np.%s(A, 1)" % fn
        d["k-kw"] = "np.%s(A, k=-1)" % fn
    T("np." + fn, d, A="L:fs|is|fq")
T("np.apply_along_axis", {
    "sum": "np.apply_along_axis(np.sum, 1, A)",
    "lambda": "np.apply_along_axis(lambda v: v[::-1] * 2, 0, A)",
    "args": "np.apply_along_axis(lambda v, k: v[k], 1, A, 2)",
    "kw": "np.apply_along_axis(lambda v, k=0: v[k], axis=0, arr=A, k=1)",
    "sort": "np.apply_along_axis(np.sort, 1, A)",
}, keep="A", A="L:f2|i2|c2")
T("np.apply_over_axes", {
    "sum": "np.apply_over_axes(np.sum, A, [0, 2])",
    "single": "np.apply_over_axes(np.sum, A, [1])",
    "max": "np.apply_over_axes(np.max, A, (0, 1))",
    "mean-kw": "np.apply_over_axes(func=np.mean, a=A, axes=[2, 0])",
    "int-axis": "np.apply_over_axes(np.sum, A, 1)",
    "drop-dim": "np.apply_over_axes(lambda x, ax: x.sum(axis=ax), A, [0, 1])",
}, keep="A", A="L:f3|i3")

# ---- text
T("np.array2string", {"pos": "np.array2string(A)", "precision": "np.array2string(A, precision=2, separator=', ')",
                      "pos-args": "np.array2string(A, 40, 3, True)", "formatter": "np.array2string(A, formatter={'all': lambda v: 'x'})",
                      "threshold": "np.array2string(A, threshold=3, edgeitems=1)"}, text=True, A="L:f2|i2|c1|f0|fe")
T("np.array_repr", {"pos": "np.array_repr(A)", "precision": "np.array_repr(A, precision=2)", "pos-args": "np.array_repr(A, 40, 3, True)"},
  text=True, A="L:f2|i2|c1|f0|fe|g2")
T("np.array_str", {"pos": "np.array_str(A)", "precision": "np.array_str(A, precision=2)", "pos-args": "np.array_str(A, 40, 3, True)"},
  text=True, A="L:f2|i2|c1|f0|fe")

# ---- IO (in-memory)
T("np.save", nocov=True, tids={"pos": "(lambda b: (np.save(b, A), b.getvalue())[1])(io.BytesIO())",
              "load": "(lambda b: (np.save(b, A, allow_pickle=False), b.seek(0), np.load(b))[2])(io.BytesIO())"}, A="L:f2|i2|c1|f0")
T("np.savez", nocov=True, tids={"load": "(lambda b: (np.savez(b, A, y=A), b.seek(0), [np.load(b)[k] for k in ('arr_0', 'y')])[2])(io.BytesIO())"},
  A="L:f2|i2")
T("np.savez_compressed", nocov=True, tids={"load": "(lambda b: (np.savez_compressed(b, x=A), b.seek(0), np.load(b)['x'])[2])(io.BytesIO())"}, A="L:f2|i2")
T("np.savetxt", nocov=True, tids={"pos": "(lambda b: (np.savetxt(b, A), b.getvalue())[1])(io.StringIO())",
                 "fmt": "(lambda b: (np.savetxt(b, A, '%.3f', ';'), b.getvalue())[1])(io.StringIO())",
                 "kw": "(lambda b: (np.savetxt(b, A, fmt='%.2e', delimiter=',', newline='|', header='h', footer='f', comments='!'), b.getvalue())[1])(io.StringIO())"},
  A="L:f2|i2|f1")

# ---- functions unyt declares unsupported: must raise, never return a number
T("np.poly", "np.poly(A)", A="L:f[3]")
T("np.polyadd", "np.polyadd(A, A)", A="L:f[3]")
T("np.polyder", "np.polyder(A)", A="L:f[3]")
T("np.polydiv", "np.polydiv(A, A)", A="L:f[3]")
T("np.polyfit", "np.polyfit(A, B, 1)", A="L:f1^", B="T:f1")
T("np.polyint", "np.polyint(A)", A="L:f[3]")
T("np.polymul", "np.polymul(A, A)", A="L:f[3]")
T("np.polysub", "np.polysub(A, A)", A="L:f[3]")
T("np.polyval", {"pos": "np.polyval(A, B)", "bare-p": "np.polyval([1.0, 2.0], B)"}, A="L:f[3]", B="T:f1")
T("np.roots", "np.roots(A)", A="L:f[3]")
T("np.vander", {"pos": "np.vander(A)", "n": "np.vander(A, 3, increasing=True)"}, A="L:f[3]")
T("np.piecewise", "np.piecewise(A, [np.asarray(A) < 0, np.asarray(A) >= 0], [lambda v: -v, lambda v: v])", A="L:f1")
T("np.packbits", "np.packbits(A)", A="L:u8")
T("np.unpackbits", "np.unpackbits(A)", A="L:u8")
T("np.ix_", "np.ix_(A, A)", A="L:i[3]+")
T("np.datetime_as_string", "np.datetime_as_string(A)", A="L:i[3]+")
T("np.busday_count", "np.busday_count(A, A)", A="L:i[3]+")
T("np.busday_offset", "np.busday_offset(A, 1)", A="L:i[3]+")
T("np.is_busday", "np.is_busday(A)", A="L:i[3]+")
