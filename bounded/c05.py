"""C05 bounded stand-in: unit objects form a consistent multiplicative algebra -- on the real,
imported package.  Every unit in play is carried together with the driver's own description
(60-digit Decimal scale, exponent vector of Fractions, zero-point offset) from lib_c02_eval.py;
operators are applied to the real Unit objects and to the descriptions side by side."""
import math
import sys, os
from decimal import Decimal
from fractions import Fraction
sys.path.insert(0, os.path.dirname(os.path.abspath(__file__)))
from common import Run, replay_script, safe

import numpy as np
import sympy
import unyt
from unyt import Unit, UnitRegistry
from unyt.exceptions import InvalidUnitOperation
from unyt._unit_lookup_table import default_unit_symbol_lut as LUT
import lib_c02_eval as E
from lib_c02_eval import ATOMS, READING, name_info, dimvec, isclose, ZERO

R = Run("C05", "units = 145 table symbols, prefixed/alias names, operator-built compounds, units of "
        "custom registries (added prefixable/code units, modified symbols).  Laws: commutativity and "
        "inverse over ordered pairs of table symbols; associativity, (u**p)**q == u**(p*q), "
        "(u*v)**p == u**p*v**p over random triples and rational exponents n/d, d <= 12, given as "
        "Fraction/float/int/sympy.Rational/numpy float; identity Unit(); homomorphism onto "
        "(scale, dimension) with rtol 1e-12 against the driver's Decimal/Fraction description; "
        "expr/base_value/dimensions kept in sync (the result re-read from its own expression); "
        "equality decided by scale, offset and dimension only; hash equal for equal expressions in "
        "one registry; simplify()/as_coeff_unit() denote the same unit.  non-trivial = distinct "
        "(law, operands, exponents)",
        "pairs: 145^2 (thorough) / stratified 44^2 (quick); random triples/power laws 20000 "
        "(thorough) / 1500 (quick); equality: all name pairs inside each dimension group up to "
        "400k (thorough) / 25k (quick) + pinned; simplify: 160 pinned + 12000/1500 random compounds")

def _driver_error(tp, val, tb):
    """an unexpected error of the driver becomes a note; the JSON line is still printed"""
    import traceback
    R.notes.append("driver error: %r %s" % (val, "".join(traceback.format_tb(tb))[-400:]))
    try:
        R.finish()
    except SystemExit:
        sys.stdout.flush()
        os._exit(0)


sys.excepthook = _driver_error

_seen = {}


def fail(key, what, replay=None, cap=1):
    _seen[key] = _seen.get(key, 0) + 1
    if _seen[key] <= cap:
        R.fail(key, what, replay)


def dec(fr):
    return Decimal(fr.numerator) / Decimal(fr.denominator)


class Ent:
    """a real Unit together with the driver's description of what it must denote"""
    __slots__ = ("u", "s", "dv", "off", "src", "cls")

    def __init__(self, u, s, dv, off, src, cls):
        self.u, self.s, self.dv, self.off, self.src, self.cls = u, s, dv, off, src, cls

    @property
    def special(self):
        if self.off:
            return "offset"
        if self.dv[7] != 0:
            return "log"
        if self.dv == ZERO:
            return "dimensionless"
        return "plain"


def ent_of_name(n, cls=None, reg=None):
    s, dv, off, _ = name_info(n)
    if reg is None:
        return Ent(Unit(n), dec(s), dv, off, "unyt.Unit(%r)" % n, cls or ("atomic" if n in LUT else "prefixed"))
    if READING[n][1] == "pc":          # modified in the custom registry
        s = Fraction(3.0e16) * Fraction(10) ** (READING[n][0] or 0)
    return Ent(Unit(n, registry=reg), dec(s), dv, off, "unyt.Unit(%r, registry=_r)" % n, "custom")


def lg(e):
    return abs(float(e.s.log10())) if e.s > 0 else 0.0


def describe(w):
    return "%r [scale %r, dims %s, offset %r]" % (w, getattr(w, "base_value", None),
                                                  getattr(w, "dimensions", None), getattr(w, "base_offset", None))


def matches(w, s, dv, off, rtol=1e-12):
    """does the real unit w have the described scale/dimension/offset"""
    if not isinstance(w, Unit):
        return False
    try:
        fs = float(s)
    except OverflowError:
        return True
    if not (1e-290 < fs < 1e290):
        return True
    return isclose(w.base_value, fs, rtol) and dimvec(w.dimensions) == dv and (
        w.base_offset == off or isclose(w.base_offset, off, 1e-15))


_LAST_REREAD = [None]


def in_sync(w):
    """expr, base_value and dimensions of w agree: re-read the unit from its own expression"""
    if w.base_offset:
        return True
    st, v = safe(Unit, w.expr, registry=w.registry)
    if st == "exc":
        return "re-reading the expression %s raised %r" % (w.expr, v)
    _LAST_REREAD[0] = v
    if not math.isfinite(v.base_value) or v.base_value == 0.0:
        return True         # a factor of the flattened expression leaves the float range
    if not (isclose(v.base_value, w.base_value, 1e-11) and dimvec(v.dimensions) == dimvec(w.dimensions)):
        return "expression %s denotes scale %r dims %s but the object carries scale %r dims %s" % (
            w.expr, v.base_value, v.dimensions, w.base_value, w.dimensions)
    return True


def same(a, b):
    """two real results are the same unit: by unyt's == both ways and by the driver's comparison"""
    return (a == b) and (b == a) and not (a != b) and isclose(a.base_value, b.base_value, 1e-12) and \
        dimvec(a.dimensions) == dimvec(b.dimensions) and (a.base_offset == b.base_offset)


def allowed_mul(a, b):
    """is a*b defined (documented refusals: offsets with anything but dimensionless, logarithmic
    with anything but dimensionless)"""
    if a.special == "log" and b.dv != ZERO:
        return False
    if b.special == "log" and a.dv != ZERO:
        return False
    if a.off or b.off:
        return (a.off and b.dv == ZERO and not b.off) or (b.off and a.dv == ZERO and not a.off)
    return True


def allowed_div(a, b):
    if a.special == "log" and b.dv != ZERO:
        return False
    if b.special == "log" and a.dv != ZERO:
        return False
    if a.off or b.off:
        return bool(a.off and b.dv == ZERO and not b.off)
    return True


def allowed_pow(a, p):
    if a.special == "log" or a.off:
        return p == 1
    return True


def e_mul(a, b):
    return Ent(a.u * b.u, a.s * b.s, E.vec_mul(a.dv, b.dv), a.off or b.off, "(%s)*(%s)" % (a.src, b.src), "compound")


def e_div(a, b):
    return Ent(a.u / b.u, a.s / b.s, E.vec_mul(a.dv, E.vec_pow(b.dv, Fraction(-1))), a.off,
               "(%s)/(%s)" % (a.src, b.src), "compound")


def pow_src(p):
    if isinstance(p, Fraction):
        return "__import__('fractions').Fraction(%d, %d)" % (p.numerator, p.denominator)
    if isinstance(p, sympy.Rational):
        return "__import__('sympy').Rational(%d, %d)" % (p.p, p.q)
    if isinstance(p, np.floating):
        return "np.float64(%r)" % float(p)
    return repr(p)


def e_pow(a, p, form=None):
    form = p if form is None else form
    return Ent(a.u ** form, E.dpow(a.s, p), E.vec_pow(a.dv, p), a.off, "(%s)**%s" % (a.src, pow_src(form)), "compound")


def exp_forms(p, rng):
    """the same rational exponent in the spellings users pass"""
    forms = [p, float(p), sympy.Rational(p.numerator, p.denominator), np.float64(float(p))]
    if p.denominator == 1:
        forms.append(int(p))
    return rng.choice(forms)


def replay_eq(lhs, rhs):
    return replay_script("a = %s\nb = %s\nprint(repr(a), a.base_value, a.dimensions, '|', repr(b), b.base_value, b.dimensions)\n"
                         "ok = (a == b) and abs(a.base_value - b.base_value) <= 1e-12*abs(b.base_value) "
                         "and a.dimensions == b.dimensions and a.base_offset == b.base_offset\n"
                         "sys.exit(0 if ok else 1)\n" % (lhs, rhs))


def replay_val(src, s, off=0.0):
    return replay_script("w = %s\nprint(repr(w), w.base_value, w.dimensions, w.base_offset)\n"
                         "v = unyt.Unit(w.expr, registry=w.registry) if not w.base_offset else w\n"
                         "bad = abs(w.base_value - %r) > 1e-12*abs(%r) or abs(v.base_value - w.base_value) > 1e-11*abs(w.base_value) "
                         "or v.dimensions != w.dimensions or w.base_offset != %r\n"
                         "sys.exit(1 if bad else 0)\n" % (src, float(s), float(s), off))


def guarded(kind, desc, allowed, fn, replay_src):
    """run fn(); a documented refusal must raise InvalidUnitOperation, an allowed operation must not.
    Returns the result or None"""
    st, w = safe(fn)
    if not allowed:
        R.case("C05[refusal:%s:%s]" % (kind, desc))
        if st != "exc" or not isinstance(w, InvalidUnitOperation):
            fail("C05[refusal:%s]" % kind, "%s must be refused (offset / logarithmic unit) but gave %s"
                 % (desc, describe(w) if st == "ok" else repr(w)),
                 replay_script("try:\n    w = %s\nexcept unyt.exceptions.InvalidUnitOperation:\n    sys.exit(0)\n"
                               "print(repr(w)); sys.exit(1)\n" % replay_src))
        return None
    if st == "exc":
        fail("C05[raises:%s]" % kind, "%s raised %r" % (desc, w),
             replay_script("try:\n    %s\nexcept Exception as e:\n    print(repr(e)); sys.exit(1)\n" % replay_src))
        return None
    return w


def check_result(kind, cls, ent_fn, desc):
    """homomorphism + sync of one operator application"""
    st, e = safe(ent_fn)
    if st == "exc":
        fail("C05[raises:%s:%s]" % (kind, cls), "%s raised %r" % (desc, e))
        return None
    if e.s <= 0 or abs(float(e.s.log10())) > 280:
        return None
    R.case("C05[hom:%s:%s]" % (kind, desc))
    if not matches(e.u, e.s, e.dv, e.off):
        fail("C05[homomorphism:%s:%s]" % (kind, cls), "%s = %s, the operands' scales and dimensions give scale %r dims %s offset %r"
             % (desc, describe(e.u), float(e.s), [str(x) for x in e.dv], e.off), replay_val(e.src, e.s, e.off))
    _LAST_REREAD[0] = None
    sy = in_sync(e.u)
    if sy is not True:
        fail("C05[sync:%s:%s]" % (kind, cls), "%s: %s" % (desc, sy), replay_val(e.src, e.s, e.off))
    v = _LAST_REREAD[0]
    if sy is True and v is not None and v.expr == e.u.expr and math.isfinite(v.base_value) and v.base_value:
        # the same expression in the same registry, built two ways: equal and equal hashes
        if not (v == e.u) or hash(v) != hash(e.u):
            fail("C05[hash:same-expression]", "%s and the unit read from its expression %s: == %r, hashes %r / %r, base values %r / %r"
                 % (desc, v.expr, v == e.u, hash(e.u), hash(v), e.u.base_value, v.base_value),
                 replay_script(needs_reg(e) + "a = %s\nb = unyt.Unit(a.expr, registry=a.registry)\nprint(a == b, hash(a), hash(b), a.base_value, b.base_value)\n"
                               "sys.exit(0 if (a == b and hash(a) == hash(b)) else 1)\n" % e.src))
    return e


# ------------------------------------------------------------------------------------------
# the unit pool
ATOM_ENTS = {k: ent_of_name(k, "atomic") for k in LUT}
PLAIN_ATOMS = [k for k, e in ATOM_ENTS.items() if e.special in ("plain", "dimensionless")]
SPECIAL_ATOMS = [k for k, e in ATOM_ENTS.items() if e.special in ("offset", "log")]
ALLNAMES = sorted(n for n in READING if n and READING[n][0] is not None or (n in READING and n not in LUT))
PREF_NAMES = [n for n in ALLNAMES if "°" not in n or len(n) <= 3]
PLAIN_PREF = [n for n in PREF_NAMES if not name_info(n)[3] and name_info(n)[1][7] == 0]
PINNED_PREF = ["km", "fm", "am", "keV", "nm", "kilometer", "Mpc", "µs", "uG", "mdegC", "dB", "kilogram",
               "Gyr", "mmol", "cL", "MJy", "nanosecond", "Angstrom", "angstrom", "light_year", "solar_mass"]
PINNED_PREF = [n for n in PINNED_PREF if n in READING]

# custom registries
REG1 = UnitRegistry()
REG1.add("foo", 2.5, unyt.dimensions.length, prefixable=True)
REG1.add("code_mass", 3.0e33, unyt.dimensions.mass)
REG1.add("code_time", 3.15e13, unyt.dimensions.time)
REG1.add("bar_off", 2.0, unyt.dimensions.temperature, offset=10.0)
REG1.modify("pc", 3.0e16)
REG1_SRC = ("_r = unyt.UnitRegistry(); _r.add('foo', 2.5, unyt.dimensions.length, prefixable=True); "
            "_r.add('code_mass', 3.0e33, unyt.dimensions.mass); _r.add('code_time', 3.15e13, unyt.dimensions.time); "
            "_r.add('bar_off', 2.0, unyt.dimensions.temperature, offset=10.0); _r.modify('pc', 3.0e16)\n")
L, M, T_ = ATOMS["m"]["dim"], ATOMS["g"]["dim"], ATOMS["s"]["dim"]
CUSTOM = []
for n, s, dv, off in [("foo", "2.5", L, 0.0), ("kfoo", "2500", L, 0.0), ("afoo", "2.5e-18", L, 0.0),
                      ("dafoo", "25", L, 0.0), ("code_mass", "3.0e33", M, 0.0), ("code_time", "3.15e13", T_, 0.0),
                      ("pc", "3.0e16", L, 0.0), ("kpc", "3.0e19", L, 0.0), ("km", "1000", L, 0.0),
                      ("bar_off", "2", ATOMS["K"]["dim"], 10.0),
                      ("foo**2/code_time", None, None, 0.0), ("code_mass*kpc/code_time**2", None, None, 0.0)]:
    if s is None:
        continue
    CUSTOM.append(Ent(Unit(n, registry=REG1), Decimal(s), dv, off, "unyt.Unit(%r, registry=_r)" % n, "custom"))
CUSTOM.append(Ent(Unit("foo**2/code_time", registry=REG1), Decimal("6.25") / Decimal("3.15e13"),
                  E.vec_mul(E.vec_pow(L, Fraction(2)), E.vec_pow(T_, Fraction(-1))), 0.0,
                  "unyt.Unit('foo**2/code_time', registry=_r)", "custom"))


def needs_reg(*ents):
    return REG1_SRC if any("registry=_r" in e.src for e in ents) else ""


EXPS = sorted({Fraction(n, d) for d in range(1, 13) for n in range(-6, 7) if n != 0})


def pick_exp(rng):
    return rng.choice(EXPS)


# ------------------------------------------------------------------------------------------
# 1. commutativity, inverse, quotient = product with inverse: ordered pairs of table symbols
if R.thorough:
    pair_atoms = sorted(LUT)
else:
    by_dim = {}
    for k in PLAIN_ATOMS:
        by_dim.setdefault(ATOM_ENTS[k].dv, []).append(k)
    chosen = set(SPECIAL_ATOMS) | {"m", "g", "s", "dimensionless", "%", "mol", "J", "N", "eV", "Msun"}
    for dv, ks in by_dim.items():
        chosen.add(R.rng.choice(ks))
    rest = [k for k in PLAIN_ATOMS if k not in chosen]
    chosen |= set(R.rng.sample(rest, max(0, 44 - len(chosen))))
    pair_atoms = sorted(chosen)
ONE = Unit()
for a_ in pair_atoms:
    a = ATOM_ENTS[a_]
    for b_ in pair_atoms:
        b = ATOM_ENTS[b_]
        desc = "%s,%s" % (a_, b_)
        cls = "%s*%s" % (a.special, b.special)
        ok = allowed_mul(a, b)
        ab = guarded("mul", "%s*%s" % (a_, b_), ok, lambda: a.u * b.u, "unyt.Unit(%r)*unyt.Unit(%r)" % (a_, b_))
        ba = guarded("mul", "%s*%s" % (b_, a_), ok, lambda: b.u * a.u, "unyt.Unit(%r)*unyt.Unit(%r)" % (b_, a_))
        if ab is not None and ba is not None:
            R.case("C05[commut:%s]" % desc)
            if not same(ab, ba) or ab.expr != ba.expr:
                fail("C05[commut:%s]" % cls, "%s*%s = %s but %s*%s = %s" % (a_, b_, describe(ab), b_, a_, describe(ba)),
                     replay_eq("unyt.Unit(%r)*unyt.Unit(%r)" % (a_, b_), "unyt.Unit(%r)*unyt.Unit(%r)" % (b_, a_)))
            check_result("mul", cls, lambda: e_mul(a, b), "%s*%s" % (a_, b_))
        okd = allowed_div(a, b)
        q = guarded("div", "%s/%s" % (a_, b_), okd, lambda: a.u / b.u, "unyt.Unit(%r)/unyt.Unit(%r)" % (a_, b_))
        if q is not None:
            check_result("div", "%s/%s" % (a.special, b.special), lambda: e_div(a, b), "%s/%s" % (a_, b_))
            if not (a.off or b.off) and a.special != "log" and b.special != "log":
                # u/v == u*v**-1 ;  (u/v)*(v/u) == 1 ;  (u/v)*v == u
                R.case("C05[inverse:%s]" % desc)
                st, alt = safe(lambda: a.u * b.u ** -1)
                st2, back = safe(lambda: q * b.u)
                st3, unit1 = safe(lambda: q * (b.u / a.u))
                if st == "exc" or not same(q, alt):
                    fail("C05[inverse:div-vs-mul-inverse]", "%s/%s = %s but %s*%s**-1 = %s" % (
                        a_, b_, describe(q), a_, b_, describe(alt) if st == "ok" else alt),
                        replay_eq("unyt.Unit(%r)/unyt.Unit(%r)" % (a_, b_), "unyt.Unit(%r)*unyt.Unit(%r)**-1" % (a_, b_)))
                if st2 == "exc" or not same(back, a.u):
                    fail("C05[inverse:div-then-mul]", "(%s/%s)*%s = %s, not %s" % (
                        a_, b_, b_, describe(back) if st2 == "ok" else back, describe(a.u)),
                        replay_eq("(unyt.Unit(%r)/unyt.Unit(%r))*unyt.Unit(%r)" % (a_, b_, b_), "unyt.Unit(%r)" % a_))
                if st3 == "exc" or not (same(unit1, ONE) and unit1.is_dimensionless and unit1.expr == 1):
                    fail("C05[inverse:reciprocal]", "(%s/%s)*(%s/%s) = %s, not the dimensionless unit" % (
                        a_, b_, b_, a_, describe(unit1) if st3 == "ok" else unit1),
                        replay_eq("(unyt.Unit(%r)/unyt.Unit(%r))*(unyt.Unit(%r)/unyt.Unit(%r))" % (a_, b_, b_, a_), "unyt.Unit()"))

# 1b. identity, u**1, u**0, u*u**-1 for every table symbol, prefixed pins and custom units
for e in list(ATOM_ENTS.values()) + [ent_of_name(n) for n in PINNED_PREF] + CUSTOM:
    nm = e.src
    rs = needs_reg(e)
    R.case("C05[identity:%s]" % nm)
    for lab, fn, src in (("1*u", lambda: ONE * e.u, "unyt.Unit()*%s" % nm), ("u*1", lambda: e.u * ONE, "%s*unyt.Unit()" % nm),
                         ("u/1", lambda: e.u / ONE, "%s/unyt.Unit()" % nm), ("u**1", lambda: e.u ** 1, "%s**1" % nm),
                         ("u**1.0", lambda: e.u ** 1.0, "%s**1.0" % nm)):
        st, w = safe(fn)
        if st == "exc" or not same(w, e.u) or not matches(w, e.s, e.dv, e.off) or w.expr != e.u.expr:
            fail("C05[identity:%s:%s]" % (lab, e.special), "%s with u = %s gives %s" % (lab, describe(e.u), describe(w) if st == "ok" else w),
                 replay_script(rs + "a = %s\nb = %s\nprint(repr(a), a.base_offset, repr(b), b.base_offset)\n"
                               "sys.exit(0 if (a == b and a.base_offset == b.base_offset and a.expr == b.expr) else 1)\n" % (src, nm)))
    if e.special in ("plain", "dimensionless"):
        for lab, fn, src in (("u**0", lambda: e.u ** 0, "%s**0" % nm), ("u*u**-1", lambda: e.u * e.u ** -1, "%s*%s**-1" % (nm, nm)),
                             ("u/u", lambda: e.u / e.u, "%s/%s" % (nm, nm)), ("(u**-1)**-1", lambda: (e.u ** -1) ** -1, None)):
            st, w = safe(fn)
            target = e.u if lab == "(u**-1)**-1" else ONE
            if st == "exc" or not same(w, target) or (target is ONE and not (w.is_dimensionless and w.expr == 1)):
                fail("C05[identity:%s]" % lab, "%s with u = %s gives %s" % (lab, describe(e.u), describe(w) if st == "ok" else w),
                     replay_script(rs + "a = %s\nprint(repr(a), a.base_value, a.dimensions)\n"
                                   "sys.exit(0 if (a == unyt.Unit() and a.is_dimensionless) else 1)\n" % src) if src else None)
    else:
        # offset / logarithmic units: any power but 1 is refused
        for p in (0, 2, -1, 0.5):
            guarded("pow", "%s**%r" % (nm, p), False, lambda: e.u ** p, "%s**%r" % (nm, p))

# ------------------------------------------------------------------------------------------
# 2. random triples: associativity, power laws, homomorphism over mixed pools
def random_ent(rng, depth=0, reg=None):
    """operands of one law instance all live in one registry (default, or the custom REG1)"""
    r = rng.random()
    if reg is not None and r < 0.35:
        return rng.choice([c for c in CUSTOM if not c.off])
    if r < 0.30:
        return ATOM_ENTS[rng.choice(PLAIN_ATOMS)] if reg is None else ent_of_name(rng.choice(PLAIN_ATOMS), reg=reg)
    if r < 0.65:
        return ent_of_name(rng.choice(PLAIN_PREF), reg=reg)
    if depth >= 2:
        return ent_of_name(rng.choice(PLAIN_ATOMS), reg=reg)
    a, b = random_ent(rng, depth + 1, reg), random_ent(rng, depth + 1, reg)
    k = rng.random()
    try:
        if k < 0.4:
            e = e_mul(a, b)
        elif k < 0.7:
            e = e_div(a, b)
        else:
            p = pick_exp(rng)
            if lg(a) * abs(float(p)) > 100:
                return a
            e = e_pow(a, p, exp_forms(p, rng))
        if lg(e) > 120:
            return a
        return e
    except Exception:   # noqa  (reported by the direct checks)
        return a


n_rand = 20000 if R.thorough else 1500
budget = 240 if R.thorough else 30
t_start = R.elapsed()
for i in range(n_rand):
    if R.elapsed() - t_start > budget:
        R.notes.append("random-law loop stopped after %d rounds (time budget)" % i)
        break
    reg_ = REG1 if i % 4 == 3 else None
    u, v, w = random_ent(R.rng, 0, reg_), random_ent(R.rng, 0, reg_), random_ent(R.rng, 0, reg_)
    rs = needs_reg(u, v, w)
    cls = "custom-registry" if reg_ is not None else "default-registry"
    try:
        # associativity
        R.case("C05[assoc:%s|%s|%s]" % (u.src, v.src, w.src))
        l_ = (u.u * v.u) * w.u
        r_ = u.u * (v.u * w.u)
        if not same(l_, r_) or l_.expr != r_.expr:
            fail("C05[assoc:mul]", "(u*v)*w = %s, u*(v*w) = %s for u,v,w = %s, %s, %s" % (describe(l_), describe(r_), u.src, v.src, w.src),
                 replay_script(rs + "u, v, w = %s, %s, %s\na, b = (u*v)*w, u*(v*w)\nprint(repr(a), a.base_value, repr(b), b.base_value)\n"
                               "sys.exit(0 if (a == b and abs(a.base_value-b.base_value) <= 1e-12*abs(b.base_value) and a.dimensions == b.dimensions) else 1)\n"
                               % (u.src, v.src, w.src)))
        l2 = (u.u / v.u) / w.u
        r2 = u.u / (v.u * w.u)
        if not same(l2, r2):
            fail("C05[assoc:div]", "(u/v)/w = %s, u/(v*w) = %s for %s, %s, %s" % (describe(l2), describe(r2), u.src, v.src, w.src),
                 replay_script(rs + "u, v, w = %s, %s, %s\na, b = (u/v)/w, u/(v*w)\nprint(repr(a), repr(b))\n"
                               "sys.exit(0 if (a == b and abs(a.base_value-b.base_value) <= 1e-12*abs(b.base_value)) else 1)\n" % (u.src, v.src, w.src)))
        check_result("mul", cls, lambda: e_mul(e_mul(u, v), w), "(%s)*(%s)*(%s)" % (u.src, v.src, w.src))
        check_result("div", cls, lambda: e_div(u, e_mul(v, w)), "(%s)/((%s)*(%s))" % (u.src, v.src, w.src))
        # power laws
        p, q = pick_exp(R.rng), pick_exp(R.rng)
        if lg(u) * abs(float(p * q)) < 130 and lg(u) * abs(float(p)) < 130 and lg(v) * abs(float(p)) < 130:
            pf, qf, pqf = exp_forms(p, R.rng), exp_forms(q, R.rng), exp_forms(p * q, R.rng)
            R.case("C05[powpow:%s:%s:%s]" % (u.src, p, q))
            a_ = (u.u ** pf) ** qf
            b_ = u.u ** pqf
            if not same(a_, b_) or a_.expr != b_.expr:
                fail("C05[pow-pow:%s]" % ("int" if p.denominator == 1 and q.denominator == 1 else "rational"),
                     "(u**%s)**%s = %s but u**%s = %s for u = %s" % (pow_src(pf), pow_src(qf), describe(a_), pow_src(pqf), describe(b_), u.src),
                     replay_script(rs + "u = %s\na, b = (u**%s)**%s, u**%s\nprint(repr(a), a.base_value, repr(b), b.base_value)\n"
                                   "sys.exit(0 if (a == b and a.expr == b.expr and abs(a.base_value-b.base_value) <= 1e-12*abs(b.base_value)) else 1)\n"
                                   % (u.src, pow_src(pf), pow_src(qf), pow_src(pqf))))
            check_result("pow", cls, lambda: e_pow(e_pow(u, p, pf), q, qf), "((%s)**%s)**%s" % (u.src, p, q))
            R.case("C05[powdist:%s:%s:%s]" % (u.src, v.src, p))
            c_ = (u.u * v.u) ** pf
            d_ = u.u ** pf * v.u ** pf
            if not same(c_, d_) or c_.expr != d_.expr:
                fail("C05[pow-distrib:%s]" % ("int" if p.denominator == 1 else "rational"),
                     "(u*v)**p = %s but u**p*v**p = %s for u = %s, v = %s, p = %s" % (describe(c_), describe(d_), u.src, v.src, pow_src(pf)),
                     replay_script(rs + "u, v, p = %s, %s, %s\na, b = (u*v)**p, u**p*v**p\nprint(repr(a), a.base_value, repr(b), b.base_value)\n"
                                   "sys.exit(0 if (a == b and abs(a.base_value-b.base_value) <= 1e-12*abs(b.base_value) and a.dimensions == b.dimensions) else 1)\n"
                                   % (u.src, v.src, pow_src(pf))))
            e_ = (u.u / v.u) ** pf
            f_ = u.u ** pf / v.u ** pf
            if not same(e_, f_):
                fail("C05[pow-distrib:div]", "(u/v)**p = %s but u**p/v**p = %s for u = %s, v = %s, p = %s" % (describe(e_), describe(f_), u.src, v.src, pow_src(pf)))
            check_result("pow", cls, lambda: e_pow(e_mul(u, v), p, pf), "((%s)*(%s))**%s" % (u.src, v.src, p))
            # u**p * u**q == u**(p+q)
            if lg(u) * abs(float(p + q)) < 130 and lg(u) * abs(float(q)) < 130:
                g_ = u.u ** pf * u.u ** qf
                h_ = u.u ** (p + q) if p + q != 0 else ONE
                R.case("C05[powsum:%s:%s:%s]" % (u.src, p, q))
                if not same(g_, h_):
                    fail("C05[pow-sum]", "u**p*u**q = %s but u**(p+q) = %s for u = %s, p = %s, q = %s" % (describe(g_), describe(h_), u.src, p, q),
                         replay_script(rs + "u = %s\na = u**%s*u**%s\nb = u**%s\nprint(repr(a), repr(b))\nsys.exit(0 if a == b and a.dimensions == b.dimensions else 1)\n"
                                       % (u.src, pow_src(pf), pow_src(qf), pow_src(p + q))) if p + q != 0 else None)
    except Exception as ex:   # noqa
        fail("C05[raises:random-law]", "laws over %s, %s, %s raised %r" % (u.src, v.src, w.src, ex))

# ------------------------------------------------------------------------------------------
# 3. equality is decided by scale, offset and dimension only
EQ_TRUE = [("J", "N*m"), ("J", "kg*m**2/s**2"), ("N*m", "kg*m**2/s**2"), ("W", "J/s"), ("Pa", "N/m**2"),
           ("Hz", "1/s"), ("L", "dm**3"), ("ha", "hm**2"), ("mile", "5280*ft"), ("km", "1000*m"), ("km", "kilometer"),
           ("erg", "g*cm**2/s**2"), ("dyn", "g*cm/s**2"), ("V", "W/A"), ("ohm", "V/A"), ("T", "Wb/m**2"),
           ("C", "A*s"), ("F", "C/V"), ("H", "Wb/A"), ("lm", "cd*sr"), ("lx", "lm/m**2"), ("delta_degC", "K"),
           ("hr", "60*min"), ("day", "24*hr"), ("yr", "365.25*day"), ("inch", "ft/12"), ("yd", "3*ft"),
           ("lbf", "lb*9.80665*m/s**2"), ("kt", "nmi/hr"), ("mph", "mile/hr"), ("percent", "0.01*dimensionless"),
           ("statC", "sqrt(dyn)*cm"), ("G", "sqrt(dyn)/cm"), ("Sv", "J/kg"), ("bar", "1e5*Pa"), ("Wh", "W*hr")]
EQ_FALSE = [("fm", "am"), ("eV", "keV"), ("nm**2", "angstrom**2"), ("m", "cm"), ("J", "N"), ("rad", "dimensionless"),
            ("degC", "K"), ("degC", "delta_degC"), ("degF", "R"), ("Hz", "rad/s"), ("ym", "zm"), ("ym**3", "2*ym**3"),
            ("yg", "1.001*yg"), ("am**3", "fm**3"), ("1e-40*m", "1e-43*m"), ("sr", "rad"), ("J", "erg"), ("lat", "lon"),
            ("Msun", "Msun*1.00001"), ("statC", "C"), ("G", "T"), ("Np", "B"), ("Np", "dimensionless"), ("mol", "dimensionless")]
for a_, b_ in EQ_TRUE + EQ_FALSE:
    want = (a_, b_) in EQ_TRUE
    key = "C05[eq:%s:%s==%s]" % ("equal" if want else "unequal", a_, b_)
    R.case(key)
    st, r = safe(lambda: (Unit(a_) == Unit(b_), Unit(b_) == Unit(a_), Unit(a_) != Unit(b_)))
    if st == "exc" or r != (want, want, not want):
        fail(key, "Unit(%r) == Unit(%r): (==, reversed ==, !=) = %r, expected %r" % (a_, b_, r, (want, want, not want)),
             replay_script("r = (unyt.Unit(%r) == unyt.Unit(%r))\nprint(r)\nsys.exit(0 if r == %r else 1)\n" % (a_, b_, want)))
# the rule itself over name pairs inside each dimension group (aliases, prefixes, equal scales)
GROUPS = {}
for n in READING:
    if "°" in n and len(n) > 3:
        continue
    GROUPS.setdefault(name_info(n)[1], []).append(n)
eq_budget = 400000 if R.thorough else 25000
eq_pairs = []
for dv, names in GROUPS.items():
    names = sorted(names)
    share = max(50, int(eq_budget * len(names) ** 2 / sum(len(v) ** 2 for v in GROUPS.values())))
    if len(names) ** 2 <= share:
        eq_pairs += [(a, b) for a in names for b in names]
    else:
        eq_pairs += [(R.rng.choice(names), R.rng.choice(names)) for _ in range(share)]
# plus pairs across dimension groups (must be unequal whatever the scales)
allnames = sorted(n for g in GROUPS.values() for n in g)
eq_pairs += [(R.rng.choice(allnames), R.rng.choice(allnames)) for _ in range(eq_budget // 10)]
UCACHE = {}


def U(n):
    if n not in UCACHE:
        UCACHE[n] = Unit(n)
    return UCACHE[n]


for a_, b_ in eq_pairs:
    sa, da, oa, _ = name_info(a_)
    sb, db, ob, _ = name_info(b_)
    rel = abs(float(sa / sb) - 1.0)
    if 1e-10 < rel < 1e-8 and da == db:
        continue            # within an order of magnitude of the documented 1e-9 tolerance
    want = (da == db) and rel <= 1e-9 and oa == ob
    R.case("C05[eqrule:%s==%s]" % (a_, b_), nontrivial=(a_ != b_))
    st, r = safe(lambda: (U(a_) == U(b_), U(a_) != U(b_)))
    if st == "exc" or r != (want, not want):
        cls = "same-dimension" if da == db else "cross-dimension"
        fail("C05[eqrule:%s:%s]" % (cls, "must-be-equal" if want else "must-differ"),
             "Unit(%r) == Unit(%r) is %r; scales %r / %r, offsets %r / %r, dimensions %s"
             % (a_, b_, r, float(sa), float(sb), oa, ob, "equal" if da == db else "different"),
             replay_script("r = (unyt.Unit(%r) == unyt.Unit(%r))\nprint(r)\nsys.exit(0 if r == %r else 1)\n" % (a_, b_, want)))
# == with things that are not units
for other in (1, 1.0, "m", None, sympy.Symbol("m"), unyt.unyt_quantity(1.0, "m")):
    R.case("C05[eq:non-unit:%s]" % type(other).__name__)
    st, r = safe(lambda: Unit("m") == other)
    if st == "exc" or (r is not False and not isinstance(other, unyt.unyt_quantity)):
        fail("C05[eq:non-unit:%s]" % type(other).__name__, "Unit('m') == %r gave %r" % (other, r))

# ------------------------------------------------------------------------------------------
# 4. hash: the same expression in the same registry hashes equally, however the unit was built
HASH_SETS = [
    ["unyt.Unit('km/s')", "unyt.Unit('km')/unyt.Unit('s')", "unyt.Unit('kilometer/second')", "unyt.Unit(' km / s ')",
     "unyt.Unit('s')**-1*unyt.Unit('km')", "unyt.Unit(unyt.Unit('km/s'))", "unyt.Unit(unyt.Unit('km/s').expr)",
     "unyt.Unit('km/s').copy()", "(1*unyt.Unit('km/s')).units", "unyt.unyt_quantity(3.0, 'km/s').units"],
    ["unyt.Unit('kg*m**2/s**2')", "unyt.Unit('kg')*unyt.Unit('m')**2/unyt.Unit('s')**2", "unyt.Unit('m**2*kg/s**2')",
     "(unyt.Unit('m')/unyt.Unit('s'))**2*unyt.Unit('kg')", "unyt.Unit('kilogram*meter**2/second**2')"],
    ["unyt.Unit('m**(1/2)')", "unyt.Unit('sqrt(m)')", "unyt.Unit('m')**0.5", "unyt.Unit('m**0.5')",
     "unyt.Unit('m')**__import__('fractions').Fraction(1, 2)", "(unyt.Unit('m')**0.25)**2"],
    ["unyt.Unit()", "unyt.Unit('dimensionless')" if False else "unyt.Unit('1')", "unyt.Unit('')", "unyt.Unit('m')/unyt.Unit('m')",
     "unyt.Unit('m')**0"],
    ["unyt.Unit('µm')", "unyt.Unit('um')", "unyt.Unit('μm')", "unyt.Unit('micrometer')"],
    ["unyt.Unit('degC')", "unyt.Unit('°C')", "unyt.Unit('celsius')", "unyt.Unit('degC')**1", "unyt.Unit('degC')*unyt.Unit()"],
    ["unyt.Unit('foo/code_time', registry=_r)", "unyt.Unit('foo', registry=_r)/unyt.Unit('code_time', registry=_r)",
     "unyt.Unit('code_time', registry=_r)**-1*unyt.Unit('foo', registry=_r)"],
]
for hs in HASH_SETS:
    env = {"unyt": unyt}
    exec(REG1_SRC, env)
    objs = []
    for src in hs:
        st, o = safe(eval, src, env)
        if st == "exc":
            R.notes.append("hash set member %s raised %r" % (src, o))
            continue
        objs.append((src, o))
    for i, (sa, a) in enumerate(objs):
        for sb, b in objs[i + 1:]:
            R.case("C05[hash:%s|%s]" % (sa, sb))
            if a.expr == b.expr and a.registry.unit_system_id == b.registry.unit_system_id:
                if not (a == b) or hash(a) != hash(b):
                    fail("C05[hash:same-expression]", "%s and %s have the same expression %s in the same registry; == %r, hashes %r / %r"
                         % (sa, sb, a.expr, a == b, hash(a), hash(b)),
                         replay_script(REG1_SRC + "a, b = %s, %s\nprint(a == b, hash(a), hash(b))\nsys.exit(0 if (a == b and hash(a) == hash(b)) else 1)\n" % (sa, sb)))
            else:
                # the members are spellings of one unit: their canonical expressions must coincide
                fail("C05[hash:expression-differs]", "%s has expression %s, %s has %s: one unit, one registry, two expressions"
                     % (sa, a.expr, sb, b.expr),
                     replay_script(REG1_SRC + "a, b = %s, %s\nprint(a.expr, b.expr)\nsys.exit(0 if a.expr == b.expr else 1)\n" % (sa, sb)))
# usable as dict keys / set members: a unit built twice is found again
for n in ["km/s", "J", "m**(3/2)", "degC", "dimensionless", "Msun/kpc**3"]:
    R.case("C05[hash:dict:%s]" % n)
    d = {Unit(n): 1}
    st, other = safe(lambda: Unit(Unit(n).expr))
    if st == "exc" or other not in d or len({Unit(n), other}) != 1:
        fail("C05[hash:dict-lookup]", "a second Unit for %r is not found in a dict keyed by the first" % n,
             replay_script("a = unyt.Unit(%r)\nb = unyt.Unit(a.expr)\nsys.exit(0 if b in {a: 1} else 1)\n" % n))
# the hash of a unit does not change when unrelated lookups extend the registry's table
reg = UnitRegistry()
u0 = Unit("km", registry=reg)
h0 = hash(u0)
for n in ("Mpc", "am", "dam", "kyr", "nanosecond"):
    Unit(n, registry=reg)
R.case("C05[hash:stable-under-lookups]")
if hash(u0) != h0 or hash(Unit("km", registry=reg)) != h0 or hash(Unit("m", registry=reg) * 1000 if False else u0) != h0:
    fail("C05[hash:stable-under-lookups]", "hash of Unit('km') changed after other prefixed names were looked up in its registry")

# a unit that was hashed, then rewritten in place by simplify(), hashes like any other unit with its (new)
# expression: "units built from the same expression in the same registry state hash equally" holds for objects
# with a past too (a hash kept from before the rewrite would split one unit into two dict keys)
for n in ["m**2/cm", "km*s/(m*ms)", "g*cm/kg", "J/erg*s", "kg*m/s**2/N*K", "km/s"]:
    R.case("C05[hash:after-simplify:%s]" % n)
    st, res = safe(lambda: (lambda u: (hash(u), u.simplify(), hash(u), hash(Unit(u.expr, registry=u.registry)), u))(Unit(n)))
    if st == "exc":
        R.notes.append("hash/simplify scenario %r raised %r" % (n, res))
        continue
    _h0, _su, h_after, h_rebuilt, u_ = res
    if h_after != h_rebuilt or len({u_, Unit(u_.expr, registry=u_.registry)}) != 1:
        fail("C05[hash:after-simplify]", "Unit(%r) hashed, then simplify()d to %s: hash %r, a unit rebuilt from that expression "
             "hashes %r" % (n, u_.expr, h_after, h_rebuilt),
             replay_script("u = unyt.Unit(%r)\nhash(u)\nu.simplify()\nv = unyt.Unit(u.expr, registry=u.registry)\n"
                           "print(u.expr, hash(u), hash(v))\nsys.exit(0 if hash(u) == hash(v) and len({u, v}) == 1 else 1)\n" % n))

# ------------------------------------------------------------------------------------------
# 5. simplify() and as_coeff_unit() denote the same unit
def simp_check(text, ent=None, reg=None, regsrc=""):
    """the unit written `text` (or built as ent): simplify a private copy, compare"""
    try:
        if ent is None:
            u = Unit(text, registry=reg) if reg is not None else Unit(text)
            src = "unyt.Unit(%r%s)" % (text, ", registry=_r" if reg is not None else "")
        else:
            u, src = ent.u, ent.src
    except Exception as ex:   # noqa
        R.notes.append("simplify input %r raised %r" % (text, ex))
        return
    bv, dv, off, expr0 = u.base_value, dimvec(u.dimensions), u.base_offset, u.expr
    if not (1e-250 < abs(bv) < 1e250):
        return
    # private copy with the same expression (simplify mutates the object it is called on)
    w = Unit(expr0, base_value=bv, base_offset=off, dimensions=u.dimensions, registry=u.registry)
    R.case("C05[simplify:%s]" % (text or src))
    st, r = safe(w.simplify)
    if st == "exc":
        irr = any(f.is_number and not f.is_Number for f in sympy.sympify(expr0).as_ordered_factors())
        fail("C05[simplify:raises:%s]" % ("irrational-coefficient" if irr else "other"), "%s.simplify() raised %r" % (src, r),
             replay_script(regsrc + "try:\n    %s.simplify()\nexcept Exception as e:\n    print(repr(e)); sys.exit(1)\n" % src))
    else:
        why = None
        if not isinstance(r, Unit):
            why = "returned %r" % (r,)
        elif not (isclose(r.base_value, bv, 1e-12) and dimvec(r.dimensions) == dv and r.base_offset == off):
            why = "returned %s, the unit was scale %r dims %s offset %r" % (describe(r), bv, u.dimensions, off)
        elif not off:
            st2, v = safe(Unit, r.expr, registry=r.registry)
            if st2 == "exc":
                why = "the simplified expression %s cannot be read back: %r" % (r.expr, v)
            elif not (isclose(v.base_value, bv, 1e-11) and dimvec(v.dimensions) == dv):
                why = "the simplified expression %s denotes scale %r dims %s, the unit %s was scale %r dims %s" % (
                    r.expr, v.base_value, v.dimensions, expr0, bv, u.dimensions)
        if why is None and u.expr != expr0:
            why = "simplify() of a private copy changed the expression of the original object"
        if why:
            feats = []
            e0 = sympy.sympify(expr0)
            if any(sympy.Rational(x).q != 1 for x in e0.as_powers_dict().values() if getattr(x, "is_Rational", False)):
                feats.append("rational-power")
            if e0.as_coeff_Mul()[0] != 1:
                feats.append("coefficient")
            fail("C05[simplify:%s]" % ("+".join(feats) or "plain"), "%s.simplify(): %s" % (src, why),
                 replay_script(regsrc + "u = %s\nbv, dims = u.base_value, u.dimensions\nr = unyt.Unit(u.expr, registry=u.registry).simplify()\n"
                               "v = unyt.Unit(r.expr, registry=r.registry)\nprint(repr(r), r.base_value, v.base_value, bv)\n"
                               "sys.exit(0 if (abs(v.base_value - bv) <= 1e-11*abs(bv) and v.dimensions == dims and abs(r.base_value - bv) <= 1e-12*abs(bv)) else 1)\n" % src))
    # as_coeff_unit on the original and on the simplified form
    for lab, obj in (("original", u), ("simplified", r if st == "ok" and isinstance(r, Unit) else None)):
        if obj is None:
            continue
        R.case("C05[as_coeff_unit:%s:%s]" % (lab, text or src))
        st3, cr = safe(obj.as_coeff_unit)
        if st3 == "exc":
            fail("C05[as_coeff_unit:raises]", "%s (%s).as_coeff_unit() raised %r" % (src, lab, cr))
            continue
        c, ret = cr
        why = None
        if not isinstance(c, float) or not isinstance(ret, Unit):
            why = "returned (%r, %r)" % (c, ret)
        elif not (isclose(c * ret.base_value, bv, 1e-12) and dimvec(ret.dimensions) == dv and ret.base_offset == off):
            why = "returned (%r, %s): coefficient x unit is %r, the unit was scale %r offset %r" % (c, describe(ret), c * ret.base_value, bv, off)
        elif ret.expr.as_coeff_Mul()[0] != 1:
            why = "the returned unit %s still carries a numeric coefficient" % ret.expr
        elif not isclose(float(obj.expr.as_coeff_Mul()[0]), c, 1e-15):
            why = "coefficient %r is not the coefficient of %s" % (c, obj.expr)
        else:
            sy = in_sync(ret)
            if sy is not True:
                why = "returned unit out of sync: %s" % sy
        if why:
            fail("C05[as_coeff_unit:%s]" % lab, "%s (%s).as_coeff_unit(): %s" % (src, lab, why),
                 replay_script(regsrc + "u = %s\nc, r = u.as_coeff_unit()\nv = unyt.Unit(r.expr, registry=r.registry)\nprint(c, repr(r), r.base_value, v.base_value)\n"
                               "ok = abs(c*r.base_value - u.base_value) <= 1e-12*abs(u.base_value) and abs(v.base_value - r.base_value) <= 1e-11*abs(r.base_value) and r.dimensions == u.dimensions\n"
                               "sys.exit(0 if ok else 1)\n" % src) if lab == "original" else None)


SIMP_PINNED = ["sqrt(2*m)", "sqrt(2.5*km)/sqrt(m)", "2**(1/3)*m/km", "sqrt(2)*km/m", "km/m", "percent**3", "g/kg*s", "m**2/cm", "sqrt(km/m)", "km**(3/2)/m**(1/2)", "J/erg", "mile/ft*s",
               "degC", "km*s/ms", "2.5*km/m", "Msun/g", "kg/Msun*m", "s/hr", "m", "dimensionless", "1/s", "km**2/m**2",
               "km**2/m", "m/km**2", "(km/m)**3", "km**3/(m*cm*mm)", "g*cm**2/s**2/erg", "J*s/(N*m)", "eV/keV*K",
               "percent", "percent*m", "percent/percent", "mol/mmol", "rad/degree", "degree**2/sr", "arcsec/mas*m",
               "m**(1/3)/cm**(1/3)", "m**(4/3)/cm**(1/3)", "km**(5/2)*m**(-1/2)", "sqrt(J)/sqrt(erg)", "1e3*m/km",
               "0.5*km/m*s", "kpc/pc/Mpc", "yr/Myr*kyr", "Msun*Mearth/Mjup", "hr*min/s", "ft*inch/yd", "lbf/N*kg",
               "kg*m/s**2/N", "N/dyn", "Pa*m**2/N", "T/G", "statC/C", "V*A/W", "ohm*A/V", "F*V/C", "lm/cd/sr",
               "Hz*s", "Hz*hr", "1/(s*Hz)", "c*s/m", "c/(km/s)", "l_pl/m*kg", "delta_degC/K*m", "K/R", "R/delta_degF*s",
               "week/day", "fortnight/week*hr", "Å/nm", "angstrom**2/nm**2", "um/µm", "micrometer/um*kg", "dB", "Np",
               "B*dimensionless" if False else "dimensionless*m", "counts/photons", "counts/s", "Zsun/percent", "mph/(mile/hr)", "kt*hr/nmi",
               "acre/ft**2", "ha/m**2*s", "gal_US/L", "L/m**3", "L/cm**3*g", "mL/cm**3", "cal/J", "BTU/J*s", "Wh/J", "kWh/MJ",
               "psi/Pa", "atm/bar", "bar/Pa*m", "hp/W", "slug/lb", "ton/kg", "oz/g*m", "smoot/m", "furlong/fortnight/(m/s)",
               "ly/(c*yr)", "pc/AU", "AU/Rsun", "Rsun/Rearth*s", "Lsun/W", "Jy*Hz*m**2/W", "Sv/(J/kg)", "eV/erg", "Ry/eV",
               "amu/g", "me/mp", "mp/me*m", "E_pl/J", "m_geom/Msun", "l_geom/km", "nt/(cd/m**2)", "lambert/nt", "lx*m**2/lm",
               "rayleigh", "rpm/Hz", "rev/rad", "spat/sr", "gradian/degree", "hourangle/degree",
               "m*km*cm*mm/um**4", "km/m*km/m", "(km/m)*(g/kg)", "s**2/ms/us", "kg**2/g/mg*s", "m**-1*km", "km**-2*m**2*s"]
for t in SIMP_PINNED:
    simp_check(t)
for t in ["kfoo/foo", "foo**2/kfoo", "foo/m", "kpc/pc", "code_mass/kg*s", "foo*code_time/afoo", "dafoo/foo*code_mass", "km/foo"]:
    simp_check(t, reg=REG1, regsrc=REG1_SRC)
n_simp = 12000 if R.thorough else 1500
t_start = R.elapsed()
for i in range(n_simp):
    if R.elapsed() - t_start > (120 if R.thorough else 20):
        R.notes.append("random simplify loop stopped after %d rounds (time budget)" % i)
        break
    # compounds with a good chance of cancelling symbols: names drawn from one or two dimension groups
    dvs = [R.rng.choice(list(GROUPS)) for _ in range(2)]
    names = [n for dv in dvs for n in R.rng.sample(GROUPS[dv], min(3, len(GROUPS[dv])))]
    names = [n for n in names if not name_info(n)[3] and name_info(n)[1][7] == 0 and (n.isidentifier() or n in LUT)]
    if not names:
        continue
    tree = E.gen_tree(R.rng, names, R.rng.randint(2, 4))
    if not E.in_float_range(tree, 100.0, 200.0):
        continue
    simp_check(E.render(tree, R.rng))

R.exhaustive = False
R.finish()
