"""C10 bounded stand-in: unit-system base conversion stays inside the system and preserves
the quantity.  Runs the real package over (unit systems) x (units) x (data shapes/dtypes).

Oracle (independent of in_base / get_base_equivalent / UnitSystem.__getitem__):
* every system is described by a *spec* held by the driver (base unit per base dimension,
  declared override per derived dimension) -- for the built-ins copied from the documented
  table / definitions, for user systems it is what the driver passed to the constructor;
* the expected result unit for dimension D is the declared unit for D, else the product of
  the spec's base units raised to D's exponents;
* SI magnitudes come from unit.base_value / base_offset of the *input* and *output* units,
  the CGS<->SI electromagnetic hop from a table of textbook factors (c = 2.99792458e10 cm/s).

Keys: C10[<clause>:<unit class>@<system class>]; for the electromagnetic atom classes the
system class is collapsed to cgs / mks / current / nocurrent (one defect site each).
Each system is one task run in a freshly forked process (results merged in task order), so
the outcome is deterministic for a seed and independent of cache state left by other systems.

History section (lib_c10_history.py): sequences of 2-4 define / override / use steps executed in
ONE process (systems re-defined under a used name with other base units / current unit /
overrides, late overrides, two names side by side, same-named systems of two registries,
in_cgs / in_mks around user systems).  After every step each outcome of the copy / in-place /
Unit-level variant must equal what a fresh process computes for the system definition current at
that step alone, and the variants must agree whatever the order they were primed in.
Keys: C10[history:<kind>:<what differs>] and C10[history-variants:<kind>:<what differs>].
"""
import math
import multiprocessing as mp
import sys, os, time
if os.environ.get("PYTHONHASHSEED") != "0":     # set/dict iteration order of str keys must not vary between runs
    os.environ["PYTHONHASHSEED"] = "0"
    os.execv(sys.executable, [sys.executable] + sys.argv)
sys.path.insert(0, os.path.dirname(os.path.abspath(__file__)))
from common import Run, replay_script, safe
import lib_c10_history as HL

import numpy as np
import sympy
try:
    import unyt
    from unyt import Unit, UnitRegistry, UnitSystem, unyt_array, unyt_quantity
    from unyt import dimensions as dm
    from unyt._unit_lookup_table import (default_unit_symbol_lut as LUT, unit_prefixes,
                                         default_unit_name_alternatives as ALT)
    from unyt.exceptions import UnitsNotReducible, IllDefinedUnitSystem
    from unyt.unit_systems import unit_system_registry as USR
except Exception as _e:  # the package builds its constants through in_base/in_cgs at import time
    _R = Run("C10", "import", "import")
    _R.case("C10[import]")
    _R.fail("C10[import]", "importing unyt failed: %r" % (_e,),
            "import sys\ntry:\n    import unyt\nexcept Exception as e:\n    print(repr(e)); sys.exit(1)\nsys.exit(0)\n")
    _R.finish()

R = Run("C10",
        "systems: 7 built-in + pinned user-defined (strings / alias names / Unit objects / quantities / "
        "overrides / current-less / offset base / code-unit registries, registry default system) + seeded "
        "random user systems; units: every symbol of default_unit_symbol_lut, every prefix on the 10 EM "
        "atoms, pinned + seeded random compounds (products/quotients/rational powers of 2-4 atoms); data: "
        "float/int scalar and array, float32/int32 arrays; non-trivial = (system, unit, data kind) distinct "
        "and the unit is not already the system's unit for its dimension; histories: define / override / use "
        "steps in one process (re-definition under a used name with other base units / current unit / overrides, "
        "late overrides incl. base dimensions, two names side by side, in_cgs/in_mks around user clones, same-named "
        "systems of two registries, registry default system) over a 42-unit panel (E&M atoms SI + Gaussian, E&M "
        "compounds, mechanical, thermal, angle/luminous/log), each outcome compared with a fresh fork that saw only "
        "the current definition, variants primed in rotating orders; non-trivial = a use step after an earlier step",
        "atoms x built-in systems x 6 data kinds exhaustive; compounds and user systems sampled (quick: "
        "~90 pinned + 150 random compounds, 10 pinned + 8 random user systems; thorough: 2500 random "
        "compounds, 60 random systems); base-unit spellings: every table atom of each base dimension x "
        "symbol/alias/Unit/quantity; wrong-dimension base units: every slot x every table atom; histories: 59 "
        "pinned (every combination of what differs) + 24 random (thorough: 400), 2-4 definitions each")

C_CM = 2.99792458e10
# (SI dimension, Gaussian dimension, SI canonical symbol, Gaussian canonical symbol,
#  number of Gaussian canonical units in one SI canonical unit)
EM_PAIRS = [
    (dm.charge_mks, dm.charge_cgs, "C", "statC", C_CM / 10.0),
    (dm.magnetic_field_mks, dm.magnetic_field_cgs, "T", "G", 1.0e4),
    (dm.current_mks, dm.current_cgs, "A", "statA", C_CM / 10.0),
    (dm.electric_potential_mks, dm.electric_potential_cgs, "V", "statV", 1.0e8 / C_CM),
    (dm.resistance_mks, dm.resistance_cgs, "Ω", "statohm", 1.0e9 / C_CM ** 2),
]
SI_EM = {p[0]: p for p in EM_PAIRS}
GS_EM = {p[1]: p for p in EM_PAIRS}
EM_CANON = {p[2] for p in EM_PAIRS} | {p[3] for p in EM_PAIRS}
BASE_DIMS = [dm.length, dm.mass, dm.time, dm.temperature, dm.angle, dm.current_mks,
             dm.luminous_intensity, dm.logarithmic]
SLOT = {dm.length: "length_unit", dm.mass: "mass_unit", dm.time: "time_unit",
        dm.temperature: "temperature_unit", dm.angle: "angle_unit",
        dm.current_mks: "current_mks_unit", dm.luminous_intensity: "luminous_intensity_unit",
        dm.logarithmic: "logarithmic_unit"}
DEFAULT_BASE = {dm.temperature: "K", dm.angle: "rad", dm.current_mks: "A",
                dm.luminous_intensity: "cd", dm.logarithmic: "Np"}
LOG_LIMIT = 150.0       # |log10| of any scale / partial scale that is still inside float range safely


# ----------------------------------------------------------------------------- collector
class Col:
    def __init__(self):
        self.cases = []      # (key, nontrivial, sample)
        self.fails = []      # (key, what, replay)
        self.seen = set()
        self.notes = []
        self.skipped_range = 0

    def case(self, key, nontrivial=True, sample=None):
        self.cases.append((key, nontrivial, sample if len(self.cases) < 2 else None))

    def fail(self, key, what, replay=None):
        if key in self.seen:
            return
        self.seen.add(key)
        self.fails.append((key, str(what)[:600], replay))


C = Col()


def fail(key, what, replay=None):
    C.fail(key, what, replay)


# ----------------------------------------------------------------------------- system specs
def atom_names(u):
    return {str(s) for s in u.expr.free_symbols}


def sig(u):
    """(numeric coefficient, {atom: exponent}) of a unit expression; numeric factors of any
    form (3.0, 2**(5/6), sqrt(21)/45 ...) are folded into the coefficient"""
    c = 1.0
    pw = {}
    for f in sympy.Mul.make_args(u.expr):
        if f.is_number:
            c *= float(f)
        else:
            b, e = f.as_base_exp()
            pw[str(b)] = round(pw.get(str(b), 0.0) + float(e), 9)
    return c, {k: v for k, v in pw.items() if v != 0}


def same_unit(u, v):
    cu, pu = sig(u)
    cv, pv = sig(v)
    return pu == pv and math.isclose(cu, cv, rel_tol=1e-12)


class Spec:
    """what the driver knows about a system, independently of the UnitSystem object"""

    def __init__(self, cls, ref, base, declared=None, registry=None, label=None, build=None,
                 reg_src=None, ref_src=None):
        self.cls = cls              # key family: cgs / mks / builtin / user / user-nocurrent / code ...
        self.ref = ref              # what is passed as unit_system= (None: no argument)
        self.base = dict(DEFAULT_BASE)
        self.base.update(base)      # dim -> unit string (may carry a coefficient) or None
        self.declared = {getattr(dm, k): v for k, v in (declared or {}).items()}
        self.registry = registry
        self.label = label or str(ref)
        self.build = build or ""    # python source that recreates the system (for replays)
        self.reg_src = reg_src or ""
        self.ref_src = ref_src if ref_src is not None else (repr(ref) if isinstance(ref, str) else
                                                            ("None" if ref is None else "S"))
        self._exp = {}
        self._atoms = None

    def like(self, other):
        self.base, self.declared = other.base, other.declared
        return self

    @property
    def has_current(self):
        return self.base[dm.current_mks] is not None

    def U(self, s):
        return Unit(s, registry=self.registry) if self.registry is not None else Unit(s)

    def base_atoms(self):
        if self._atoms is None:
            a = set()
            for d, s in self.base.items():
                if s is not None:
                    a |= atom_names(self.U(s))
            self._atoms = a
        return self._atoms

    def expected(self, D):
        """(unit, max |log10| of a partial scale) of dimension D composed independently in
        this system; unit None: needs a current unit the system does not have"""
        if D in self._exp:
            return self._exp[D]
        worst = 0.0
        if D in self.declared:
            u = self.U(self.declared[D])
        else:
            parts = []
            u = None
            for d, e in sympy.expand(D).as_powers_dict().items():
                if d == 1:
                    continue
                s = self.base.get(d)
                if s is None:
                    parts = None
                    break
                parts.append("(%s)**(%s)" % (s, e))
                bv = abs(self.U(s).base_value)
                worst = max(worst, abs(float(e) * math.log10(bv)))
            if parts is not None:
                u = self.U("*".join(parts)) if parts else self.U("")
        self._exp[D] = (u, worst)
        return self._exp[D]

    def allowed_atoms(self, D):
        a = set(self.base_atoms())
        if D in self.declared:
            a |= atom_names(self.U(self.declared[D]))
        return a


BUILTIN = [
    Spec("cgs", "cgs", {dm.length: "cm", dm.mass: "g", dm.time: "s", dm.current_mks: None},
         dict(energy="erg", specific_energy="erg/g", pressure="dyne/cm**2", force="dyne",
              magnetic_field_cgs="gauss", charge_cgs="esu", current_cgs="statA", power="erg/s")),
    Spec("mks", "mks", {dm.length: "m", dm.mass: "kg", dm.time: "s"},
         dict(energy="J", specific_energy="J/kg", pressure="Pa", force="N", magnetic_field_mks="T",
              charge_mks="C", frequency="Hz", power="W", electric_potential_mks="V",
              capacitance_mks="F", inductance_mks="H", resistance_mks="ohm",
              magnetic_flux_mks="Wb", luminous_flux="lm")),
    Spec("builtin", "imperial", {dm.length: "ft", dm.mass: "lb", dm.time: "s", dm.temperature: "R"},
         dict(force="lbf", energy="ft*lbf", pressure="lbf/ft**2", power="hp")),
    Spec("builtin", "galactic", {dm.length: "kpc", dm.mass: "Msun", dm.time: "Myr"},
         dict(energy="keV", magnetic_field_cgs="uG")),
    Spec("builtin", "solar", {dm.length: "AU", dm.mass: "Mearth", dm.time: "yr"}),
    Spec("builtin", "geometrized", {dm.length: "l_geom", dm.mass: "m_geom", dm.time: "t_geom"}),
    Spec("builtin", "planck", {dm.length: "l_pl", dm.mass: "m_pl", dm.time: "t_pl",
                               dm.temperature: "T_pl"}, dict(energy="E_pl", charge_mks="q_pl")),
]


def make_user(name, base, declared=None, how="str", cls=None, coef=None):
    """construct a user-defined system from the spec; `how`: str | unit | quantity.
    Returns (Spec, exception-or-None).  No __getitem__ is performed here: the first use is
    the conversion itself (clause 7)."""
    args = {}
    src = []
    specbase = {}
    for d in BASE_DIMS:
        if d not in base:
            continue
        s = base[d]
        if s is None:
            v, specbase[d], r = None, None, "None"
        elif how == "quantity" and coef and d in coef:
            v, specbase[d], r = coef[d] * Unit(s), "%r*%s" % (coef[d], s), "%r*unyt.Unit(%r)" % (coef[d], s)
        elif how in ("unit", "quantity"):
            v, specbase[d], r = Unit(s), s, "unyt.Unit(%r)" % s
        else:
            v, specbase[d], r = s, s, repr(s)
        args[SLOT[d]] = v
        src.append("%s=%s" % (SLOT[d], r))
    build = "S = unyt.UnitSystem(%r, %s)\n" % (name, ", ".join(src))
    for k, v in (declared or {}).items():
        build += "S[%r] = %r\n" % (k, v)
    if cls is None:
        cls = "user" if base.get(dm.current_mks, "A") is not None else "user-nocurrent"
    sp = Spec(cls, name, specbase, declared, label=name, build=build)
    try:
        S = UnitSystem(name, **args)
        for k, v in (declared or {}).items():
            S[k] = v
        sp.obj = S
        return sp, None
    except Exception as e:  # noqa
        return sp, e


# ----------------------------------------------------------------------------- unit classes
OFFSET_ATOMS = {k for k, v in LUT.items() if v[2] != 0}


def split_prefix(sym):
    if sym in LUT:
        return "", sym
    for p in sorted(unit_prefixes, key=len, reverse=True):
        if sym.startswith(p) and sym[len(p):] in LUT and LUT[sym[len(p):]][4]:
            return p, sym[len(p):]
    return "", sym


def unit_class(u):
    names = atom_names(u)
    if any(split_prefix(n)[1] not in LUT for n in names):
        return "code"
    if u.base_offset != 0:
        return "offset"
    D = u.dimensions
    atomic = u.is_atomic
    if D in SI_EM or D in GS_EM:
        side = "si" if D in SI_EM else "gauss"
        if atomic:
            p, b = split_prefix(str(u.expr))
            if b in EM_CANON:
                return "%s-em-atom%s" % (side, "-prefixed" if p else "")
            return "%s-em-dim-other-atom" % side       # Mx, q_pl
        return "%s-em-dim-compound" % side
    if dm.current_mks in D.free_symbols:
        return "current-compound" if not atomic else "current-atom"
    return "plain"


def family(ucls, sp):
    if "-em-atom" in ucls and not sp.cls.startswith(("user-late", "user-rereg")):
        s = sp.cls if sp.cls in ("cgs", "mks") else ("current" if sp.has_current else "nocurrent")
    else:
        s = sp.cls
    return "%s@%s" % (ucls, s)


def si_value(vals, u):
    return (np.asarray(vals, dtype="f8") - u.base_offset) * u.base_value


# ----------------------------------------------------------------------------- the check
DATA = {
    "f-scalar": lambda: np.float64(2.5),
    "f-array": lambda: np.array([1.5, -2.0, 0.0, 1.0e3]),
    "i-array": lambda: np.array([1, 2, 7], dtype="i8"),
    "i-scalar": lambda: 3,
    "f32-array": lambda: np.array([1.5, -2.0, 4.0], dtype="f4"),
    "i32-array": lambda: np.array([1, 2, 7], dtype="i4"),
}
ALL_KINDS = list(DATA)


def mkq(kind, ustr, reg):
    v = DATA[kind]()
    u = Unit(ustr, registry=reg) if reg is not None else Unit(ustr)
    if np.ndim(v) == 0:
        return unyt_quantity(v, u)
    return unyt_array(v, u)


def close(a, b, rtol, atol=0.0):
    a = np.asarray(a, dtype="f8")
    b = np.asarray(b, dtype="f8")
    if a.shape != b.shape:
        return False
    return bool(np.all(np.abs(a - b) <= atol + rtol * np.maximum(np.abs(a), np.abs(b))))


CALL = "(q.%s(SYS) if SYS is not None else q.%s())"


def replay_for(sp, ustr, kind, body):
    pre = sp.reg_src + sp.build
    v = DATA[kind]()
    vsrc = "np.array(%r, dtype=%r)" % (np.asarray(v).tolist(), str(np.asarray(v).dtype))
    ctor = "unyt.unyt_array" if np.ndim(v) else "unyt.unyt_quantity"
    reg = ", registry=reg" if sp.registry is not None else ""
    pre += "q = %s(%s, unyt.Unit(%r%s))\n" % (ctor, vsrc, ustr, reg)
    pre += "SYS = %s\n" % sp.ref_src
    pre += ("import sympy\ndef sig(u):\n    c, pw = 1.0, {}\n    for f in sympy.Mul.make_args(u.expr):\n"
            "        if f.is_number:\n            c *= float(f)\n        else:\n            b, e = f.as_base_exp()\n"
            "            pw[str(b)] = round(pw.get(str(b), 0.0) + float(e), 9)\n    return pw, c\n"
            "def same(u, v):\n    return sig(u)[0] == sig(v)[0] and abs(sig(u)[1] - sig(v)[1]) <= 1e-12*abs(sig(v)[1])\n")
    return replay_script(pre + body)


GET_R = ("try:\n    r = " + CALL % ("in_base", "in_base") + "\nexcept Exception as e:\n"
         "    print('in_base raised', repr(e)); sys.exit(0)\n"
         "print(repr(q), '->', repr(r), r.units.dimensions)\n")


def check(sp, ustr, kind, full=True):
    """all clauses for q = DATA[kind] * Unit(ustr) in system `sp`"""
    reg = sp.registry
    try:
        q = mkq(kind, ustr, reg)
    except Exception:  # unit cannot be built (offset unit in a product ...): not a case
        return "nobuild"
    u = q.units
    ucls = unit_class(u)
    fam = family(ucls, sp)
    D0 = u.dimensions
    exp_same, worst = sp.expected(D0)
    ckey = "C10[%s|%s|%s]" % (sp.label, ustr, kind)
    # float-range guard (independent of the library): scales whose decimal exponent is
    # beyond +-LOG_LIMIT over/underflow in double arithmetic; such cases are not evaluated
    bv = u.base_value
    bv = abs(bv)
    if not (bv > 0 and math.isfinite(bv)) or abs(math.log10(bv)) > LOG_LIMIT or worst > LOG_LIMIT:
        C.skipped_range += 1
        return "range"
    if exp_same is not None:
        eb = abs(exp_same.base_value)
        if not (eb > 0 and math.isfinite(eb)) or abs(math.log10(eb)) > LOG_LIMIT \
                or abs(math.log10(bv) - math.log10(eb)) > LOG_LIMIT:
            C.skipped_range += 1
            return "range"
        if kind in ("f32-array", "i32-array") and abs(math.log10(bv) - math.log10(eb)) > 25:
            C.skipped_range += 1
            return "range"
    trivial = exp_same is not None and same_unit(u, exp_same)
    C.case(ckey, nontrivial=not trivial, sample={"system": sp.label, "unit": ustr, "data": kind})
    q0 = q.copy()
    ref = sp.ref
    call = (lambda o, m: getattr(o, m)(ref)) if ref is not None else (lambda o, m: getattr(o, m)())
    st, r = safe(call, q, "in_base")
    # the copying variant returns fresh data and never modifies its input
    if st == "ok" and np.ndim(q0) and np.shares_memory(np.asarray(r), np.asarray(q)):
        fail("C10[in_base-aliases-input:%s]" % fam, "(%s).in_base(%s) shares memory with its input" % (ustr, sp.label),
             replay_for(sp, ustr, kind, GET_R + "sys.exit(1 if np.shares_memory(np.asarray(r), np.asarray(q)) else 0)\n"))
    if not (np.array_equal(q.d, q0.d) and q.units.expr == q0.units.expr and q.dtype == q0.dtype):
        fail("C10[in_base-mutates-input:%s]" % fam, "%s %s in_base(%s) changed its input to %r" % (
            kind, ustr, sp.label, q),
            replay_for(sp, ustr, kind, "q0 = q.copy()\n" + GET_R +
                       "sys.exit(0 if np.array_equal(q.d, q0.d) and q.units.expr == q0.units.expr else 1)\n"))
    st_g, g = safe(call, u, "get_base_equivalent")
    if st == "exc":
        if not isinstance(r, UnitsNotReducible):
            fail("C10[raises-other:%s]" % fam, "(%s %s).in_base(%s) raised %r, only UnitsNotReducible "
                 "is allowed" % (kind, ustr, sp.label, r),
                 replay_for(sp, ustr, kind,
                            "try:\n    r = " + CALL % ("in_base", "in_base") + "\n"
                            "except unyt.exceptions.UnitsNotReducible:\n    sys.exit(0)\n"
                            "except Exception as e:\n    print(repr(e)); sys.exit(1)\n"))
        # agreement of the raising behaviour (clause 5)
        if st_g != "exc":
            fail("C10[gbe-disagrees-raise:%s]" % fam, "in_base raised %r but get_base_equivalent "
                 "returned %s for %s in %s" % (r, g, ustr, sp.label),
                 replay_for(sp, ustr, kind, RAISE_AGREE % ("get_base_equivalent", "get_base_equivalent")))
        if full:
            q2 = q0.copy()
            st2, r2 = safe(call, q2, "convert_to_base")
            if st2 != "exc":
                fail("C10[inplace-disagrees-raise:%s]" % fam, "in_base raised but convert_to_base gave "
                     "%r for %s in %s" % (q2, ustr, sp.label))
            elif not (np.array_equal(q2.d, q0.d) and q2.units.expr == q0.units.expr):
                fail("C10[inplace-raise-mutated:%s]" % fam, "convert_to_base raised %r and left %r "
                     "(was %r)" % (r2, q2, q0))
        # a unit without electromagnetic content is reducible in every system
        if ucls in ("plain", "offset", "code") and dm.current_mks not in D0.free_symbols \
                and D0 not in GS_EM and isinstance(r, UnitsNotReducible):
            fail("C10[raises-plain:%s]" % fam, "(%s).in_base(%s) raised UnitsNotReducible though the unit "
                 "has no electromagnetic content" % (ustr, sp.label),
                 replay_for(sp, ustr, kind, "try:\n    " + CALL % ("in_base", "in_base") + "\n"
                            "except Exception as e:\n    print(repr(e)); sys.exit(1)\n"))
        return "raised"
    ru = r.units
    Dr = ru.dimensions
    rt = max(1e-12, 16 * float(np.finfo(r.dtype).eps)) if r.dtype.kind == "f" else 1e-12
    # (1) dimension
    em = None
    if Dr == D0:
        pass
    elif D0 in SI_EM and SI_EM[D0][1] == Dr:
        em = ("si->gauss", SI_EM[D0])
    elif D0 in GS_EM and GS_EM[D0][0] == Dr:
        em = ("gauss->si", GS_EM[D0])
    else:
        fail("C10[dim:%s]" % fam, "(%s).in_base(%s) = %r has dimension %s, input %s" % (
            ustr, sp.label, r, Dr, D0),
            replay_for(sp, ustr, kind, GET_R + "sys.exit(1 if r.units.dimensions != q.units.dimensions else 0)\n"))
        return "dim"
    # (1b) S declares a unit for q's own dimension: no hop to the other EM system is needed
    if em is not None and D0 in sp.declared:
        fail("C10[declared-ignored:%s]" % fam, "%s declares %s for dimension %s, but (%s).in_base gave %r"
             % (sp.label, sp.declared[D0], D0, ustr, r),
             replay_for(sp, ustr, kind, GET_R + "sys.exit(1 if r.units.dimensions != q.units.dimensions else 0)\n"))
    # (2) atoms
    allowed = sp.allowed_atoms(Dr)
    # the documented pairing table names the canonical counterpart in the two systems it is
    # defined between: SI unit -> Gaussian canonical unit in cgs, Gaussian unit -> SI canonical in mks
    canon_ok = em is not None and ((sp.cls == "cgs" and em[0] == "si->gauss") or
                                   (sp.cls == "mks" and em[0] == "gauss->si"))
    if canon_ok:
        allowed = allowed | {em[1][3] if em[0] == "si->gauss" else em[1][2]}
    got = atom_names(ru)
    expu, _ = sp.expected(Dr)
    atoms_ok = got <= allowed and expu is not None
    if not atoms_ok:
        fail("C10[atoms:%s]" % fam, "(%s).in_base(%s) = %r uses %s; the system's base/declared units for "
             "that dimension are %s%s" % (ustr, sp.label, r, sorted(got - allowed), sorted(allowed),
                                         "" if expu is not None else " (and it has no current unit)"),
             replay_for(sp, ustr, kind, GET_R +
                        "bad = {str(s) for s in r.units.expr.free_symbols} - %r\nprint(bad)\n"
                        "sys.exit(1 if bad else 0)\n" % (allowed,)))
    # (2b) the unit is the independently composed one
    if atoms_ok and not canon_ok and not same_unit(ru, expu):
        fail("C10[unit:%s]" % fam, "(%s).in_base(%s) is in %s, the system's unit for %s is %s" % (
            ustr, sp.label, ru, Dr, expu),
            replay_for(sp, ustr, kind, GET_R + "e = unyt.Unit(%r%s)\nprint(e)\nsys.exit(0 if same(r.units, e) else 1)\n"
                       % (str(expu.expr), ", registry=reg" if reg is not None else "")))
    if reg is not None and ru.registry.unit_system_id != reg.unit_system_id:
        fail("C10[registry:%s]" % fam, "result of (%s).in_base(%s) is bound to a different symbol table" % (
            ustr, sp.label))
    # (4) independent SI magnitude
    si_in = si_value(q0.d, u)
    si_out = si_value(r.d, ru)
    off_atol = 0.0
    if u.base_offset != 0 or ru.base_offset != 0:
        off_atol = rt * max(abs(u.base_offset * u.base_value), abs(ru.base_offset * ru.base_value), 1.0)
    if em is None:
        if not close(si_in, si_out, rt, off_atol):
            fail("C10[si-magnitude:%s]" % fam, "(%r).in_base(%s) = %r: SI magnitude in %r, out %r" % (
                q0, sp.label, r, si_in, si_out),
                replay_for(sp, ustr, kind, GET_R +
                           "a = (np.asarray(q.d, float) - q.units.base_offset) * q.units.base_value\n"
                           "b = (np.asarray(r.d, float) - r.units.base_offset) * r.units.base_value\nprint(a, b)\n"
                           "sys.exit(0 if np.allclose(a, b, rtol=%r, atol=%r) else 1)\n" % (rt, off_atol)))
    else:
        _, _, sis, gss, f = em[1]
        si_c = Unit(sis).base_value
        gs_c = Unit(gss).base_value
        if em[0] == "si->gauss":
            a, b, src, dst, F = si_in / si_c, si_out / gs_c, sis, gss, f
        else:
            a, b, src, dst, F = si_in / gs_c, si_out / si_c, gss, sis, 1.0 / f
        if not close(a * F, b, rt):
            fail("C10[em-factor:%s-%s]" % (sis, gss), "(%r).in_base(%s) = %r; 1 %s = %r %s, so %r %s "
                 "are %r %s, got %r" % (q0, sp.label, r, src, F, dst, a, src, a * F, dst, b),
                 replay_for(sp, ustr, kind, GET_R +
                            "a = np.asarray(q.d, float) * q.units.base_value / unyt.Unit(%r).base_value\n"
                            "b = np.asarray(r.d, float) * r.units.base_value / unyt.Unit(%r).base_value\n"
                            "print(a, '%s =', b, '%s; textbook factor', %r)\n"
                            "sys.exit(0 if np.allclose(a * %r, b, rtol=%r) else 1)\n" % (src, dst, src, dst, F, F, rt)))
    # shape preserved, scalar stays quantity
    if r.shape != q0.shape or type(r) is not type(q0):
        fail("C10[shape:%s:%s]" % (kind, sp.cls), "%r -> %r" % (q0, r))
    if not full:
        return "ok"
    # (3) converts back
    st_b, b = safe(r.to, u)
    back_atol = off_atol / max(u.base_value, 1e-300) if off_atol else 0.0
    if st_b == "exc" or not close(b.d, q0.d, rt, back_atol):
        fail("C10[roundtrip:%s]" % fam, "(%s).in_base(%s).to(%s) = %r, original %r" % (
            ustr, sp.label, ustr, b, q0),
            replay_for(sp, ustr, kind, GET_R + "try:\n    b = r.to(q.units)\nexcept Exception as e:\n"
                       "    print(repr(e)); sys.exit(1)\nprint(b)\n"
                       "sys.exit(0 if np.allclose(b.d, q.d, rtol=%r, atol=%r) else 1)\n" % (rt, back_atol)))
    # (5) Unit-level variant, aliases, in-place variants
    if st_g == "exc":
        fail("C10[gbe-disagrees-raise:%s]" % fam, "in_base gave %r but get_base_equivalent raised %r" % (r, g),
             replay_for(sp, ustr, kind, RAISE_AGREE % ("get_base_equivalent", "get_base_equivalent")))
    elif not (same_unit(g, ru) and g.dimensions == Dr):
        fail("C10[gbe:%s]" % fam, "(%s).in_base(%s) is in %s, get_base_equivalent gives %s" % (
            ustr, sp.label, ru, g),
            replay_for(sp, ustr, kind, GET_R + "q = q.units\ng = " + CALL % (("get_base_equivalent",) * 2) +
                       "\nprint(g)\nsys.exit(0 if same(g, r.units) else 1)\n"))
    variants = [("convert_to_base", "x.convert_to_base(SYS) if SYS is not None else x.convert_to_base()", True)]
    if sp.ref == "cgs":
        variants += [("in_cgs", "v = x.in_cgs()", False), ("convert_to_cgs", "x.convert_to_cgs()", True),
                     ("get_cgs_equivalent", None, None)]
    if sp.ref == "mks":
        variants += [("in_mks", "v = x.in_mks()", False), ("convert_to_mks", "x.convert_to_mks()", True),
                     ("get_mks_equivalent", None, None)]
    for name, src, inplace in variants:
        if src is None:
            st_v, v = safe(getattr(u, name))
            if st_v == "exc" or not same_unit(v, ru):
                fail("C10[%s:%s]" % (name, fam), "%s.%s() = %r, in_base unit %s" % (ustr, name, v, ru),
                     replay_for(sp, ustr, kind, GET_R + "try:\n    g = q.units.%s()\nexcept Exception as e:\n"
                                "    print(repr(e)); sys.exit(1)\nprint(g)\nsys.exit(0 if same(g, r.units) else 1)\n" % name))
            continue
        x = q0.copy()
        ns = {"x": x, "SYS": ref}
        try:
            exec(src, ns)
            st_v, v = "ok", (x if inplace else ns["v"])
        except Exception as e:  # noqa
            st_v, v = "exc", e
        rtv = rt
        if st_v == "ok" and v.dtype.kind == "f":
            rtv = max(rt, 16 * float(np.finfo(v.dtype).eps))
        if st_v == "exc" or not same_unit(v.units, ru) or not close(v.d, r.d, rtv, off_atol * rtv / rt) \
                or v.shape != r.shape:
            fail("C10[%s:%s]" % (name, fam), "(%r).%s(%s) -> %r, in_base gave %r" % (q0, name, sp.label, v, r),
                 replay_for(sp, ustr, kind, GET_R + "x = q.copy()\ntry:\n    " + src + "\nexcept Exception as e:\n"
                            "    print(repr(e)); sys.exit(1)\n" + ("v = x\n" if inplace else "") + "print(repr(v))\n"
                            "sys.exit(0 if same(v.units, r.units) and np.allclose(v.d, r.d, rtol=%r, atol=%r) else 1)\n"
                            % (rtv, off_atol * rtv / rt)))
    # (6) idempotent (only meaningful when the first result is inside the system)
    if atoms_ok:
        st_i, r2 = safe(call, r, "in_base")
        if st_i == "exc" or not same_unit(r2.units, ru) or not close(r2.d, r.d, rt, off_atol):
            fail("C10[idempotent:%s]" % fam, "(%s).in_base(%s) = %r, applied again: %r" % (ustr, sp.label, r, r2),
                 replay_for(sp, ustr, kind, GET_R + "q = r\ntry:\n    r2 = " + CALL % ("in_base", "in_base") +
                            "\nexcept Exception as e:\n    print(repr(e)); sys.exit(1)\nprint(repr(r2))\n"
                            "sys.exit(0 if same(r2.units, r.units) and np.allclose(r2.d, r.d, rtol=%r, atol=%r) else 1)\n"
                            % (rt, off_atol)))
    return "ok"


RAISE_AGREE = ("def raised(f):\n    try:\n        f()\n    except Exception as e:\n        print(repr(e)); return True\n"
               "    return False\n"
               "a = raised(lambda: " + CALL % ("in_base", "in_base") + ")\n"
               "q = q.units\nb = raised(lambda: " + CALL + ")\nsys.exit(1 if a != b else 0)\n")


# ----------------------------------------------------------------------------- unit pools
ATOMS = list(LUT)
PREFIXED_EM = [p + b for b in sorted(EM_CANON) for p in unit_prefixes]
EM_SOME = ["mC", "kstatC", "uG", "kG", "mT", "nT", "mA", "kstatA", "mV", "kV", "mstatV", "kΩ", "mstatohm", "MG"]
F32_ATOMS = ["km", "mile", "lb", "hr", "degC", "degF", "R", "erg", "eV", "hp", "atm", "G", "T", "C", "statC", "A",
             "V", "statV", "Ω", "statohm", "degree", "lat", "dB", "mol", "%", "L", "kt", "Wb", "lm", "Msun", "pc"]
PINNED_COMPOUNDS = [
    "g/cm**3", "km/s", "erg/s", "J/m**3", "kg*m**2/s**2", "N*m", "dyn/cm**2", "W/m**2/K**4", "erg/g", "J/kg/K",
    "Msun/pc**3", "mile/hr", "lbf*ft", "kW*hr", "cm**(3/2)*g**(1/2)/s", "sqrt(erg*cm)", "sqrt(dyn)", "g**(1/3)*cm",
    "statC/s", "G*cm", "G**2", "statC**2/cm", "statV/cm", "esu/cm**2", "Mx/cm**2", "s/cm", "s/m", "sqrt(g)/(sqrt(cm)*s)",
    "C/s", "A*s", "T*m", "V/m", "C/m**2", "A/m", "Wb/m**2", "ohm*m", "F/m", "H/m", "C*T*V", "kg/(A*s**2)", "J/C",
    "W/A", "V/A", "N/A**2", "A**2*s**4/(kg*m**3)", "mA*hr", "uA/cm**2", "C**2/(N*m**2)", "J/T", "A*m**2",
    "cd*sr", "lm/m**2", "cd/cm**2", "rad/s", "degree/hr", "sr*Hz", "erg/s/cm**2/Hz/sr", "Jy/sr", "photons/s/cm**2",
    "dB/m", "Np/km", "B*s", "K/km", "delta_degC/m", "delta_degF*lb", "R*ft", "mol/L", "percent*m", "1/pc**3", "Hz**(1/2)",
    "m**(2/3)", "kg**(-1/2)*s", "eV/amu", "keV*cm**2", "Mpc/Gyr", "km/s/Mpc", "Lsun/Msun", "gal_US/min", "acre*ft",
    "BTU/(hr*ft**2*R)", "psi*inch**2", "slug*ft/s**2", "ha*mm/day", "oz/yd**2", "kt*hr", "c*yr", "me*c**2", "mp/cm**3",
]
COMPOUND_POOL = [a for a in ATOMS if a not in OFFSET_ATOMS and a not in ("dimensionless", "%")]


def random_compound(rng):
    n = rng.choice([2, 2, 3, 3, 4])
    parts = []
    for i in range(n):
        a = rng.choice(COMPOUND_POOL)
        if LUT[a][4] and rng.random() < 0.3:
            a = rng.choice(list(unit_prefixes)) + a
        e = rng.choice(["1", "1", "1", "-1", "-1", "2", "-2", "3", "1/2", "-1/2", "3/2", "1/3", "2/3", "-3"])
        parts.append(a if e == "1" else "%s**(%s)" % (a, e))
    return "*".join(parts)


# ----------------------------------------------------------------------------- system builders
CODE_REG_SRC = ("reg = unyt.UnitRegistry()\n"
                "reg.add('code_length', 3.0856775809623245e+22, unyt.dimensions.length)\n"
                "reg.add('code_mass', 1.98841586e+40, unyt.dimensions.mass)\n"
                "reg.add('code_time', 3.15576e+16, unyt.dimensions.time)\n"
                "reg.add('code_temperature', 2.5, unyt.dimensions.temperature)\n"
                "reg.add('code_magnetic', 1.5e-7, unyt.dimensions.magnetic_field_cgs)\n"
                "reg.add('code_velocity', 9.7779222e5, unyt.dimensions.velocity)\n")
CODE_UNITS = ["code_length", "code_mass", "code_time", "code_temperature", "code_magnetic", "code_velocity",
              "code_mass/code_length**3", "code_length/code_time", "code_velocity**2", "code_magnetic**2",
              "code_mass*code_velocity/code_time", "code_length*cm", "g/code_length**3", "code_time**(-1/2)",
              "code_mass*code_length**2/code_time**2", "erg/code_length**3", "code_temperature/K"]


def make_code_registry():
    ns = {"unyt": unyt}
    exec(CODE_REG_SRC, ns)
    return ns["reg"]


PINNED_USERS = [
    dict(name="c10_astro", base={dm.length: "km", dm.mass: "Msun", dm.time: "Gyr"}),
    dict(name="c10_atomic", base={dm.length: "nm", dm.mass: "mp", dm.time: "fs", dm.temperature: "nK",
                                  dm.angle: "rad"}, declared={"energy": "eV"}),
    dict(name="C10_UnitObj", base={dm.length: "Mpc", dm.mass: "Msun", dm.time: "s"}, how="unit"),
    dict(name="c10_quant", base={dm.length: "Mpc", dm.mass: "Msun", dm.time: "s", dm.current_mks: "A"},
         how="quantity", coef={dm.length: 3.0, dm.mass: 0.8, dm.time: 42.0, dm.current_mks: 0.5}),
    dict(name="c10_alias", base={dm.length: "kilometer", dm.mass: "gram", dm.time: "minute",
                                 dm.temperature: "kelvin", dm.angle: "deg"}),
    dict(name="c10_nocur", base={dm.length: "mm", dm.mass: "mg", dm.time: "ms", dm.current_mks: None}),
    dict(name="c10_nocur_decl", base={dm.length: "m", dm.mass: "kg", dm.time: "s", dm.current_mks: None},
         declared={"charge_cgs": "esu", "magnetic_field_cgs": "mG", "energy": "J", "pressure": "bar"}),
    dict(name="c10_allbase", base={dm.length: "inch", dm.mass: "oz", dm.time: "min", dm.temperature: "R",
                                   dm.angle: "degree", dm.current_mks: "mA",
                                   dm.luminous_intensity: "kcd", dm.logarithmic: "dB"}),
    dict(name="c10_decl", base={dm.length: "m", dm.mass: "kg", dm.time: "s"},
         declared={"energy": "erg", "velocity": "km/s", "pressure": "bar", "magnetic_field_mks": "mT",
                   "charge_mks": "mA*hr", "force": "kip", "frequency": "1/min", "area": "ha",
                   "magnetic_field_cgs": "G", "power": "hp"}),
    dict(name="c10_offsetbase", base={dm.length: "m", dm.mass: "kg", dm.time: "s", dm.temperature: "degC"},
         cls="user-offsetbase"),
]


def random_user_args(rng, i):
    by_dim = {}
    for k, v in LUT.items():
        by_dim.setdefault(v[1], []).append(k)
    base = {}
    coef = {}
    for d in BASE_DIMS:
        if d in (dm.temperature, dm.angle, dm.luminous_intensity, dm.logarithmic) and rng.random() < 0.5:
            continue        # constructor default
        if d == dm.current_mks:
            r = rng.random()
            if r < 0.3:
                base[d] = None
                continue
            if r < 0.6:
                continue
        cands = [a for a in by_dim[d] if a not in OFFSET_ATOMS]
        a = rng.choice(cands)
        if LUT[a][4] and rng.random() < 0.5:
            a = rng.choice(list(unit_prefixes)) + a
        base[d] = a
        if rng.random() < 0.4:
            coef[d] = rng.choice([2.0, 0.5, 10.0, 3.0, 0.8, 42.0, 1.0e10])
    how = rng.choice(["str", "str", "unit", "quantity"])
    declared = {}
    for name, cands in (("energy", by_dim[dm.energy]), ("force", by_dim[dm.force]),
                        ("pressure", by_dim[dm.pressure]), ("power", by_dim[dm.power]),
                        ("velocity", ["km/s", "mile/hr", "c", "cm/s", "kt"]),
                        ("volume", by_dim[dm.volume]), ("area", ["ha", "acre", "cm**2", "km**2"]),
                        ("density", ["g/cm**3", "Msun/pc**3", "lb/ft**3"]),
                        ("frequency", ["Hz", "1/min", "kHz"])):
        if rng.random() < 0.25:
            declared[name] = rng.choice(cands)
    return dict(name="c10_rand%d" % i, base=base, declared=declared, how=how, coef=coef)


# ----------------------------------------------------------------------------- tasks
def run_units(sp, units, kinds_full, kinds_light=()):
    for ustr in units:
        first = True
        for kind in list(kinds_full) + list(kinds_light):
            try:
                res = check(sp, ustr, kind, full=(kind in kinds_full or kind in ("i32-array", "f32-array")))
            except Exception as e:  # driver problem, not a verdict
                C.notes.append("driver exception %s %s %s: %r" % (sp.label, ustr, kind, e))
                res = "err"
            if first and res in ("nobuild", "err"):
                break
            first = False


def task_builtin(i, part, compounds, thorough):
    sp = BUILTIN[i]
    if part == "atoms":
        run_units(sp, ATOMS, ["f-scalar", "i-array"], ["f-array", "i-scalar"])
        run_units(sp, ATOMS if thorough else F32_ATOMS, ["f32-array", "i32-array"])
    elif part == "em":
        run_units(sp, PREFIXED_EM, ["f-scalar"], ["i-array"] if thorough else [])
        # code units converted to the built-in system
        reg = make_code_registry()
        sp2 = Spec(sp.cls, sp.ref, {}, registry=reg, label=sp.label + "+codereg", reg_src=CODE_REG_SRC).like(sp)
        run_units(sp2, CODE_UNITS, ["f-scalar"], ["i-array"])
    else:
        run_units(sp, compounds, ["f-array"], ["i-scalar"] if thorough else [])


def task_user(args, compounds, thorough, pinned):
    sp, exc = make_user(**args)
    C.case("C10[construct|%s]" % sp.label)
    if exc is not None:
        # same key family as task_spellings (which enumerates the spellings exhaustively)
        form = "unit-object" if args.get("how") in ("unit", "quantity") else "symbol"
        fail("C10[construct-rejects-valid:%s]" % form, "valid user system %s rejected: %r\n%s" % (
            sp.label, exc, sp.build),
            replay_script("try:\n" + "".join("    " + l + "\n" for l in sp.build.splitlines()) +
                          "except Exception as e:\n    print(repr(e)); sys.exit(1)\n"))
        return
    if USR.get(sp.ref) is not sp.obj:
        fail("C10[registered:%s]" % sp.cls, "UnitSystem(%r) is not unit_system_registry[%r]" % (sp.ref, sp.ref),
             replay_script(sp.build + "sys.exit(0 if unyt.unit_systems.unit_system_registry.get(%r) is S else 1)\n" % sp.ref))
    run_units(sp, ATOMS, ["f-scalar"], ["i-array"] if pinned else [])
    run_units(sp, F32_ATOMS, ["f32-array", "i32-array"] if pinned else ["i-scalar"])
    run_units(sp, PREFIXED_EM if (pinned and thorough) else EM_SOME, ["f-scalar"])
    run_units(sp, compounds, ["f-array"])
    # the same system addressed by object instead of by name
    sp2 = Spec(sp.cls, sp.obj, {}, label=sp.label + "-obj", build=sp.build).like(sp)
    run_units(sp2, ["erg/s", "mile", "T", "G", "degC", "J/K"], ["f-scalar"])


def task_code(which, compounds, thorough):
    """code-unit registries: system named after the registry id, reached as 'code', as object,
    through a dataset-like object, and as the registry's default system via in_base()"""
    reg = make_code_registry()
    base = {dm.length: "code_length", dm.mass: "code_mass", dm.time: "code_time",
            dm.temperature: "code_temperature"}
    build = ("S = unyt.UnitSystem(reg.unit_system_id, 'code_length', 'code_mass', 'code_time', "
             "'code_temperature', registry=reg)\n")
    if which == "cgs-default":
        reg2 = UnitRegistry(unit_system="cgs")
        sp = Spec("cgs", None, {}, registry=reg2, label="cgs-default",
                  reg_src="reg = unyt.UnitRegistry(unit_system='cgs')\n").like(BUILTIN[0])
        run_units(sp, ATOMS, ["f-scalar"], ["i-array"])
        run_units(sp, EM_SOME, ["f-scalar"])
        run_units(sp, compounds[:len(PINNED_COMPOUNDS) + 30], ["f-array"])
        return
    C.case("C10[construct|code]")
    try:
        S = UnitSystem(reg.unit_system_id, "code_length", "code_mass", "code_time", "code_temperature", registry=reg)
    except Exception as e:  # noqa
        fail("C10[construct-rejects-valid:code]", "code unit system rejected: %r" % e,
             replay_script(CODE_REG_SRC + "try:\n    " + build + "except Exception as e:\n    print(repr(e)); sys.exit(1)\n"))
        return
    if which == "code":
        sp = Spec("code", "code", base, registry=reg, label="code", build=build, reg_src=CODE_REG_SRC)
    elif which == "code-obj":
        sp = Spec("code", S, base, registry=reg, label="code-obj", build=build, reg_src=CODE_REG_SRC)
    elif which == "code-ds":
        class DS:
            unit_registry = reg
        sp = Spec("code", DS(), base, registry=reg, label="code-ds", build=build, reg_src=CODE_REG_SRC,
                  ref_src="type('DS', (), {'unit_registry': reg})()")
    else:
        reg.unit_system = S
        sp = Spec("code", None, base, registry=reg, label="code-default", build=build + "reg.unit_system = S\n",
                  reg_src=CODE_REG_SRC)
    run_units(sp, CODE_UNITS + ATOMS, ["f-scalar"], ["i-array"])
    run_units(sp, F32_ATOMS + CODE_UNITS, ["f32-array", "i32-array"])
    run_units(sp, EM_SOME, ["f-scalar"])
    run_units(sp, compounds if thorough else compounds[:len(PINNED_COMPOUNDS) + 30], ["f-array"])


def task_late_override():
    """clause 2 over time: an override set after the system has been used must be honoured
    (the synthesised unit is memoised, the EM route caches its answer)"""
    for tag, dimname, over, probes in (
            ("derived", "energy", "eV", ["J", "erg", "kW*hr"]),
            ("em", "magnetic_field_mks", "T", ["mT", "kT", "T"]),
            ("em-charge", "charge_mks", "C", ["mC", "C", "A*s"])):
        name = "c10_late_" + tag
        build = "S = unyt.UnitSystem(%r, 'km', 'kg', 'hr')\n" % name
        try:
            S = UnitSystem(name, "km", "kg", "hr")
        except Exception as e:  # noqa
            C.notes.append("late override: %r" % e)
            continue
        sp = Spec("user", name, {dm.length: "km", dm.mass: "kg", dm.time: "hr"}, label=name, build=build)
        run_units(sp, probes, [], ["f-scalar"])
        S[dimname] = over
        sp2 = Spec("user-late-override-" + tag, name, {dm.length: "km", dm.mass: "kg", dm.time: "hr"},
                   {dimname: over}, label=name + "+late",
                   build=build + "".join("(1.0*unyt.Unit(%r)).in_base(%r)\n" % (p, name) for p in probes)
                   + "S[%r] = %r\n" % (dimname, over))
        run_units(sp2, probes, ["f-scalar"])


def task_reregister():
    """a system constructed again under an existing name replaces the old one for every route"""
    for name, b1, b2 in (("c10_rereg", ("km", "kg", "hr"), ("cm", "g", "min")),
                         ("c10_rereg_cur", ("m", "kg", "s"), ("mm", "g", "ms"))):
        try:
            UnitSystem(name, *b1)
        except Exception as e:  # noqa
            C.notes.append("reregister: %r" % e)
            continue
        build1 = "unyt.UnitSystem(%r, %r, %r, %r)\n" % ((name,) + b1)
        probes = ["erg/s", "mile", "T", "mT", "C", "kC", "J/K", "N", "V", "Wb"]
        sp = Spec("user", name, dict(zip(BASE_DIMS[:3], b1)), label=name, build="S = " + build1)
        run_units(sp, probes, [], ["f-scalar"])
        try:
            UnitSystem(name, *b2)
        except Exception as e:  # noqa
            C.notes.append("reregister: %r" % e)
            continue
        sp2 = Spec("user-reregistered", name, dict(zip(BASE_DIMS[:3], b2)), label=name + "+again",
                   build=build1 + "".join("(1.0*unyt.Unit(%r)).in_base(%r)\n" % (p, name) for p in probes)
                   + "S = unyt.UnitSystem(%r, %r, %r, %r)\n" % ((name,) + b2))
        run_units(sp2, probes, ["f-scalar"])


def task_spellings():
    """clause 7: every spelling of a valid base unit is accepted and usable at once"""
    n = 0
    for d in BASE_DIMS:
        probe = {dm.length: "m", dm.mass: "kg", dm.time: "s", dm.temperature: "K", dm.angle: "rad",
                 dm.current_mks: "A", dm.luminous_intensity: "cd", dm.logarithmic: "Np"}[d]
        for a, row in LUT.items():
            if row[1] != d:
                continue
            forms = [("symbol", a, a, repr(a))]
            for alt in ALT.get(a, ()):
                forms.append(("alias", alt, a, repr(alt)))
            if row[4]:
                forms.append(("prefixed", "k" + a, "k" + a, repr("k" + a)))
                for alt in ALT.get(a, ()):
                    if len(alt) > 3 and alt.isalpha():
                        forms.append(("prefixed-alias", "kilo" + alt, "k" + a, repr("kilo" + alt)))
            forms.append(("unit-object", Unit(a), a, "unyt.Unit(%r)" % a))
            forms.append(("quantity", 2.0 * Unit(a), "2.0*" + a, "2.0*unyt.Unit(%r)" % a))
            for how, val, specstr, src in forms:
                n += 1
                name = "c10_sp%d" % n
                kw = {"length_unit": "m", "mass_unit": "kg", "time_unit": "s"}
                kw[SLOT[d]] = val
                ksrc = {k: repr(v) for k, v in kw.items()}
                ksrc[SLOT[d]] = src
                build = "S = unyt.UnitSystem(%r, %s)\n" % (name, ", ".join("%s=%s" % kv for kv in ksrc.items()))
                C.case("C10[spelling|%s|%s|%s]" % (SLOT[d], how, val))
                st, S = safe(UnitSystem, name, **kw)
                if st == "exc":
                    fail("C10[construct-rejects-valid:%s]" % how, "UnitSystem(%s=%s) raised %r" % (SLOT[d], src, S),
                         replay_script("try:\n    " + build + "except Exception as e:\n    print(repr(e)); sys.exit(1)\n"))
                    continue
                if row[2] != 0:
                    continue            # offset base units are exercised by the pinned system
                base = {dm.length: "m", dm.mass: "kg", dm.time: "s"}
                base[d] = specstr
                sp = Spec("user-spelling-" + how, name, base, label=name, build=build)
                run_units(sp, [probe], ["f-scalar"])
                USR.pop(name, None)


def task_wrong_dimension(thorough):
    """clause 8: a base unit of the wrong dimension is rejected at construction, with
    IllDefinedUnitSystem, and nothing is registered"""
    good = {dm.length: "m", dm.mass: "kg", dm.time: "s", dm.temperature: "K", dm.angle: "rad",
            dm.current_mks: "A", dm.luminous_intensity: "cd", dm.logarithmic: "Np"}
    extra = ["km/s", "m**2", "1/s", "kg*m", "km", "mK", "3*s"]
    n = 0
    for d in BASE_DIMS:
        for how in ("str", "unit", "registry"):
            cands = ATOMS + extra if how != "unit" else ATOMS + extra[:4]
            for a in cands:
                try:
                    ua = Unit(a)
                except Exception:  # noqa
                    continue
                if ua.dimensions == d:
                    continue
                n += 1
                if how != "str" and not thorough and (n % 3):
                    continue
                kw = {SLOT[x]: good[x] for x in BASE_DIMS}
                kw[SLOT[d]] = ua if how == "unit" else a
                if how == "registry":
                    kw["registry"] = UnitRegistry()
                name = "c10_bad"
                USR.pop(name, None)
                C.case("C10[reject|%s|%s|%s]" % (SLOT[d], a, how))
                st, e = safe(UnitSystem, name, **kw)
                slot = SLOT[d]
                shape = "atom" if a in LUT else ("prefixed" if split_prefix(a)[1] in LUT and a.isalnum() else "compound")
                src = "try:\n    unyt.UnitSystem('c10_bad', %s)\n" % ", ".join(
                    "%s=%s" % (k, ("unyt.Unit(%r)" % str(v.expr)) if isinstance(v, Unit) else
                               ("unyt.UnitRegistry()" if k == "registry" else repr(v))) for k, v in kw.items())
                if st == "ok":
                    fail("C10[accepts-wrong-dimension:%s:%s:%s]" % (slot, shape, how),
                         "UnitSystem(..., %s=%r) accepted (%s is not %s)" % (slot, a, ua.dimensions, d),
                         replay_script(src + "except Exception as e:\n    print(repr(e)); sys.exit(0)\nsys.exit(1)\n"))
                elif not isinstance(e, IllDefinedUnitSystem):
                    fail("C10[rejects-with-other-error:%s:%s]" % (shape, how),
                         "UnitSystem(..., %s=%r) raised %r instead of IllDefinedUnitSystem" % (slot, a, e),
                         replay_script(src + "except unyt.exceptions.IllDefinedUnitSystem:\n    sys.exit(0)\n"
                                       "except Exception as e:\n    print(repr(e)); sys.exit(1)\n"))
                if name in USR:
                    if st != "ok":
                        fail("C10[rejected-but-registered:%s]" % how, "failed UnitSystem(%s=%r) left an entry in "
                             "unit_system_registry" % (slot, a))
                    USR.pop(name, None)


def task_history(idx, H):
    """one history = one process; references come from forks taken before the first step"""
    problems, ncmp = HL.h_run(H)
    for n, d, via, ureg, mode, off in HL.h_uses(H):
        for ustr in H["panel"]:
            C.case("C10[history|%d|%d|%s]" % (idx, n, ustr), nontrivial=n > (0 if d is None else 1))
    tag = "%s:%s" % (H["kind"], H["what"])
    for fam in ("history", "variants"):
        ps = [p for p in problems if p[0] == fam]
        if ps:
            fail("C10[%s:%s]" % ("history" if fam == "history" else "history-variants", tag),
                 "%s (%d of %d outcomes of this history differ; units %s)" % (
                     ps[0][3], len(ps), ncmp, ", ".join(sorted({p[2] for p in ps})[:12])),
                 HL.replay_for(H, fam))


TASKS = []


def run_task(i):
    global C
    C = Col()
    t0 = time.time()
    fn, args = TASKS[i]
    try:
        fn(*args)
    except Exception as e:  # noqa
        import traceback
        C.notes.append("task %s crashed: %r %s" % (fn.__name__, e, traceback.format_exc()[-600:]))
    if os.environ.get("C10_TIMING"):
        C.notes.insert(0, "task %d %s %.1fs" % (i, fn.__name__, time.time() - t0))
    return i, C.cases, C.fails, C.notes, C.skipped_range


def main():
    rng = R.rng
    thorough = R.thorough
    n_comp = 2500 if thorough else 150
    n_sys = 60 if thorough else 8
    compounds = list(PINNED_COMPOUNDS)
    seen = set(compounds)
    while len(compounds) < len(PINNED_COMPOUNDS) + n_comp:
        c = random_compound(rng)
        if c not in seen:
            seen.add(c)
            compounds.append(c)
    few = compounds[:len(PINNED_COMPOUNDS)]

    for i in range(len(BUILTIN)):
        for part in ("atoms", "em", "compounds"):
            TASKS.append((task_builtin, (i, part, compounds, thorough)))
    for a in PINNED_USERS:
        TASKS.append((task_user, (a, compounds if thorough else compounds[:len(few) + 60], thorough, True)))
    for i in range(n_sys):
        a = random_user_args(rng, i)
        some = few + rng.sample(compounds[len(few):], min(25 if not thorough else 400, n_comp))
        TASKS.append((task_user, (a, some, thorough, False)))
    for which in ("code", "code-obj", "code-ds", "code-default", "cgs-default"):
        TASKS.append((task_code, (which, compounds, thorough)))
    TASKS.append((task_late_override, ()))
    TASKS.append((task_reregister, ()))
    TASKS.append((task_spellings, ()))
    TASKS.append((task_wrong_dimension, (thorough,)))
    hists = HL.pinned_histories()
    for i in range(400 if thorough else 24):
        hists.append(HL.random_history(rng))
    for i, H in enumerate(hists):
        TASKS.append((task_history, (i, H)))

    ctx = mp.get_context("fork")
    with ctx.Pool(min(16, len(TASKS)), maxtasksperchild=1) as pool:
        results = pool.map(run_task, range(len(TASKS)), chunksize=1)
    skipped = 0
    for i, cases, fails, notes, nskip in sorted(results):
        for key, nontrivial, sample in cases:
            R.case(key, nontrivial, sample if len(R.samples) < 6 and i % 5 == 0 else None)
        for key, what, replay in fails:
            if key not in failed_keys:
                failed_keys.add(key)
                R.fail(key, what, replay)
        R.notes.extend(notes[:10])
        skipped += nskip
    if skipped:
        R.notes.append("%d generated (system, unit) pairs not evaluated: a scale or partial scale lies outside "
                       "1e+-%d (double overflow/underflow territory)" % (skipped, int(LOG_LIMIT)))
    R.finish()


failed_keys = set()

try:
    main()
except SystemExit:
    raise
except Exception as e:  # noqa
    import traceback
    R.notes.append("driver crashed: %r %s" % (e, traceback.format_exc()[-800:]))
    R.finish()
