"""C12 bounded stand-in: registry edits take effect everywhere, immediately, regardless of
history -- on the real package.

All histories over a fixed operation alphabet up to a bounded length are replayed on a custom
UnitRegistry; after the history a fixed probe set (atomic / prefixed / compound strings, registry
lookups, array creation, conversion, array and unit arithmetic, objects created earlier) is
compared with what the net table of the history implies (see lib_c12_hist.py for the oracle
and the key scheme).  Beyond the exhaustive bound: seeded random histories of length 40, runs with
warm process-wide caches, and twin registries for every lru-cached unit rule."""
import itertools
import multiprocessing as mp
import os
import sys

sys.path.insert(0, os.path.dirname(os.path.abspath(__file__)))
from common import Run, replay_script  # noqa: E402

R = Run("C12",
        "all sequences over an alphabet of registry edits (add / re-add with other dimension / "
        "modify by float / modify by quantity / remove / define_unit / modify+remove of a prefixed "
        "spelling; on a prefixable focus symbol, a second prefixable and a non-prefixable symbol) "
        "and observation calls, in two regimes (dense: every probe after every step; sparse: only "
        "the observation calls in the sequence, all probes at the end); registry = 4 base symbols "
        "or the full default table with focus symbol pc; plus seeded random sequences of length 40 "
        "(cold and with warm process-wide caches) and twin registries per lru-cached unit rule. "
        "non-trivial = at least one edit precedes the final observation",
        "quick: dense 13-edit alphabet len<=3, dense 8-edit alphabet len<=4, sparse 14-op alphabet "
        "(8 edits + 6 observations) len<=4, default-table len<=2, 120 random len-40; thorough: "
        "4 / 5 (+ len 6 over 6 edits) / 5 / 3 / 900 random")

import lib_c12_hist as H  # noqa: E402

CFG_SMALL = ("small", "foo", "qux", "baz")
CFG_DEF = ("defaults", "pc", "qux", "baz")
_worlds = {}


def world(cfgt):
    w = _worlds.get(cfgt)
    if w is None:
        w = _worlds[cfgt] = H.World(H.Cfg(*cfgt))
    return w


def run_task(task):
    """task = (cfg tuple, mode, alphabet, length, prefix, check, check_id, warm, explicit list|None)"""
    cfgt, mode, alphabet, length, prefix, check, check_id, warm, explicit, pset = task
    w = world(cfgt)
    n = nontriv = 0
    first = {}
    notes = []
    if explicit is not None:
        it = explicit
    else:
        it = (prefix + rest for rest in itertools.product(alphabet, repeat=length - len(prefix)))
    for idx, names in enumerate(it):
        try:
            if warm:
                H.clear_process_caches()
                H.run_history(w, mode, names, check=check, clear=False, pset=pset, warm=True)   # the twin warms the caches
                fails, info = H.run_history(w, mode, names, check=check, clear=False, pset=pset, warm=True)
            else:
                fails, info = H.run_history(w, mode, names, check=check, check_id=check_id, pset=pset)
        except Exception as e:       # driver problem, not a finding
            notes.append("driver exception on %s %s: %r" % (mode, names, e))
            continue
        n += 1
        if info["nontrivial"]:
            nontriv += 1
        for key, what, rargs in fails:
            if warm:
                what = "[warm caches: same history first run on a twin registry] " + what
            if key not in first:
                first[key] = (len(names), idx, what, rargs, cfgt, warm)
    return n, nontriv, first, notes[:3]


def sections():
    q = not R.thorough
    S = []

    def exhaustive(cfgt, mode, alphabet, maxlen, check_id=False, warm=False):
        alphabet = tuple(alphabet)
        pset = "F" if all(a in H.EDITS_F or a in H.OBS_F for a in alphabet) else "all"
        if pset == "F" and mode == "sparse":
            pset = "Fcore"          # final sweep of the exhaustive sparse runs: 10 core probes
        for L in range(1, maxlen + 1):
            pl = min(L, 2 if len(alphabet) ** L > 4000 else 1)
            if L <= 1 or len(alphabet) ** L <= 300:
                S.append((cfgt, mode, alphabet, L, (), "final", check_id, warm, None, pset))
                continue
            for pre in itertools.product(alphabet, repeat=pl):
                S.append((cfgt, mode, alphabet, L, pre, "final", check_id, warm, None, pset))

    sparse_alpha = H.EDITS_F + H.OBS_F
    exhaustive(CFG_SMALL, "dense", H.EDITS_ALL, 3 if q else 4)
    exhaustive(CFG_SMALL, "dense", H.EDITS_F, 4 if q else 5, check_id=True)
    if not q:
        # length 6 without the two edits of the derived row kfoo
        a6 = tuple(H.EDITS_F[:6])
        for pre in itertools.product(a6, repeat=2):
            S.append((CFG_SMALL, "dense", a6, 6, pre, "final", False, False, None, "F"))
    exhaustive(CFG_SMALL, "sparse", sparse_alpha, 4 if q else 5)
    exhaustive(CFG_DEF, "dense", H.EDITS_F, 2 if q else 3)
    exhaustive(CFG_DEF, "sparse", sparse_alpha, 2 if q else 3)
    exhaustive(CFG_SMALL, "dense", H.EDITS_ALL, 2, warm=True)
    # seeded random histories, length 40, full alphabet; every step compared
    full = H.EDITS_ALL + H.OBS_ALL
    nrand = 120 if q else 900
    batch = []
    for i in range(nrand):
        mode = "dense" if i % 3 == 0 else "sparse"
        alpha = H.EDITS_ALL if mode == "dense" else full
        names = tuple(R.rng.choice(alpha) for _ in range(40))
        batch.append((mode, names, i % 5 == 4))
    for mode in ("dense", "sparse"):
        for warm in (False, True):
            hs = [b[1] for b in batch if b[0] == mode and b[2] == warm]
            for j in range(0, len(hs), 10):
                S.append((CFG_SMALL, mode, (), 40, (), "all", False, warm, hs[j:j + 10], "all"))
    # short histories first (they already exhibit every defect family), then the random ones,
    # then the deep levels: if the time budget is ever hit only deep levels are dropped
    S.sort(key=lambda t: 0 if t[3] <= 3 else (1 if t[3] == 40 else 2))
    return S


def twins():
    """Every lru-cached unit rule, evaluated for registry B after the same call was made for a
    registry A with an identical table: the result must belong to B (left operand's registry),
    and must equal what B answers with cold caches."""
    import numpy as np
    from unyt import unyt_array
    out = []

    def arr(r, s, data=(1.0, 2.0)):
        return unyt_array(list(data), s, registry=r)

    OPS = [
        ("multiply", "arr(r,'foo')*arr(r,'qux')", lambda r: arr(r, "foo") * arr(r, "qux")),
        ("divide", "arr(r,'foo')/arr(r,'qux')", lambda r: arr(r, "foo") / arr(r, "qux")),
        ("add", "arr(r,'foo')+arr(r,'foo')", lambda r: arr(r, "foo") + arr(r, "foo")),
        ("subtract", "arr(r,'foo')-arr(r,'foo')", lambda r: arr(r, "foo") - arr(r, "foo")),
        ("sqrt", "np.sqrt(arr(r,'foo'))", lambda r: np.sqrt(arr(r, "foo"))),
        ("cbrt", "np.cbrt(arr(r,'foo'))", lambda r: np.cbrt(arr(r, "foo"))),
        ("square", "np.square(arr(r,'foo'))", lambda r: np.square(arr(r, "foo"))),
        ("power", "arr(r,'foo')**3", lambda r: arr(r, "foo") ** 3),
        ("reciprocal", "np.reciprocal(arr(r,'foo'))", lambda r: np.reciprocal(arr(r, "foo"))),
    ]
    OPS_DEF = [
        ("em-convert", "arr(r,'T').to('G')", lambda r: arr(r, "T").to("G")),
        ("in_cgs", "arr(r,'foo').in_cgs()", lambda r: arr(r, "foo").in_cgs()),
        ("in_base-em", "arr(r,'C').in_base('cgs')", lambda r: arr(r, "C").in_base("cgs")),
    ]
    SETUP = ("def mk():\n    r = mk_registry(%r)\n    r.add('foo', 2.0, _d.length, prefixable=True)\n"
             "    r.add('qux', 7.0, _d.time, prefixable=True)\n    return r\n"
             "def arr(r, s, data=(1.0, 2.0)):\n    return unyt_array(list(data), s, registry=r)\n")
    for base, ops in (("small", OPS), ("defaults", OPS + OPS_DEF)):
        ns = {}
        exec(H.SHARED_SRC + SETUP % base, ns)
        for name, src, fn in ops:
            key = "C12[lru-foreign-registry:%s]" % name
            R.case("twins:%s:%s" % (base, name), sample={"twins": name, "base": base})
            try:
                H.clear_process_caches()
                a, b = ns["mk"](), ns["mk"]()
                fn(a)
                warm = fn(b)
                H.clear_process_caches()
                cold = fn(b)
                bad = []
                if warm.units.registry is not b:
                    bad.append("result of %s for registry B is bound to %s" % (
                        src, "registry A (same table, used first)" if warm.units.registry is a else "a third registry"))
                if cold.units.registry is not b:
                    bad.append("cold result not bound to B either")
                if not (np.allclose(warm.value, cold.value, rtol=1e-12)
                        and warm.units.base_value == cold.units.base_value
                        and warm.units.dimensions == cold.units.dimensions):
                    bad.append("warm %r vs cold %r" % (warm, cold))
                if bad and not any(f["key"] == key for f in R.failures):
                    body = (H.SHARED_SRC + SETUP % base + "clear_process_caches()\nA, B = mk(), mk()\nr = A\n%s\nr = B\nres = %s\n"
                            "print('registry of the result for B: is B', res.units.registry is B, '; is A', res.units.registry is A)\n"
                            "A.modify('foo', 5.0)\n"
                            "print('after A.modify(foo, 5.0):', res, '->', res.to(str(res.units)), '(B was never edited)')\n"
                            "sys.exit(0 if res.units.registry is B else 1)" % (src, src))
                    R.fail(key, "[%s] %s" % (base, "; ".join(bad)), replay_script(body))
            except Exception as e:
                R.notes.append("twins %s/%s: driver exception %r" % (base, name, e))
    # Unit-level arithmetic is not cached: left operand's registry, always
    try:
        ns = {}
        exec(H.SHARED_SRC + SETUP % "small", ns)
        from unyt import Unit
        a, b = ns["mk"](), ns["mk"]()
        for nm, f in (("mul", lambda x, y: x * y), ("div", lambda x, y: x / y)):
            R.case("twins:unit-%s" % nm)
            u = f(Unit("foo", registry=b), Unit("qux", registry=a))
            if u.registry is not b:
                R.fail("C12[unit-arith-registry:%s]" % nm, "Unit %s of (B, A) operands bound to %r" % (nm, u.registry))
    except Exception as e:
        R.notes.append("twins unit-level: driver exception %r" % (e,))
    return out


def main():
    tasks = sections()
    nproc = min(12, max(2, (os.cpu_count() or 4) - 2))
    ctx = mp.get_context("fork")
    best = {}
    total = nontriv = 0
    limit = R.args.budget or (50.0 if not R.thorough else 540.0)
    with ctx.Pool(nproc) as pool:
        for ti, (n, nt, first, notes) in enumerate(pool.imap(run_task, tasks, chunksize=1)):
            if R.elapsed() > limit:
                R.notes.append("time budget reached after %d of %d tasks; remaining tasks skipped" % (ti, len(tasks)))
                pool.terminate()
                break
            total += n
            nontriv += nt
            for nn in notes:
                if len(R.notes) < 20:
                    R.notes.append(nn)
            for key, (ln, idx, what, rargs, cfgt, warm) in first.items():
                cand = (ln, ti, idx)
                if key not in best or cand < best[key][0]:
                    best[key] = (cand, what, rargs, cfgt, warm)
    R.evaluations += total
    for key in sorted(best):
        cand, what, rargs, cfgt, warm = best[key]
        rep = None
        try:
            body = H.make_replay(world(cfgt), rargs, warm)
            if body is not None:
                rep = replay_script(body)
        except Exception as e:
            R.notes.append("replay generation failed for %s: %r" % (key, e))
        R.fail(key, what, rep)
    twins()
    R.samples.append({"tasks": len(tasks), "histories": total, "nontrivial": nontriv})
    # distinct non-trivial cases = non-trivial histories (all enumerated sequences are distinct)
    R.keys = set(range(nontriv + len(R.keys)))
    R.exhaustive = False
    R.finish()


if __name__ == "__main__":
    main()
