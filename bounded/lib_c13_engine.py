# Scenario engine of the C13 bounded driver.  This file is plain Python that is (a) imported by
# c13.py inside throw-away worker processes and (b) embedded verbatim into replay scripts, so it
# must stay self-contained (imports only unyt / numpy / stdlib).
#
# A scenario = (base kind, creation route, steps).  r1 is built from the base kind (or IS the
# default registry for the routes starting with "default:"), r2 is created from r1 via the
# route, r3 is an unrelated registry of the same kind.  Every step names an actor and an
# operation; the operation is a piece of source text executed with a = actor, o = the other
# registry of the pair (r1, r2).  Before and after every step every registry other than the
# actor, and the process-wide default registry / unyt namespace / built-in conversions, are
# digested; nothing but the actor may change.
import copy
import math
import pickle

import numpy as np

import unyt
from unyt import Unit, UnitRegistry, UnitSystem, unyt_array, unyt_quantity, define_unit
from unyt import dimensions as dims
from unyt._unit_lookup_table import default_unit_symbol_lut as DLUT, unit_prefixes
from unyt.unit_registry import default_unit_registry as DREG
from unyt.unit_systems import add_symbols, add_constants

PRISTINE_DLUT = dict(DLUT)          # taken at import time of this module, in a fresh process


def clear_process_caches():
    import unyt.array as _a, unyt.unit_object as _uo
    for mod in (_a, _uo):
        for f in vars(mod).values():
            if hasattr(f, "cache_clear"):
                try:
                    f.cache_clear()
                except Exception:
                    pass


def arr(r, s, data=(1.0, 2.0)):
    return unyt_array(list(data), s, registry=r)


def mk(base):
    if base == "E":
        r = UnitRegistry(add_default_symbols=False, lut={k: DLUT[k] for k in ("m", "s", "g", "K", "pc")})
    elif base == "G":
        r = UnitRegistry(unit_system="cgs")
    else:
        r = UnitRegistry()
    r.add("foo", 2.0, dims.length, prefixable=True)
    r.modify("pc", 4.0e16)
    return r


ROUTES = {
    "independent": "r2 = mk(base)",
    "lut=alias": "r2 = UnitRegistry(lut=r1.lut, add_default_symbols=False)",
    "lut=alias+defaults": "r2 = UnitRegistry(lut=r1.lut)",
    "lut=dict-copy": "r2 = UnitRegistry(lut=dict(r1.lut), add_default_symbols=False)",
    "json": "r2 = UnitRegistry.from_json(r1.to_json())",
    "pickle": "r2 = pickle.loads(pickle.dumps(arr(r1, SYM))).units.registry",
    "deepcopy": "r2 = copy.deepcopy(r1)",
    "Unit.copy": "r2 = (Unit(SYM, registry=r1) * Unit('s', registry=r1)**2).copy().registry",
    "Unit.copy-deep": "r2 = (Unit(SYM, registry=r1) * Unit('s', registry=r1)**2).copy(deep=True).registry",
    "array-deepcopy": "r2 = copy.deepcopy(arr(r1, SYM)).units.registry",
}

OPS = {
    "add-new": "a.add('zap', 3.0, dims.time, prefixable=True)",
    "add-over": "a.add(SYM, 9.0, dims.length, prefixable=True)",
    "modify": "a.modify(SYM, 5.0)",
    "modify-builtin": "a.modify('m', 3.0)",
    "modify-quantity": "a.modify(SYM, unyt_quantity(2.0, SYM, registry=o))",
    "remove": "a.remove(SYM)",
    "remove-builtin": "a.remove('K')",
    "define_unit": "define_unit('dd', (2.0, SYM), registry=a)",
    "lookup": "Unit('k' + SYM, registry=a); Unit('M' + SYM + '/s', registry=a); ('m' + SYM) in a; a['u' + SYM]; Unit('km', registry=a)",
    "namespace": "ns = {}; add_symbols(ns, a); add_constants(ns, a)",
    "unit-system": "UnitSystem('c13us', SYM, 'kg', 's', registry=a)",
    "roundtrip": "pickle.loads(pickle.dumps(arr(a, SYM))); UnitRegistry.from_json(a.to_json()); copy.deepcopy(a); copy.deepcopy(arr(a, SYM))",
    "convert": "x = arr(a, 'k' + SYM); x.to('m'); x.in_base('mks'); x.in_cgs(); x.convert_to_units('m' + SYM)",
    "mixed-unit-mul": "res = Unit(SYM, registry=a) * Unit('k' + SYM, registry=o)",
    "mixed-unit-div": "res = Unit(SYM, registry=a) / Unit('s', registry=o)",
    "mixed-array-mul": "res = arr(a, SYM) * arr(o, 'k' + SYM)",
    "mixed-array-div": "res = arr(a, SYM) / arr(o, 's')",
    "mixed-array-add": "res = arr(a, SYM) + arr(o, 'k' + SYM)",
    "mixed-array-sub": "res = arr(a, 'k' + SYM) - arr(o, SYM)",
    "bypass-rebind": "unyt_array(np.array([1.0, 2.0]), Unit(SYM, registry=o), registry=a, bypass_validation=True)",
    "bypass-rebind-namespace": "unyt_array(np.array([1.0, 2.0]), unyt.m, registry=a, bypass_validation=True)",
    "coerce-units": "unyt_array([1.0], Unit(SYM, registry=o), registry=a); unyt_quantity(1.0, Unit(SYM, registry=o), registry=a); unyt_array(arr(o, SYM), registry=a)",
}
EDIT_OPS = ("add-new", "add-over", "modify", "modify-builtin", "modify-quantity", "remove",
            "remove-builtin", "define_unit")
MIXED_OPS = tuple(k for k in OPS if k.startswith("mixed-"))
# operations through which the default registry may legitimately change (actor = default)
DEFAULT_EDITS = {
    "default-add": "DREG.add('c13zap', 3.0, dims.time, prefixable=True)",
    "default-define_unit": "define_unit('c13dd', (2.0, 'm'))",
}

PROBES = ["foo", "kfoo", "foo*s", "m", "km", "pc", "Mpc", "pc*s", "zap", "dd", "K"]
EXTRA_PROBES = ["c13zap", "c13dd"]      # only in scenarios that edit the default registry


def resolve_digest(r, late=False):
    """what the probe strings resolve to against r (+ with late=True: the strings whose Unit
    object turns out to be bound to a different registry)"""
    out, foreign = [], []
    for s in PROBES + (["foo*s**2", "pc*s**2"] if late else []):
        try:
            u = Unit(s, registry=r)
            if u.registry is not r:
                foreign.append(s)
            if s in PROBES:
                out.append((s, u.base_value, u.dimensions, u.base_offset))
        except Exception as e:
            if s in PROBES:
                out.append((s, type(e).__name__))
    out.append(("unit_system", getattr(r.unit_system, "name", None)))
    return (out, foreign) if late else out


LATE_PROBES = PROBES + ["foo*s**2", "pc*s**2"]


def foreign_units(r):
    """strings that resolve, against r, to a Unit object bound to some other registry"""
    out = []
    for s in PROBES + ["foo*s**2", "pc*s**2"]:
        try:
            u = Unit(s, registry=r)
        except Exception:
            continue
        if u.registry is not r:
            out.append(s)
    return out


_DERIVED_OK = {}      # derived rows already validated (same row object)


def rows_changed(before, after):
    """rows present before must be identical afterwards; new rows must be prefix x base rows"""
    bad = []
    for k, v in before.items():
        if k not in after:
            bad.append("row %r disappeared" % k)
        elif after[k] != v:
            bad.append("row %r: scale %r -> %r" % (k, v[0], after[k][0]))
    for k, v in after.items():
        if k in before:
            continue
        m = _DERIVED_OK.get(k)
        if m is not None and m[0] is v and after.get(k[len(m[1]):]) is m[2]:
            continue            # validated before against the very same base row object
        ok = False
        for p in (k[:1], k[:2]):
            if p in unit_prefixes and k[len(p):] in after:
                pv = unit_prefixes[p][0]
                b = after[k[len(p):]]
                if b[4] and math.isclose(v[0], pv * b[0], rel_tol=1e-12) and v[1] == b[1] and v[2] == b[2]:
                    ok = True
                    _DERIVED_OK[k] = (v, p, b)
        if not ok:
            bad.append("new row %r = %r" % (k, v[:3]))
    return bad[:4]


NAMES_U = ("m", "km", "cm", "s", "g", "kg", "K", "mile", "pc", "Mpc", "degC", "J", "erg", "Msun", "AU", "eV")
NAMES_Q = ("c", "me", "mp", "G", "kboltz", "h", "qp")


def _udig(u):
    return (u.expr, u.base_value, u.base_offset, u.dimensions, u.registry is DREG)


def global_digest():
    out = []
    # first: strings resolved against the default registry without naming it (always re-parsed)
    for s in ("m", "km", "pc", "Mpc", "foo", "zap"):
        try:
            out.append(("default resolves", s) + _udig(Unit(s)))
        except Exception as e:
            out.append(("default resolves", s, type(e).__name__))
    for names, mods in ((NAMES_U, (unyt, unyt.unit_symbols)), (NAMES_Q, (unyt, unyt.physical_constants))):
        for n in names:
            for mod in mods:
                q = getattr(mod, n, None)
                if q is None:
                    out.append(("missing", mod.__name__, n))
                elif hasattr(q, "expr"):
                    out.append(("unit", mod.__name__, n) + _udig(q))
                else:
                    out.append(("const", mod.__name__, n, float(q.value)) + _udig(q.units))
    for n in ("dd", "zap", "foo", "kfoo"):
        out.append(("unyt namespace has", n, hasattr(unyt, n), hasattr(unyt.unit_symbols, n)))
    conv = [
        ("mile->m", lambda: float((1 * unyt.mile).to("m").value)),
        ("km->cm", lambda: float((1 * unyt.km).to("cm").value)),
        ("Mpc->km", lambda: float(unyt_quantity(1.0, "Mpc").to("km").value)),
        ("degC->degF", lambda: float(unyt_quantity(3.0, "degC").to("degF").value)),
        ("c->km/s", lambda: float(unyt.c.to("km/s").value)),
        ("J->erg", lambda: float((1 * unyt.J).in_cgs().value)),
        ("pc*s fresh parse", lambda: Unit("pc*s/m").base_value),
        ("array mul", lambda: float(((2 * unyt.km) * (3 * unyt.m)).to("m**2").value)),
    ]
    for n, f in conv:
        try:
            out.append(("conv", n, f()))
        except Exception as e:
            out.append(("conv", n, type(e).__name__))
    return out


def default_rows_bad(allow=()):
    bad = []
    if dict(DLUT) != PRISTINE_DLUT:
        bad.append("module table default_unit_symbol_lut changed: " + "; ".join(rows_changed(PRISTINE_DLUT, dict(DLUT))))
    cur = {k: v for k, v in DREG.lut.items() if k not in allow}
    bad += ["default registry " + b for b in rows_changed(PRISTINE_DLUT, cur)]
    return bad


PRISTINE_GLOBAL = global_digest()


def diff(a, b):
    return [(x, y) for x, y in zip(a, b) if x != y][:3]


def run_scenario(base, route, steps):
    """returns (failures [(key, what)], corrupted: bool)"""
    clear_process_caches()
    gstate = {"digest": PRISTINE_GLOBAL, "rows": dict(DREG.lut), "dlut": dict(DLUT)}
    fails = []
    corrupted = False
    allow = set()
    extra = any(op in DEFAULT_EDITS for _, op in steps)
    for x in EXTRA_PROBES:
        if extra and x not in PROBES:
            PROBES.append(x)
        elif not extra and x in PROBES:
            PROBES.remove(x)
    env = dict(globals())
    from_default = route.startswith("default:")
    SYM = "pc" if from_default else "foo"
    env.update(base=base, SYM=SYM)
    r1 = DREG if from_default else mk(base)
    r3 = mk(base)
    env["r1"] = r1
    regs = {"r1": r1, "r3": r3}
    # --- creation of r2 must not change r1 / r3 / the globals
    before = {n: (resolve_digest(r), dict(r.lut)) for n, r in regs.items()}
    rt = route.split(":", 1)[1] if from_default else route
    try:
        exec(ROUTES[rt], env)
    except Exception as e:
        return [("C13[driver:create:%s]" % route, "creation raised %r" % (e,))], False
    r2 = env["r2"]
    if r2 is r1:
        return [], False             # not a second registry
    regs["r2"] = r2
    origin = {("r1", "r2"): rt, ("r2", "r1"): rt}

    def relation(actor, victim):
        return origin.get((actor, victim), "unrelated")

    known_foreign = set()

    def opclass(opname):
        return "edit" if (opname in EDIT_OPS or opname in DEFAULT_EDITS) else opname

    def check_others(actor, label, opname, is_edit):
        nonlocal corrupted
        after = {}
        for n, r in regs.items():
            if r is DREG:
                continue
            d1, foreign = resolve_digest(r, late=True)
            rows1 = dict(r.lut)
            after[n] = (d1, rows1)
            f = [x for x in foreign if (n, x) not in known_foreign]
            known_foreign.update((n, x) for x in f)
            if f and opname == "create":
                gstate["shared_cache"] = True
            # once the creation route was seen to share the string->Unit memo, later foreign units
            # in this scenario are the same defect
            if f and (opname == "create" or not gstate.get("shared_cache")):
                oc = opclass(opname)
                partner = "r1" if n == "r2" else "r2"
                tag = "create:" + rt if oc == "create" else ("edit:" + relation(n, partner) if oc == "edit" else oc)
                fails.append(("C13[foreign-unit:%s]" % tag,
                              "after %s (base %s, route %s): Unit(s, registry=%s) for s in %s returns a Unit bound to a different registry"
                              % (label, base, route, n, f)))
            if n not in before or (n == actor and is_edit):
                continue
            d0, rows0 = before[n]
            bad = []
            if n != actor:
                if d1 != d0:
                    bad.append("resolution changed: %s" % diff(d0, d1))
            rb = rows_changed(rows0, rows1)
            if rb:
                bad.append("table: " + "; ".join(rb))
            if bad:
                if n == actor:
                    key = "C13[self-write:%s]" % opname
                else:
                    key = "C13[leak:%s:%s]" % (relation(actor, n), opclass(opname))
                fails.append((key, "%s (base %s, route %s) on %s changed %s: %s" % (
                    label, base, route, actor, n, " | ".join(bad))))
        g = global_digest()
        rows_now, dlut_now = dict(DREG.lut), dict(DLUT)
        if allow:
            gb = ["default registry " + b for b in rows_changed(
                {k: v for k, v in gstate["rows"].items() if k not in allow},
                {k: v for k, v in rows_now.items() if k not in allow})]
        else:
            gb = ["default registry " + b for b in rows_changed(gstate["rows"], rows_now)]
        gb += ["module table default_unit_symbol_lut " + b for b in rows_changed(gstate["dlut"], dlut_now)]
        skip = ("default resolves",) if (allow and opname in DEFAULT_EDITS) else ()
        g2 = [x for x in g if x[0] not in skip]
        p2 = [x for x in gstate["digest"] if x[0] not in skip]
        if g2 != p2:
            gb.append("namespace/conversions: %s" % diff(p2, g2))
        gstate.update(digest=g, rows=rows_now, dlut=dlut_now)
        if gb:
            corrupted = True
            who = actor if regs.get(actor) is not DREG else "default"
            rel = "default<-%s" % (rt if from_default else "unrelated")
            oc = opclass(opname)
            fails.append(("C13[global:%s:%s]" % (rel, oc) if oc in ("edit", "create") else "C13[global:%s]" % oc,
                          "%s (base %s, route %s) on %s changed process-wide state: %s" % (
                              label, base, route, who, " | ".join(gb))))
        return after

    before = check_others("r2", "creating r2 via " + ROUTES[rt], "create", True)
    for (actor, opname) in steps:
        a = regs[actor]
        o = regs["r2"] if actor != "r2" else regs["r1"]
        env.update(a=a, o=o)
        env.pop("res", None)
        if opname in DEFAULT_EDITS:
            src = DEFAULT_EDITS[opname]
            allow.update(("c13zap", "c13dd"))
            corrupted = True            # the worker must not be reused
            actor = "r1" if from_default else "default"
        else:
            src = OPS[opname]
        if a is DREG and opname in ("modify", "modify-builtin", "modify-quantity", "remove", "remove-builtin"):
            try:
                exec(src, env)
                fails.append(("C13[default-readonly:%s]" % opname, "%s on the default registry did not raise" % src))
            except Exception:
                pass
        else:
            try:
                exec(src, env)
                outcome = "ok"
            except Exception as e:
                outcome = type(e).__name__
            left_ok = True
            try:
                left_ok = Unit(SYM, registry=a).registry is a
            except Exception:
                pass
            if opname in MIXED_OPS and outcome == "ok" and left_ok:
                res = env["res"]
                reg_of = getattr(res, "units", res).registry
                if reg_of is not a:
                    which = [n for n, r in regs.items() if r is reg_of] or ["default" if reg_of is DREG else "a registry outside the scenario"]
                    fails.append(("C13[mixed:%s:result-registry]" % opname,
                                  "%s with a=%s, o=%s (base %s, route %s, steps %s): result bound to %s, not to the left operand's registry"
                                  % (src, actor, "r2" if actor != "r2" else "r1", base, route, steps, which[0])))
        is_edit = opname in EDIT_OPS or opname in DEFAULT_EDITS or (a is DREG)
        before = check_others(actor, src, opname, is_edit)
    return fails, corrupted
