"""C11 bounded stand-in: persisted quantities, arrays, units and registries come back meaning
and behaving the same -- on the real, imported package.

Every case is  (registry variant, subject object, restoration route).  The case builds a fresh
world (registry, original object `o`), forgets unyt's memoised unit rules, restores `r` through
the route and then
  * compares r with o structurally (type, numbers, dtype, units ==, unit expression, scale/offset/
    dimension, registry contents as a map incl. added / modified / REMOVED symbols, unit_system,
    original registry untouched), and
  * runs a battery of follow-up operations (source strings, evaluated with q = object under test,
    o = original) on the original and on the restored object in both orders, each order in a fresh
    world with cleared memo tables; every outcome (value+dtype+unit, or exception class) must equal
    the outcome the untouched original gives in a fresh world, and
  * (when the restored object has a registry object of its own) runs the result-registry battery in
    a further fresh world: unit-returning unary/binary operations whose operands all belong to the
    registry of the object under test, on original and restored in both orders with WARM memo tables
    and the two registries' contents still equal; the result must be bound to the registry of the
    object it was computed from exactly as the original's results are bound to the original's
    (`res.units.registry is q.units.registry`) -> C11[<route>:[history.]result-registry.<rule family>];
    afterwards a fresh symbol is added to the object's own registry and every result kept from above
    must convert to it as the original's results do -> C11[<route>:[history.]result-follows-registry.*]
    (reported only where the registry identity check did not already fail for the same operation).
The oracle is the statement itself: "same outcome as on the original".  Keys name the defect site:
C11[<route>:<check or operation group>], one key per site, first witness kept.
"""
import multiprocessing as mp
import random
import zlib
import os
import sys
import time
import traceback

sys.path.insert(0, os.path.dirname(os.path.abspath(__file__)))
from common import REPLAY_HEAD, Run  # noqa: E402

import numpy as np  # noqa: E402
import unyt  # noqa: E402
from unyt import Unit, UnitRegistry, unyt_array, unyt_quantity  # noqa: E402,F401
from unyt._unit_lookup_table import default_unit_symbol_lut as LUT  # noqa: E402

import lib_c11_rt as RT  # noqa: E402

LIB_SRC = open(os.path.join(os.path.dirname(os.path.abspath(__file__)), "lib_c11_rt.py"), encoding="utf-8").read()

# ----------------------------------------------------------------------------------------------
# registry variants (source text: executed by the driver and pasted into replays)
# ----------------------------------------------------------------------------------------------
VARIANTS = {
    "default": dict(src="reg = unyt.unit_registry.default_unit_registry\n",
                    added=(), modified=(), removed=(), system="mks", len_unit="cm"),
    "fresh": dict(src="reg = UnitRegistry()\n", added=(), modified=(), removed=(), system="mks", len_unit="cm"),
    "cgs": dict(src="reg = UnitRegistry(unit_system='cgs')\n",
                added=(), modified=(), removed=(), system="cgs", len_unit="cm"),
    "custom": dict(src=(
        "reg = UnitRegistry()\n"
        "reg.add('foo', 3.0, unyt.dimensions.length, prefixable=True)\n"
        "reg.add('tbar', 2.0, unyt.dimensions.temperature, offset=10.0)\n"
        "reg.add('zang', 0.5, unyt.dimensions.angle)\n"
        "reg.add('code_length', 1.5, unyt.dimensions.length)\n"
        "reg.add('code_mass', 1.0, unyt.dimensions.mass)\n"
        "reg.modify('code_length', 4.0)\n"
        "reg.modify('code_mass', unyt_quantity(2.0e30, 'kg'))\n"
        "reg.modify('mile', 1700.0)\n"
        "reg.modify('Msun', unyt_quantity(2.0e30, 'kg'))\n"
        "reg.modify('arcmin', 3.0e-4)\n"
        "reg.remove('smoot')\n"
        "reg.remove('Tsun')\n"),
        added=("foo", "tbar", "zang", "code_length", "code_mass"),
        modified=("mile", "Msun", "arcmin"), removed=("smoot", "Tsun"), system="mks", len_unit="foo"),
    "customcgs": dict(src=(
        "reg = UnitRegistry(unit_system='cgs')\n"
        "reg.add('foo', 3.0, unyt.dimensions.length, prefixable=True)\n"
        "reg.add('code_length', 1.5, unyt.dimensions.length)\n"
        "reg.modify('mile', 1700.0)\n"
        "reg.remove('smoot')\n"),
        added=("foo", "code_length"), modified=("mile",), removed=("smoot",), system="cgs", len_unit="foo"),
}
VARIANTS["added"] = dict(src=(      # user symbols only, no default symbol modified or removed: the one custom
    "reg = UnitRegistry()\n"        # registry that array pickling / from_json restore with EQUAL contents (removed
    "reg.add('foo', 3.0, unyt.dimensions.length, prefixable=True)\n"      # defaults come back otherwise), i.e. where
    "reg.add('code_length', 2.0, unyt.dimensions.length)\n"               # original and restored registry can be
    "reg.add('tbar', 2.0, unyt.dimensions.temperature, offset=10.0)\n"),  # confused by anything keyed on contents
    added=("foo", "code_length", "tbar"), modified=(), removed=(), system="mks", len_unit="foo")
CUSTOM_VARIANTS = ("custom", "customcgs", "added")
CUSTOM_TARGETS = ["foo", "kfoo", "tbar", "zang", "code_length", "code_mass", "mile", "Msun", "arcmin",
                  "smoot", "Tsun", "foo**2", "mile/hr"]

# ----------------------------------------------------------------------------------------------
# follow-up battery.  (name, source, group)   q = object under test, o = the original object
# ----------------------------------------------------------------------------------------------
TARGETS = ["K", "degC", "degF", "delta_degC", "delta_degF", "R", "rad", "degree", "arcmin", "m", "cm",
           "g", "s", "km/hr", "statC", "C", "G", "T", "Np", "dB", "dimensionless", "J", "erg", "sr"]

Q_OPS = [
    # angle-aware trigonometry (also through derived quantities: memoised rules can hand the
    # restored unit's dimension objects to the original and vice versa)
    ("sin", "np.sin(q)", "trig"),
    ("cos", "np.cos(q)", "trig"),
    ("tan", "np.tan(q)", "trig"),
    ("sin_scaled", "np.sin(q*1.0)", "trig"),
    ("cos_rscaled", "np.cos(1.0*q)", "trig"),
    ("sin_sum", "np.sin(q+q)", "trig"),
    ("sin_sqrt_sq", "np.sin(np.sqrt(q*q))", "trig"),
    ("sin_alt", "np.sin(q.to(ALT))", "trig"),
    ("sin_mixed_sum", "np.sin(q+o)", "trig"),
    ("arctan2", "np.arctan2(q, q)", "trig"),
    # sums, differences, comparisons
    ("add_self", "q+q", "add"),
    ("sub_self", "q-q", "add"),
    ("add_alt", "q+q.to(ALT)", "add"),
    ("radd_alt", "q.to(ALT)+q", "add"),
    ("sub_alt", "q-0.5*q.to(ALT)", "add"),
    ("lt_alt", "q<2*q.to(ALT)", "add"),
    ("eq_self", "q==q", "add"),
    ("ge_self", "q>=q", "add"),
    ("maximum_alt", "np.maximum(q, q.to(ALT))", "add"),
    ("sub_scaled", "(q*1.0)-(q*1.0)", "add"),
    ("add_orig", "q+o", "add"),
    ("radd_orig", "o+q", "add"),
    ("sub_orig", "q-o", "add"),
    ("rsub_orig", "o-q", "add"),
    ("lt_orig", "q<o", "add"),
    ("eq_orig", "q==o", "add"),
    ("ne_orig", "o!=q", "add"),
    ("np_add_orig", "np.add(q, o)", "add"),
    ("add_delta_degC", "q+P('delta_degC')", "add"),
    ("radd_delta_degC", "P('delta_degC')+q", "add"),
    ("sub_delta_degC", "q-P('delta_degC')", "add"),
    ("add_delta_degF", "q+P('delta_degF')", "add"),
    ("add_K", "q+P('K')", "add"),
    ("radd_K", "P('K')+q", "add"),
    ("add_degC", "q+P('degC')", "add"),
    ("add_default_delta_degC", "q+unyt.unyt_quantity(2.0, 'delta_degC')", "add"),
    ("add_zero", "q+0", "add"),
    ("diff", "np.diff(q)", "add"),
    ("sum", "q.sum()", "add"),
    # products, powers, roots (temperature / logarithmic guards)
    ("mul_self", "q*q", "mul"),
    ("pow2", "q**2", "mul"),
    ("div_self", "q/q", "mul"),
    ("sqrt", "np.sqrt(q)", "mul"),
    ("pow_half", "q**0.5", "mul"),
    ("cbrt", "np.cbrt(q)", "mul"),
    ("reciprocal", "1/q", "mul"),
    ("mul_orig", "q*o", "mul"),
    ("rmul_orig", "o*q", "mul"),
    ("div_orig", "q/o", "mul"),
    ("np_multiply_orig", "np.multiply(q, o)", "mul"),
    ("mul_scaled", "(q*1.0)*(q*1.0)", "mul"),
    ("mul_m", "q*P('m')", "mul"),
    ("rmul_m", "P('m')*q", "mul"),
    ("div_s", "q/P('s')", "mul"),
    ("mul_default_m", "q*unyt.m", "mul"),
    ("mul_dB", "q*P('dB')", "logmul"),
    ("rmul_dB", "P('dB')*q", "logmul"),
    ("mul_unit_dB", "q*Unit('dB', registry=q.units.registry)", "logmul"),
    ("mul_degC", "q*P('degC')", "tempmul"),
    ("rdiv_degC", "P('degC')/q", "tempmul"),
    ("dot", "np.dot(q, q)", "mul"),
    # unit-system conversion
    ("in_base_cgs", "q.in_base('cgs')", "base-conv"),
    ("in_cgs", "q.in_cgs()", "base-conv"),
    ("in_mks", "q.in_mks()", "base-conv"),
    ("in_base_imperial", "q.in_base('imperial')", "base-conv"),
    ("in_base_galactic", "q.in_base('galactic')", "base-conv"),
    ("in_base_default", "q.in_base()", "base-default"),
    ("in_base_registry_system", "q.in_base(q.units.registry.unit_system)", "base-default"),
    ("base_equiv_default", "q.units.get_base_equivalent()", "base-default"),
    ("convert_to_base", "(lambda c: (c.convert_to_base(), c)[1])(q.copy())", "base-default"),
    ("convert_to_cgs", "(lambda c: (c.convert_to_cgs(), c)[1])(q.copy())", "base-conv"),
    ("unit_system_ctor", "(unyt.UnitSystem(USNAME, LEN_U, 'g', 's', registry=q.units.registry), "
                         "q.in_base(USNAME))[1]", "unit-system-ctor"),
    ("unit_system_ctor_code", "(unyt.UnitSystem(USNAME + 'b', 'km', 'Msun', 'yr', temperature_unit='R', "
                              "angle_unit='degree', registry=q.units.registry), q.in_base(USNAME + 'b'))[1]",
     "unit-system-ctor"),
    # conversions
    ("to_alt", "q.to(ALT)", "to"),
    ("to_value_alt", "q.to_value(ALT)", "to"),
    ("to_orig_units", "q.to(o.units)", "to"),
    ("orig_to_units", "o.to(q.units)", "to"),
    ("to_own_str", "q.to(str(q.units.expr))", "to"),
    ("convert_to_alt", "(lambda c: (c.convert_to_units(ALT), c)[1])(q.copy())", "to"),
    ("to_equiv_spectral", "q.to_equivalent('Hz', 'spectral')", "to"),
    ("to_equiv_thermal", "q.to_equivalent('eV', 'thermal')", "to"),
] + [("to_" + t, "q.to(%r)" % t, "to") for t in TARGETS]

Q_OPS_CUSTOM = [("to_custom_" + t, "q.to(%r)" % t, "to-custom") for t in CUSTOM_TARGETS] + [
    ("add_custom_" + t, "q+P(%r)" % t, "to-custom") for t in ("foo", "kfoo", "tbar", "zang", "mile")]

U_OPS = [
    ("u_mul_self", "q*q", "unit-arith"),
    ("u_pow2", "q**2", "unit-arith"),
    ("u_pow1", "q**1", "unit-arith"),
    ("u_div_self", "q/q", "unit-arith"),
    ("u_sqrt", "q**0.5", "unit-arith"),
    ("u_mul_orig", "q*o", "unit-arith"),
    ("u_rmul_orig", "o*q", "unit-arith"),
    ("u_div_orig", "q/o", "unit-arith"),
    ("u_rdiv_orig", "o/q", "unit-arith"),
    ("u_mul_m", "q*Unit('m', registry=q.registry)", "unit-arith"),
    ("u_mul_default_m", "q*unyt.m", "unit-arith"),
    ("u_rmul_default_m", "unyt.m*q", "unit-arith"),
    ("u_mul_dB", "q*Unit('dB', registry=q.registry)", "unit-arith"),
    ("u_div_dB", "q/Unit('dB', registry=q.registry)", "unit-arith"),
    ("u_mul_degC", "q*Unit('degC', registry=q.registry)", "unit-arith"),
    ("u_mul_number", "3.0*q", "unit-arith"),
    ("u_mul_quantity", "q*unyt.unyt_quantity(2.0, 'm')", "unit-arith"),
    ("u_mul_array", "np.array([1.0, 2.0])*q", "unit-arith"),
    ("u_eq_orig", "q==o", "unit-eq-hash"),
    ("u_req_orig", "o==q", "unit-eq-hash"),
    ("u_ne_orig", "q!=o", "unit-eq-hash"),
    ("u_hash_eq", "hash(q)==hash(o)", "unit-eq-hash"),
    ("u_dict_lookup", "{o: 1}.get(q)", "unit-eq-hash"),
    ("u_expr_eq", "q.expr==o.expr", "unit-eq-hash"),
    ("u_same_dims", "q.same_dimensions_as(o)", "same-dims"),
    ("u_rsame_dims", "o.same_dimensions_as(q)", "same-dims"),
    ("u_same_dims_m", "q.same_dimensions_as(Unit('m', registry=q.registry))", "same-dims"),
    ("u_is_dimensionless", "q.is_dimensionless", "same-dims"),
    ("u_list_same_dims", "[k for k in q.registry.list_same_dimensions(q) if k in DEFAULT_KEYS]", "list-same-dims"),
    ("u_base_cgs", "q.get_base_equivalent('cgs')", "base-conv"),
    ("u_base_mks", "q.get_mks_equivalent()", "base-conv"),
    ("u_conv_factor", "q.get_conversion_factor(o)", "to"),
    ("u_rconv_factor", "o.get_conversion_factor(q)", "to"),
    ("u_conv_factor_alt", "q.get_conversion_factor(Unit(ALT, registry=q.registry))", "to"),
    ("u_as_coeff", "q.as_coeff_unit()", "unit-arith"),
    ("u_str", "str(q)", "str-repr"),
    ("u_repr", "repr(q)", "str-repr"),
    ("u_latex", "q.latex_repr", "str-repr"),
    ("u_is_atomic", "q.is_atomic", "str-repr"),
    ("u_is_code", "q.is_code_unit", "str-repr"),
    ("u_has_equiv", "q.has_equivalent('spectral')", "to"),
    ("u_reparse", "Unit(str(q.expr), registry=q.registry)", "str-repr"),
    ("u_registry_lookup", "q.registry[str(next(iter(q.expr.free_symbols)))][:3]", "str-repr"),
    ("u_system_name", "q.registry.unit_system.name", "base-default"),
]

# ----------------------------------------------------------------------------------------------
# "whose registry is the result bound to" battery.  Every operand of these operations is bound to
# the registry of q (the object under test), so the result must be bound to that registry too:
# `result.units.registry is q.units.registry` -- exactly as it is for the untouched original.  The
# memoised unit rules of unyt/array.py (multiply / divide / sqrt / power / square / reciprocal /
# preserve / difference) are shared by the original and the restored object, so the battery runs
# with WARM memo tables in both orders (original first, restored first), while the two registries
# still have equal contents.  Afterwards a fresh symbol is added to q's own registry and every
# result is converted to it (lib_c11_rt.follow_new_symbol).
# ----------------------------------------------------------------------------------------------
BIND_Q_NAMES = {"add_self", "sub_self", "add_alt", "maximum_alt", "sum", "diff", "add_delta_degC",   # preserve / difference
                "mul_self", "mul_m", "div_self", "div_s", "reciprocal",                                # multiply / divide
                "pow2", "sqrt", "cbrt",                                                                # power / sqrt / cbrt
                "to_alt", "in_cgs"}
BIND_CUSTOM_NAMES = {"to_custom_foo", "to_custom_code_length", "add_custom_foo", "add_custom_kfoo"}
BIND_U_NAMES = {"u_mul_self", "u_pow2", "u_div_self", "u_sqrt", "u_mul_m", "u_mul_number", "u_base_cgs", "u_reparse"}
BIND_EXTRA = [
    ("np_square", "np.square(q)", "mul"),            # square rule
    ("np_reciprocal", "np.reciprocal(q)", "mul"),    # reciprocal rule
    ("np_power2", "np.power(q, 2)", "mul"),
    ("mul_number", "q*2.0", "mul"),
    ("rdiv_number", "2.0/q", "mul"),
    ("div_alt", "q/q.to(ALT)", "mul"),
    ("neg", "-q", "add"),
    ("abs", "abs(q)", "add"),
]
BIND_Q = [(n, s) for n, s, _ in Q_OPS if n in BIND_Q_NAMES] + [(n, s) for n, s, _ in BIND_EXTRA]
BIND_Q_CUSTOM = [(n, s) for n, s, _ in Q_OPS_CUSTOM if n in BIND_CUSTOM_NAMES]
BIND_U = [(n, s) for n, s, _ in U_OPS if n in BIND_U_NAMES]

TEMP_GROUP = {"add": "temp-arith", "mul": "temp-mul", "tempmul": "temp-mul", "logmul": "log-mul"}
LOG_GROUP = {"add": "log-arith", "mul": "log-mul", "tempmul": "temp-mul", "logmul": "log-mul"}
PLAIN_GROUP = {"add": "add-cmp", "mul": "mul-pow", "tempmul": "temp-mul", "logmul": "log-mul"}


def group_of(g, cls):
    if g in PLAIN_GROUP:
        if cls.startswith("temp-") and cls != "temp-compound":
            return TEMP_GROUP[g]
        if cls.startswith("log"):
            return LOG_GROUP[g]
        return PLAIN_GROUP[g]
    return g


def unit_class(u):
    D = unyt.dimensions
    dims = u.dimensions
    e = str(u.expr)
    if dims == D.logarithmic:
        return "log"
    if dims == D.temperature:
        if u.base_offset:
            return "temp-offset"
        return "temp-delta" if e.startswith("delta_") else "temp-abs"
    if dims == D.angle:
        return "angle"
    if dims == 1:
        return "dimensionless"
    fs = getattr(dims, "free_symbols", set())
    if D.logarithmic in fs:
        return "log-compound"
    if D.temperature in fs:
        return "temp-compound"
    if D.angle in fs:
        return "angle-compound"
    return "plain"


# ----------------------------------------------------------------------------------------------
# subjects and routes (source text)
# ----------------------------------------------------------------------------------------------
FORMS = ["qf", "qi", "a1f", "a1i16", "a2f32", "a1c", "q0c64", "a1one", "a2i8", "unit"]
UNIT_FORMS = ("unit", "uexpr")      # uexpr/qexpr: the Unit is built from an expression, not from a string,
#                                     as the objects of unyt.unit_symbols / add_symbols namespaces are


def subject_src(unit, form, vals):
    a, b, c, d = vals
    u = repr(unit)
    if form == "unit":
        return "o = Unit(%s, registry=reg)\n" % u
    if form == "uexpr":
        return "o = Unit(unyt._parsing.parse_unyt_expr(%s), registry=reg)\n" % u
    if form == "qexpr":
        return "o = unyt_quantity(%r, Unit(unyt._parsing.parse_unyt_expr(%s), registry=reg))\n" % (float(a), u)
    if form == "qf":
        return "o = unyt_quantity(%r, %s, registry=reg)\n" % (float(a), u)
    if form == "qi":
        return "o = unyt_quantity(%d, %s, registry=reg)\n" % (int(a), u)
    if form == "q0c64":
        return "o = unyt_quantity(np.complex64(%r), %s, registry=reg)\n" % (complex(a, b), u)
    if form == "a1f":
        return "o = unyt_array(np.array([%r, %r, %r]), %s, registry=reg)\n" % (float(a), float(b), float(c), u)
    if form == "a1i16":
        return "o = unyt_array(np.array([%d, %d, %d], dtype='int16'), %s, registry=reg)\n" % (int(a), int(b), int(c), u)
    if form == "a2i8":
        return "o = unyt_array(np.array([[%d, %d], [%d, %d]], dtype='int8'), %s, registry=reg)\n" % (
            int(a) % 100, int(b) % 100, int(c) % 100, int(d) % 100, u)
    if form == "a2f32":
        return "o = unyt_array(np.array([[%r, %r], [%r, %r]], dtype='float32'), %s, registry=reg)\n" % (
            float(a), float(b), float(c), float(d), u)
    if form == "a1c":
        return "o = unyt_array(np.array([%r, %r]), %s, registry=reg)\n" % (complex(a, b), complex(c, d), u)
    if form == "a1one":
        return "o = unyt_array(np.array([%r]), %s, registry=reg)\n" % (float(a), u)
    raise ValueError(form)


Q_ROUTES = {
    "pickle": "blob = pickle.dumps(o, protocol=PROTO)\nr = pickle.loads(blob)\n",
    "pickle-nested": ("c = {'a': o, 'u': o.units, 'l': [o.copy(), (o, 3, 'x')], 't': (o.units, [o])}\n"
                      "blob = pickle.dumps(c, protocol=PROTO)\nrc = pickle.loads(blob)\n"
                      "r = rc['l'][1][0]\nr_unit = rc['t'][0]\nr_other = rc['l'][0]\n"),
    "deepcopy": "r = copy.deepcopy(o)\n",
    "deepcopy-nested": ("c = {'a': o, 'u': o.units, 'l': [o.copy(), (o, 3, 'x')], 't': (o.units, [o])}\n"
                        "rc = copy.deepcopy(c)\n"
                        "r = rc['l'][1][0]\nr_unit = rc['t'][0]\nr_other = rc['l'][0]\n"),
    "copy": "r = copy.copy(o)\n",
    "arrcopy": "r = o.copy()\n",
    "npcopy": "r = np.copy(o, subok=True)\n",
    "str": "r = type(o)(np.array(o.d), str(o.units), registry=o.units.registry)\n",
    "repr": "r = type(o)(np.array(o.d), repr(o.units), registry=o.units.registry)\n",
    "json": ("regj = UnitRegistry.from_json(o.units.registry.to_json())\n"
             "r = type(o)(np.array(o.d), str(o.units), registry=regj)\n"),
    "savetxt": ("_d = tempfile.mkdtemp(prefix='c11_')\n"
                "try:\n"
                "    _f = os.path.join(_d, 'a.txt')\n"
                "    unyt.savetxt(_f, o)\n"
                "    r = unyt.loadtxt(_f, dtype=o.dtype)\n"
                "finally:\n"
                "    shutil.rmtree(_d, ignore_errors=True)\n"),
    "savetxt-cols": ("_d = tempfile.mkdtemp(prefix='c11_')\n"
                     "try:\n"
                     "    _f = os.path.join(_d, 'a.txt')\n"
                     "    o_b = unyt_array(np.asarray(o.d) * 2 + 1, 's')\n"
                     "    unyt.savetxt(_f, [o_b, o, o_b * 2], header='C11 columns')\n"
                     "    r_b, r, r_c = unyt.loadtxt(_f, dtype=o.dtype)\n"
                     "    r_other = r_b\n"
                     "finally:\n"
                     "    shutil.rmtree(_d, ignore_errors=True)\n"),
}
U_ROUTES = {
    "unit-pickle": "blob = pickle.dumps(o, protocol=PROTO)\nr = pickle.loads(blob)\n",
    "unit-pickle-nested": ("blob = pickle.dumps({'k': [o, (o, 1)]}, protocol=PROTO)\nrc = pickle.loads(blob)\n"
                           "r = rc['k'][1][0]\n"),
    "unit-deepcopy": "r = copy.deepcopy(o)\n",
    "unit-copy": "r = copy.copy(o)\n",
    "unit-copy()": "r = o.copy()\n",
    "unit-copy(deep)": "r = o.copy(deep=True)\n",
    "unit-str": "r = Unit(str(o), registry=o.registry)\n",
    "unit-repr": "r = Unit(repr(o), registry=o.registry)\n",
    "unit-json": "r = Unit(str(o), registry=UnitRegistry.from_json(o.registry.to_json()))\n",
}
DEFAULT_ONLY_ROUTES = {"savetxt", "savetxt-cols"}     # a text file carries no registry
# routes that run the same library code share one key family
ROUTE_KEY = {"pickle-nested": "pickle", "deepcopy-nested": "deepcopy", "unit-pickle-nested": "unit-pickle",
             "unit-copy(deep)": "deepcopy", "unit-deepcopy": "deepcopy",   # array deepcopy = Unit.copy(deep=True)
             "unit-json": "json", "unit-str": "str", "unit-repr": "repr"}  # same parser / from_json path

STRUCT_CHECKS = [   # (name, source of a condition that is True when the statement is violated)
    ("type", "type(r) is not type(o)"),
    ("dtype", "(not isinstance(o, Unit)) and r.dtype != o.dtype"),
    ("shape", "(not isinstance(o, Unit)) and r.shape != o.shape"),
    ("values", "(not isinstance(o, Unit)) and not (r.shape == o.shape and np.array_equal(np.asarray(r), np.asarray(o)))"),
    ("unit-eq", "not (r.units == o.units) or (r.units != o.units) or not (o.units == r.units)"),
    ("unit-expr", "str(r.units.expr) != str(o.units.expr)"),
    ("unit-fields", "not (r.units.base_value == o.units.base_value and r.units.base_offset == o.units.base_offset "
                    "and r.units.dimensions == o.units.dimensions and r.units.is_atomic == o.units.is_atomic)"),
    ("unit_system", "r.units.registry.unit_system.name != SYSTEM or o.units.registry.unit_system.name != SYSTEM"),
    ("orig-untouched", "usig(o.units) != O_SIG or not same(canon(o), O_CANON) or "
                       "reg_diff(O_LUT, o.units.registry, ADDED, MODIFIED, REMOVED) != []"),
    ("independent-data", "(not isinstance(o, Unit)) and o.size > 0 and np.shares_memory(np.asarray(r), np.asarray(o))"),
]
REG_CATS = ["defaults", "added", "modified", "removed", "extra"]

HELPER_NAMES = dict(np=np, unyt=unyt, Unit=Unit, UnitRegistry=UnitRegistry, unyt_array=unyt_array,
                    unyt_quantity=unyt_quantity, pickle=RT.pickle, copy=RT.copy, os=os, tempfile=RT.tempfile,
                    shutil=RT.shutil, usig=RT.usig, canon=RT.canon, same=RT.same, reg_diff=RT.reg_diff,
                    clear_caches=RT.clear_caches, lut_snapshot=RT.lut_snapshot, sys=sys)
DEFAULT_KEYS = frozenset(LUT)


class World:
    pass


def build_world(task):
    """fresh registry + original + (after clearing memo tables) the restored object"""
    w = World()
    ns = dict(HELPER_NAMES)
    ns["PROTO"] = task["proto"]
    RT.reset_default_registry()
    RT.clear_caches()          # the original is built from a clean slate too (SymPy's cache decides
    #                            whether a parsed compound dimension IS the table's object)
    exec(VARIANTS[task["variant"]]["src"], ns)
    exec(task["subject"], ns)
    w.ns = ns
    w.o = ns["o"]
    w.o_lut = RT.lut_snapshot(w.o.units.registry)
    w.o_sig = RT.usig(w.o.units)
    w.o_canon = RT.canon(w.o)
    RT.set_subject_tol(w.o)
    RT.clear_caches()
    w.restore_exc = None
    try:
        exec(task["route_src"], ns)
        w.r = ns["r"]
    except Exception as e:  # noqa
        w.restore_exc = e
        w.r = None
    return w


def run_battery(task, q, o, is_unit):
    v = VARIANTS[task["variant"]]
    extra = {"ALT": task["alt"], "LEN_U": v["len_unit"], "DEFAULT_KEYS": DEFAULT_KEYS}
    out = {}
    if is_unit:
        qq, oo = RT.outcome(lambda: 90.0 * q), RT.outcome(lambda: 90.0 * o)
        out["u_make_quantity"] = qq
        try:
            Q, O = 90.0 * q, 90.0 * o
        except Exception:
            Q = O = None
    else:
        Q, O = q, o
    if Q is not None:
        ops = Q_OPS + (Q_OPS_CUSTOM if task["variant"] in CUSTOM_VARIANTS else [])
        out.update(RT.run_ops([(n, s) for n, s, _ in ops], Q, O, extra))
        out.update(RT.run_ops([(n, s) for n, s, _ in U_OPS], Q.units, O.units, extra))
    else:
        out.update(RT.run_ops([(n, s) for n, s, _ in U_OPS], q, o, extra))
    return out


OP_GROUP = {n: g for n, s, g in Q_OPS + Q_OPS_CUSTOM + U_OPS + BIND_EXTRA}
OP_GROUP["u_make_quantity"] = "unit-arith"
OP_SRC = {n: s for n, s, g in Q_OPS + Q_OPS_CUSTOM + U_OPS + BIND_EXTRA}


def bind_group(g, cls, name=""):
    """key family of the result-registry checks = the memoised rule family that produced the result; sums and
    differences of plain temperatures are a site of their own (_difference_units / _preserve_units special-case
    them and hand out module-level delta units)"""
    if g == "add" and cls.startswith("temp-") and cls != "temp-compound":
        return "temp-difference" if (cls == "temp-offset" and name in TEMP_DIFF_OPS) else "temp-arith"
    return PLAIN_GROUP.get(g, g)


TEMP_DIFF_OPS = {"sub_self", "sub_alt", "sub_scaled", "diff"}     # degC - degC -> delta_degC (_difference_units)


def bind_ops(task):
    return BIND_Q + (BIND_Q_CUSTOM if task["variant"] in CUSTOM_VARIANTS else [])


def run_bind_battery(task, q, o, is_unit, other):
    """name -> (outcome, registry class of the result, result object); q, o, other as in run_battery /
    RT.bound_to (other = the second object of the original/restored pair, None in the reference world)"""
    v = VARIANTS[task["variant"]]
    extra = {"ALT": task["alt"], "LEN_U": v["len_unit"], "DEFAULT_KEYS": DEFAULT_KEYS}
    if is_unit:
        try:
            Q, O = 90.0 * q, 90.0 * o
        except Exception:
            return RT.run_bind(BIND_U, q, o, extra, other)
    else:
        Q, O = q, o
    out = RT.run_bind(bind_ops(task), Q, O, extra, other)
    out.update(RT.run_bind(BIND_U, Q.units, O.units, extra, other))
    return out


def bind_pack(res, q, follow=True, tag=""):
    fol = RT.follow_new_symbol(res, q, tag) if follow else {}
    return {n: (oc, cls, fol.get(n)) for n, (oc, cls, x) in res.items()}


def bind_phase(task, is_unit):
    """the registry battery, in a fresh world of its own (memo tables cleared when the world is built):
      original, then restored (memo tables WARM)  -> reference (= the untouched original in a fresh
                                                     world) and A (restored after the original)
      memo tables cleared (as for order B of the main battery)
      restored, then original (memo tables WARM)  -> B (restored used first), H (original after it)
    Nothing changes a registry while the operations run, so the two registries have equal contents
    throughout; the follow-up (new symbols in the own registry, convert the results kept from above)
    comes after all of them, when task["follow"] is set (changing a registry makes it re-hash its whole
    table: ~60 ms for the default table with every prefixed symbol of `from unyt import *`).
    None when original and restored share ONE registry object (copy.copy, arr.copy, re-parse, loadtxt on
    the default registry): nothing can then tell the two apart."""
    fo = task.get("follow", True)
    w = build_world(task)
    if w.r is None or RT.registry_of(w.r) is RT.registry_of(w.o):
        return None
    a_o = run_bind_battery(task, w.o, w.o, is_unit, w.r)
    a_r = run_bind_battery(task, w.r, w.o, is_unit, w.o)
    RT.clear_caches()
    b_r = run_bind_battery(task, w.r, w.o, is_unit, w.o)
    b_o = run_bind_battery(task, w.o, w.o, is_unit, w.r)
    return (bind_pack(a_o, w.o, fo, "ref_"), bind_pack(a_r, w.r, fo, "A_"), bind_pack(b_r, w.r, fo, "B_"),
            bind_pack(b_o, w.o, fo, "H_"))


BIND_WHO = {"A": "restored (after the original)", "B": "restored (used first)",
            "H": "original after the restored object was used"}


def bind_replay(task, name, order, is_unit, kind):
    body = "BIND_Q = %r\nBIND_U = %r\nEXTRA = %s\n" % (bind_ops(task), BIND_U, EXTRA_SRC)
    body += ("def lift(w):\n    Q, O = w['r'], w['o']\n"
             + ("    try:\n        Q, O = 90.0 * Q, 90.0 * O\n    except Exception:\n        pass\n" if is_unit else "")
             + "    return Q, O\n"
             "def battery(Q, O, other):\n"
             "    if isinstance(Q, Unit):\n        return run_bind(BIND_U, Q, O, EXTRA, other)\n"
             "    out = run_bind(BIND_Q, Q, O, EXTRA, other)\n"
             "    out.update(run_bind(BIND_U, Q.units, O.units, EXTRA, other))\n    return out\n"
             "def pack(res, q, tag):\n    fol = follow_new_symbol(res, q, tag) if %r else {}\n" % bool(task.get("follow", True)) +
             "    return {n: (oc, cls, fol.get(n)) for n, (oc, cls, x) in res.items()}\n"
             "w = world()\nQ, O = lift(w)\n"
             "a_o = battery(O, O, Q)\na_r = battery(Q, O, O)\n"          # original first, memo tables warm
             "clear_caches()\n"
             "b_r = battery(Q, O, O)\nb_o = battery(O, O, Q)\n"          # restored first, memo tables warm
             "ref, got_A, got_B, got_H = [pack(res, x, tag)[%r] for res, x, tag in\n"
             "                            ((a_o, O, 'ref_'), (a_r, Q, 'A_'), (b_r, Q, 'B_'), (b_o, O, 'H_'))]\n"
             "got = got_%s\n" % (name, order))
    body += ("print('operation %s:', %r, ' observed on: %s')\n"
             "print('(outcome, registry the result is bound to, result converted to a unit added to the "
             "operand\\'s own registry afterwards)')\n"
             "print('original, fresh world :', ref)\nprint('observed               :', got)\n"
             % (name, OP_SRC.get(name, "?"), BIND_WHO[order]))
    cond = {"plain": "not same(ref[0], got[0])", "registry": "ref[1] != got[1]",
            "follow": "not same(ref[2], got[2])"}[kind]
    body += "if %s:\n    sys.exit(1)\n" % cond
    return replay_for(task, body)


def replay_for(task, body):
    v = VARIANTS[task["variant"]]
    head = (REPLAY_HEAD + "\n# ---- helpers (bounded/lib_c11_rt.py) ----\n" + LIB_SRC + "\n# ---- case ----\n"
            "PROTO = %d\nALT = %r\nLEN_U = %r\nSYSTEM = %r\nADDED = %r\nMODIFIED = %r\nREMOVED = %r\n"
            "DEFAULT_KEYS = frozenset(_DEFAULT_LUT)\n"
            "def world():\n" % (task["proto"], task["alt"], v["len_unit"], v["system"], v["added"],
                                v["modified"], v["removed"]))
    w = "reset_default_registry()\nclear_caches()\n" + v["src"] + task["subject"] + ("O_LUT = lut_snapshot(o.units.registry)\nO_SIG = usig(o.units)\n"
                                      "O_CANON = canon(o)\nset_subject_tol(o)\nclear_caches()\n")
    w += "try:\n" + "".join("    " + line + "\n" for line in task["route_src"].splitlines())
    w += "except Exception as e:\n    print('restore raised', repr(e)); r = None\n"
    w += "return dict(locals())\n"
    head += "".join("    " + line + "\n" for line in w.splitlines())
    return head + body + "\nsys.exit(0)\n"


EXTRA_SRC = "dict(ALT=ALT, LEN_U=LEN_U, DEFAULT_KEYS=DEFAULT_KEYS)"


def op_replay(task, name, order, is_unit, whole_battery):
    src = OP_SRC.get(name, "90.0*q")
    pre = ""
    if is_unit and name != "u_make_quantity":
        lift = "Q, O = 90.0 * w['r'], 90.0 * w['o']\n"
    else:
        lift = "Q, O = w['r'], w['o']\n"
    if name.startswith("u_") and name != "u_make_quantity":
        lift += "Q, O = Q.units, O.units\n"
    if whole_battery:
        ops = [(n, s) for n, s, _ in (Q_OPS + (Q_OPS_CUSTOM if task["variant"] in CUSTOM_VARIANTS else []))]
        pre = "Q_OPS = %r\nU_OPS = %r\n" % (ops, [(n, s) for n, s, _ in U_OPS])
        run = ("def battery(Q, O):\n    out = run_ops(Q_OPS, Q, O, %s)\n"
               "    out.update(run_ops(U_OPS, Q.units, O.units, %s))\n    return out\n" % (EXTRA_SRC, EXTRA_SRC))
        if is_unit:
            lift = "Q, O = 90.0 * w['r'], 90.0 * w['o']\n"
        else:
            lift = "Q, O = w['r'], w['o']\n"
        body = pre + run + "w = world()\n" + lift + "ref = battery(O, O)[%r]\n" % name
        body += "w = world()\n" + lift
        if order == "A":
            body += "battery(O, O)\ngot = battery(Q, O)[%r]\n" % name
        elif order == "B":
            body += "got = battery(Q, O)[%r]\n" % name
        else:
            body += "battery(Q, O)\ngot = battery(O, O)[%r]\n" % name
    else:
        one = "run_ops([(%r, %r)], %%s, O, %s)[%r]" % (name, src, EXTRA_SRC, name)
        body = "w = world()\n" + lift + "ref = " + one % "O" + "\n"
        body += "w = world()\n" + lift
        if order == "A":
            body += one % "O" + "\ngot = " + one % "Q" + "\n"
        elif order == "B":
            body += "got = " + one % "Q" + "\n"
        else:
            body += one % "Q" + "\ngot = " + one % "O" + "\n"
    body += ("print('operation %s:', %r)\nprint('original, fresh world :', ref)\nprint('observed               :', got)\n"
             "if not same(ref, got):\n    sys.exit(1)\n" % (name, src))
    return replay_for(task, body)


def minimal_reproduces(task, name, order, is_unit):
    """does the single operation alone (fresh world) already show the difference?"""
    try:
        v = VARIANTS[task["variant"]]
        extra = {"ALT": task["alt"], "LEN_U": v["len_unit"], "DEFAULT_KEYS": DEFAULT_KEYS}
        src = OP_SRC.get(name, "90.0*q")

        def lifted(w):
            Q, O = w.r, w.o
            if is_unit and name != "u_make_quantity":
                Q, O = 90.0 * Q, 90.0 * O
            if name.startswith("u_") and name != "u_make_quantity":
                Q, O = Q.units, O.units
            return Q, O
        w = build_world(task)
        Q, O = lifted(w)
        ref = RT.run_ops([(name, src)], O, O, extra)[name]
        w = build_world(task)
        Q, O = lifted(w)
        if order == "A":
            RT.run_ops([(name, src)], O, O, extra)
            got = RT.run_ops([(name, src)], Q, O, extra)[name]
        elif order == "B":
            got = RT.run_ops([(name, src)], Q, O, extra)[name]
        else:
            RT.run_ops([(name, src)], Q, O, extra)
            got = RT.run_ops([(name, src)], O, O, extra)[name]
        return not RT.same(ref, got)
    except Exception:
        return False


def run_task(task):
    """returns (cases, failures, notes); cases = [(key, nontrivial)], failures = [(key, what, replay)]"""
    cases, fails, notes = [], [], []
    route = ROUTE_KEY.get(task["route"], task["route"])
    size1 = ".size1" if (task["form"] == "a1one" and route.startswith("savetxt")) else ""
    v = VARIANTS[task["variant"]]
    is_unit = task["form"] in UNIT_FORMS
    label = "%s/%s/%s" % (task["variant"], task["unit"], task["form"])
    seen = set()

    def fail(key, what, replay):
        if key not in seen:
            seen.add(key)
            fails.append((key, "[%s proto=%d] %s" % (label, task["proto"], what), replay))

    try:
        # ---- order A world: structural checks + battery (original first) ----
        try:
            wA = build_world(task)
        except Exception as e:  # the ORIGINAL cannot be built: not a case
            notes.append("skipped %s: cannot build original: %r" % (label, e))
            return cases, fails, notes
        cls = unit_class(wA.o.units)
        nontriv = not (task["variant"] == "default" and cls == "plain" and task["form"] == "qf")
        import unyt._parsing  # noqa: F401  (used by the uexpr/qexpr subject sources)
        cases.append(("C11[%s:%s/%s/%s]" % (task["route"], task["variant"], task["unit"], task["form"]), nontriv))
        if wA.restore_exc is not None:
            e = wA.restore_exc
            if "pickle" in route and task["proto"] < 2 and "blob" not in wA.ns:
                # nothing was persisted: protocols 0/1 are refused at dump time (by SymPy for the
                # dimension expressions, by Python for __slots__ classes without __getstate__)
                notes.append("pickle protocol %d refused when DUMPING a %s (%s: %s)" % (
                    task["proto"], "Unit" if is_unit else "unyt_array", type(e).__name__, e))
                return cases, fails, notes
            fail("C11[%s:restore:%s]" % (route, cls), "restoring raised %r" % (e,),
                 replay_for(task, "w = world()\nif w['r'] is None:\n    sys.exit(1)\n"))
            return cases, fails, notes
        ns = dict(HELPER_NAMES)
        ns.update(o=wA.o, r=wA.r, SYSTEM=v["system"], O_LUT=wA.o_lut, O_SIG=wA.o_sig, O_CANON=wA.o_canon,
                  ADDED=v["added"], MODIFIED=v["modified"], REMOVED=v["removed"])
        struct_bad = False
        for name, cond in STRUCT_CHECKS:
            if name == "independent-data" and route in ("str", "repr", "json"):
                continue
            try:
                bad = bool(eval(cond, ns))
                detail = ""
            except Exception as e:  # noqa
                bad, detail = True, " (check raised %r)" % (e,)
            if bad:
                struct_bad = struct_bad or name in ("type", "dtype", "shape", "values", "unit-eq", "unit-expr", "unit-fields")
                fail("C11[%s:%s%s]" % (route, name, size1),
                     "after restoring: %s%s; original %r restored %r" % (cond, detail, wA.o_canon, RT.outcome(lambda: wA.r)),
                     replay_for(task, "w = world(); o = w['o']; r = w['r']; O_LUT = w['O_LUT']; O_SIG = w['O_SIG']; "
                                      "O_CANON = w['O_CANON']\nif r is None or (%s):\n    print(canon(o)); print(outcome(lambda: r)); sys.exit(1)\n" % cond))
        # additional restored objects of the nested / column routes
        for extra_name in ("r_unit", "r_other", "r_c"):
            if extra_name in wA.ns:
                x = wA.ns[extra_name]
                want = {"r_unit": "o.units", "r_other": "o" if "nested" in task["route"] else "o_b", "r_c": "o_b * 2"}[extra_name]
                cond = ("not ({x}.units == ({w}).units and str({x}.units.expr) == str(({w}).units.expr))"
                        + ("" if extra_name == "r_unit" else " or not np.array_equal(np.asarray({x}), np.asarray({w}))")
                        ).format(x=extra_name, w=want)
                ns2 = dict(wA.ns)
                try:
                    bad = bool(eval(cond, ns2))
                except Exception:
                    bad = True
                if bad:
                    struct_bad = True
                    fail("C11[%s:sibling-objects%s]" % (route, size1), "container sibling differs: %s" % cond,
                         replay_for(task, "w = world()\nif w['r'] is None or eval(%r, dict(globals(), **w)):\n    sys.exit(1)\n" % cond))
        # registry contents as a map
        if wA.r.units.registry is not wA.o.units.registry:
            diff = RT.reg_diff(wA.o_lut, wA.r.units.registry, v["added"], v["modified"], v["removed"])
            for cat in RT.cats(diff):
                fail("C11[%s:registry.%s]" % (route, cat),
                     "restored registry differs from the original's table: %s" % diff[:8],
                     replay_for(task, "w = world()\nd = reg_diff(w['O_LUT'], w['r'].units.registry, ADDED, MODIFIED, REMOVED)\n"
                                      "print(d)\nif %r in cats(d):\n    sys.exit(1)\n" % cat))
        if struct_bad:
            # the restored object is not the object that was persisted: the follow-up battery would
            # only repeat that in every operation group
            return cases, fails, notes
        ref = run_battery(task, wA.o, wA.o, is_unit)
        a_r = run_battery(task, wA.r, wA.o, is_unit)
        # ---- order B: memo tables forgotten again; restored first, then the original ----
        wB = wA
        RT.clear_caches()
        b_r = run_battery(task, wB.r, wB.o, is_unit)
        b_o = run_battery(task, wB.o, wB.o, is_unit)
        for name in ref:
            g = group_of(OP_GROUP[name], cls)
            for order, got, fam in (("A", a_r, ""), ("B", b_r, ""), ("H", b_o, "history.")):
                if name in got and not RT.same(ref[name], got[name]):
                    prec = ".precision" if RT.same_up_to_precision(ref[name], got[name]) else ""
                    key = "C11[%s:%s%s%s]" % (route, fam, g, prec)
                    if key in seen:
                        continue
                    fail(key, "%s  %s -> original in a fresh world: %r ; %s: %r" % (
                        name, OP_SRC.get(name, "90.0*q"), ref[name],
                        {"A": "restored (after the original)", "B": "restored (used first)",
                         "H": "original after the restored object was used"}[order], got[name]),
                        ("op", task, name, order, is_unit))
        # independent anchor: 90 degree-equivalents have sine 1 (value computed from the unit's scale)
        if cls == "angle" and not is_unit and wA.o.units.base_offset == 0 and wA.o.dtype == np.float64:
            want = np.sin(np.asarray(wA.o, dtype="float64") * wA.o.units.base_value)
            for tag, obj in (("A", wA.r), ("B", wB.r)):
                st = RT.outcome(lambda: np.sin(obj))
                okv = st[0] == "ok" and np.allclose(np.asarray(st[1][3] if st[1][0] in "QAN" else st[1]).ravel(),
                                                    want.ravel(), rtol=1e-6, atol=1e-7)
                if not okv:
                    fail("C11[%s:trig]" % route, "np.sin(restored) = %r, SI oracle %r" % (st, want.tolist()),
                         ("op", task, "sin", tag, is_unit))
        # ---- whose registry are the results bound to (warm memo tables, both orders), and do they
        #      follow that registry when a symbol is added to it afterwards ----
        ref, a_r, b_r, b_o = ((RT.registry_of(wA.r) is not RT.registry_of(wA.o) and bind_phase(task, is_unit))
                              or ({}, {}, {}, {}))
        for name in ref:
            g = group_of(OP_GROUP[name], cls)
            for order, got, fam in (("A", a_r, ""), ("B", b_r, ""), ("H", b_o, "history.")):
                if name not in got:
                    continue
                (oc0, cls0, fol0), (oc1, cls1, fol1) = ref[name], got[name]
                if not RT.same(oc0, oc1):
                    # the operation itself answers differently: the defect site of the main battery
                    kind = "plain"
                    prec = ".precision" if RT.same_up_to_precision(oc0, oc1) else ""
                    key = "C11[%s:%s%s%s]" % (route, fam, g, prec)
                    what = "%s  %s -> original in a fresh world: %r ; %s: %r" % (
                        name, OP_SRC[name], oc0, BIND_WHO[order], oc1)
                elif cls0 != cls1:
                    kind = "registry"
                    key = "C11[%s:%sresult-registry.%s]" % (route, fam, bind_group(OP_GROUP[name], cls, name))
                    what = ("%s  %s (memo tables warm) -> same value and unit %r, but the result of the original in a "
                            "fresh world is bound to its operand's %s registry and the result of the %s is bound to "
                            "the %s registry (result.units.registry is not q.units.registry); after adding a unit "
                            "c11new_%s to the operand's registry, result.to(it): original %r, here %r" % (
                                name, OP_SRC[name], oc1, cls0, BIND_WHO[order], cls1, name, fol0, fol1))
                elif not (fol0 is None and fol1 is None) and not RT.same(fol0, fol1):
                    kind = "follow"
                    prec = ".precision" if RT.same_up_to_precision(fol0, fol1) else ""
                    key = "C11[%s:%sresult-follows-registry.%s%s]" % (route, fam, bind_group(OP_GROUP[name], cls, name), prec)
                    what = ("%s  res = %s; q.units.registry.add('c11new_%s', 8*res.units.base_value, res.units.dimensions); "
                            "res.to('c11new_%s') -> original in a fresh world: %r ; %s: %r" % (
                                name, OP_SRC[name], name, name, fol0, BIND_WHO[order], fol1))
                else:
                    continue
                if key not in seen:
                    fail(key, what, ("bind", task, name, order, is_unit, kind))
    except Exception:
        notes.append("driver error in %s/%s: %s" % (label, route, traceback.format_exc()[-600:]))
    return cases, fails, notes


def run_chunk(tasks):
    out = []
    for t in tasks:
        out.append(run_task(t))
    return out


# ----------------------------------------------------------------------------------------------
# enumeration
# ----------------------------------------------------------------------------------------------
PINNED_UNITS = [  # one or more witnesses of every behaviour class; always run through every route
    "degree", "Å", "m**2", "arcmin", "rad", "lat", "degC", "degF", "delta_degC", "delta_degF", "K", "R", "dB", "Np",
    "m", "g", "statC", "C", "G", "T", "Ω", "dimensionless", "%", "sr", "rpm", "J/K", "degree/s", "km", "mdegC",
    "µm", "kg*m**2/s**2", "g**(1/2)/cm", "erg/s/cm**2/Hz", "100*m", "dB/m",
]
CORE_UNITS = {"degree", "lat", "degC", "delta_degC", "K", "dB", "m", "statC", "dimensionless", "mdegC", "Ω",
              "100*m", "degree/s", "J/K", "erg/s/cm**2/Hz", "dB/m"}
PREFIXED = ["km", "mg", "ns", "mK", "kdegC", "mdegC", "µA", "GHz", "mrad", "dB", "cNp", "kpc", "MeV", "nT",
            "mstatC", "kdelta_degC", "dam", "daA", "um", "uF", "mΩ", "kΩ", "mol", "mmol"]
COMPOUND = ["m/s", "kg*m/s**2", "g/cm**3", "erg/s/cm**2", "m**2", "1/s", "m**(1/2)", "degree/s", "rad**2",
            "K/m", "J/K", "delta_degC/m", "V/m", "statC**2/cm**2", "dimensionless", "100*m", "0.5*km/hr",
            "1/degree", "W/m**2/sr", "Np/m", "kg*degree", "mile/hr", "lbf*ft", "Msun/pc**3", "J/(mol*K)",
            "erg/(cm**2*s*Hz*sr)", "sqrt(g)/cm", "A*s", "statA/cm**2", "T*m**2", "G*cm**2", "rayleigh*s"]
CUSTOM_UNITS = ["foo", "kfoo", "tbar", "zang", "code_length", "mile", "Msun", "arcmin", "foo**2/s", "mile/hr",
                "degree", "degC", "dB", "m",            # <- N_CUSTOM_CORE: every route
                "mfoo", "code_mass", "code_mass/code_length**3", "zang/s", "Msun/kfoo**3",
                "delta_degC", "statC", "K", "km", "dimensionless", "ft", "yd", "lat"]
N_CUSTOM_CORE = 14
ALL_PROTO_UNITS = ("degree", "degC", "delta_degC", "m", "dB")      # quick: pickle protocols 0-5
CUSTOMCGS_UNITS = ["foo", "g*foo/s**2", "kfoo", "code_length", "mile", "m", "degree", "degC", "dB", "statC"]
CGS_UNITS = ["m", "degree", "degC", "statC", "g", "s", "K", "delta_degF", "dB", "C", "T", "J", "km/hr", "sr",
             "dimensionless", "Msun/pc**3", "mK", "lat"]


def rand_compound(rng, symbols):
    n = rng.choice([2, 2, 3])
    parts = []
    for s in rng.sample(symbols, n):
        p = rng.choice(["", "", "**2", "**-1", "**-2", "**(1/2)", "**3"])
        parts.append(s + p)
    return "*".join(parts)


def make_values(rng, unit):
    if unit in ("degree", "zang", "lat"):
        a = 90.0
    else:
        a = rng.choice([90.0, 3.0, 1.5, 250.0, 12.0, 7.25])
    return (a, rng.choice([2.0, 45.0, 30.5, 4.0]), rng.choice([1.0, 60.0, 0.25, 9.0]), rng.choice([5.0, 180.0, 8.0]))


def alt_for(variant, unit):
    """a second commensurable unit (string), computed on an untouched registry of the variant"""
    try:
        ns = dict(HELPER_NAMES)
        exec(VARIANTS[variant]["src"], ns)
        u = Unit(unit, registry=ns["reg"])
        D = unyt.dimensions
        if u.dimensions == D.temperature:
            return "K" if str(u.expr) != "K" else "R"
        if u.dimensions == D.angle:
            return "rad" if str(u.expr) != "rad" else "degree"
        if u.dimensions == D.logarithmic:
            return "Np" if str(u.expr) != "Np" else "dB"
        if u.dimensions == 1:
            return "%" if str(u.expr) != "%" else "dimensionless"
        b = str(u.get_base_equivalent("mks").expr)
        if b == str(u.expr):
            b = str(u.get_base_equivalent("cgs").expr)
        return b
    except Exception:
        return unit


def main():
    R = Run("C11",
            "cases = (registry variant: default / fresh / cgs unit_system / custom with added, modified, removed, "
            "prefixable and offset symbols / custom+cgs) x (subject: Unit, unyt_quantity, 0-d..2-d unyt_array of "
            "int8/int16/int64/float32/float64/complex64/complex128 over every atomic table symbol, prefixed, "
            "compound and seeded random compound units) x (route: pickle protocols 0-5, nested containers, "
            "copy.copy, copy.deepcopy, arr.copy, np.copy, Unit.copy(deep=False/True), str/repr re-parse, "
            "savetxt->loadtxt (single and multi-column), UnitRegistry.to_json/from_json); each case = structural "
            "comparison + ~150 follow-up operations on original and restored in both orders with cleared memo "
            "tables + (restored registry is an object of its own) ~35 unit-returning operations in both orders with "
            "warm memo tables: registry the result is bound to, and conversion of the result to a symbol added to "
            "the own registry afterwards; non-trivial = anything but a float quantity of a plain default-registry unit",
            "quick (~1600 cases): 36 pinned witnesses of every behaviour class (16 of them through all 21 routes, "
            "pickle protocols 0-5 on 5), every atomic table symbol through 2 seeded routes, 70 prefixed/compound/"
            "random-compound units, 5 other registries (custom: 27 units; 'added' = user symbols only, restored with "
            "equal contents by every route); thorough (~8900 cases): every atomic "
            "symbol as quantity and Unit through every route, all listed units of every registry through every route; "
            "savetxt routes only for the default registry (a text file carries no registry; temp files under /tmp); "
            "the registry-changing follow-up of the result-registry battery runs for every case of the small "
            "registries and, in quick, for the 16 core witnesses (float quantity and Unit) of the default registry")
    t0 = time.time()
    tasks = make_tasks(R)
    run_all(R, tasks, t0)


def make_tasks(R):
    rng = R.rng
    atomic = list(LUT)
    plain_syms = [k for k, v in LUT.items() if v[2] == 0 and "logarithmic" not in str(v[1]) and k not in ("dimensionless",)]
    tasks = []
    alt_cache = {}

    def add(variant, unit, form, route, proto):
        if route in DEFAULT_ONLY_ROUTES and variant != "default":
            return
        if route.startswith("savetxt") and form not in ("a1f", "a1c", "a1one"):
            return
        is_unit = form in UNIT_FORMS
        if is_unit != route.startswith("unit-"):
            return
        key = (variant, unit)
        if key not in alt_cache:
            alt_cache[key] = alt_for(variant, unit)
        src = (U_ROUTES if is_unit else Q_ROUTES)[route]
        vals = make_values(random.Random(zlib.crc32(("%s|%s|%s" % (variant, unit, form)).encode())), unit)
        # registry-mutating follow-up of the result-registry battery: always for the small registries; for
        # the default table (expensive to re-hash) quick runs it on the core witnesses only
        follow = (R.thorough or variant != "default"
                  or (unit in CORE_UNITS and form in ("qf", "unit")
                      and not (unit in ALL_PROTO_UNITS and route in ("pickle", "unit-pickle") and proto not in (2, 5))))
        tasks.append(dict(variant=variant, unit=unit, form=form, route=route, route_src=src, proto=proto,
                          subject=subject_src(unit, form, vals), alt=alt_cache[key], follow=follow))

    qroutes = list(Q_ROUTES)
    uroutes = list(U_ROUTES)
    # 1. pinned witnesses of every behaviour class (deterministic part of the enumeration): the core
    #    set goes through every route, the secondary set through the main routes
    MAIN_ROUTES = ("pickle", "deepcopy", "savetxt", "unit-pickle", "unit-str")
    TWIN_ROUTES = ("pickle-nested", "deepcopy-nested", "unit-pickle-nested", "unit-copy(deep)")   # same library code as their twin
    pin_forms = ["qf", "a1f", "unit"] if not R.thorough else ["qf", "a1f", "a1c", "unit"]
    for ui, unit in enumerate(PINNED_UNITS):
        core = unit in CORE_UNITS or R.thorough
        for form in pin_forms:
            rs = uroutes if form == "unit" else qroutes
            if form == "a1f" and not R.thorough:
                rs = ["savetxt", "savetxt-cols"] + (["pickle", "deepcopy", "arrcopy", "npcopy"] if unit in ALL_PROTO_UNITS else [])
            elif not core:
                rs = [r_ for r_ in rs if r_ in MAIN_ROUTES]
            elif not R.thorough and unit not in ALL_PROTO_UNITS:
                rs = [r_ for r_ in rs if r_ not in TWIN_ROUTES]
            for ri, route in enumerate(rs):
                protos = [2 + (ui + ri) % 4]
                if route in ("pickle", "unit-pickle") and form in ("qf", "unit") and (unit in ALL_PROTO_UNITS or R.thorough):
                    protos = [0, 1, 2, 3, 4, 5]
                for p in protos:
                    add("default", unit, form, route, p)
    # dtype / shape forms on a few pinned units
    for ui, unit in enumerate(["degree", "degC", "m"] if not R.thorough else ["degree", "degC", "m", "dB", "statC", "lat"]):
        for fi, form in enumerate(FORMS):
            if form in pin_forms:
                continue
            for ri, route in enumerate(["pickle", "deepcopy", "arrcopy", "str", "pickle-nested", "savetxt", "savetxt-cols"]
                                       if not R.thorough else qroutes):
                add("default", unit, form, route, 2 + (ui + fi + ri) % 4)
    # table rows whose scale is a numpy scalar (B and the Planck units), low-precision data
    for ui, unit in enumerate(("dB", "t_pl", "Np", "rad")):   # rad+int16: sin() of the restored array skips the float16 conversion
        for fi, form in enumerate(("a2f32", "a1i16")):
            for ri, route in enumerate(("json", "pickle", "deepcopy", "str")):
                add("default", unit, form, route, 2 + (ui + fi + ri) % 4)
    # units built from expressions instead of strings
    for variant, units in (("fresh", ["degree", "degC", "dB", "m", "km/hr"]), ("custom", ["zang", "foo", "tbar", "degree"]),
                           ("default", ["degree", "degC", "dB", "furlong/fortnight"])):
        for ui, unit in enumerate(units):
            for ri, route in enumerate(uroutes):
                add(variant, unit, "uexpr", route, 2 + (ui + ri) % 4)
            for ri, route in enumerate(["copy", "arrcopy", "str", "pickle", "deepcopy"]):
                add(variant, unit, "qexpr", route, 2 + (ui + ri) % 4)
    # 2. every atomic symbol
    for unit in atomic:
        if R.thorough:
            forms = ["qf", "unit", rng.choice(["a1f", "a1i16", "a2f32", "a1c", "q0c64", "a1one", "a2i8", "qi"])]
        else:
            forms = ["unit", rng.choice(["qf", "qf", "a1f", "a1i16", "a2f32", "a1c", "q0c64", "a1one", "a2i8", "qi"])]
        for fi, form in enumerate(forms):
            rs = uroutes if form == "unit" else qroutes
            chosen = rs if (R.thorough and fi < 2) else rng.sample(rs, 2 if R.thorough else 1)
            for route in chosen:
                add("default", unit, form, route, rng.choice([2, 3, 4, 5]))
    # 3. prefixed, compound, random compound
    ncomp = 60 if R.thorough else 14
    rcomp = [rand_compound(rng, plain_syms) for _ in range(ncomp)]
    for unit in PREFIXED + COMPOUND + rcomp:
        forms = ["unit", rng.choice(["qf", "a1f"])] if R.thorough else [rng.choice(["qf", "a1f", "unit", "a1c", "a2f32"])]
        for form in forms:
            rs = uroutes if form == "unit" else qroutes
            chosen = rs if (R.thorough and form == "unit") else rng.sample(rs, 4 if R.thorough else 1)
            for route in chosen:
                add("default", unit, form, route, rng.choice([2, 3, 4, 5]))
    # 4. other registries (deterministic)
    others = (("custom", CUSTOM_UNITS), ("cgs", CGS_UNITS if R.thorough else CGS_UNITS[:4]),
              ("customcgs", CUSTOMCGS_UNITS if R.thorough else CUSTOMCGS_UNITS[:2]),
              ("fresh", ["m", "degree", "degC", "dB", "statC"] if R.thorough else ["degree", "degC"]),
              ("added", ["code_length", "foo", "kfoo", "tbar", "foo**2/s", "m"] if R.thorough else ["code_length", "foo"]))
    for variant, units in others:
        for ui, unit in enumerate(units):
            core = R.thorough or variant != "custom" or ui < N_CUSTOM_CORE
            forms = ["qf", "unit", "a1f"] if (R.thorough or (variant == "custom" and ui < 4)) else ["qf", "unit"]
            for form in forms:
                rs = uroutes if form == "unit" else qroutes
                if not R.thorough and form == "a1f":
                    rs = ["pickle", "deepcopy", "pickle-nested", "arrcopy"]
                elif not core:
                    rs = [r_ for r_ in rs if r_ in ("pickle", "deepcopy", "unit-pickle", "unit-deepcopy")]
                elif not R.thorough and ui >= 2:
                    rs = [r_ for r_ in rs if r_ not in ("pickle-nested", "deepcopy-nested", "unit-pickle-nested", "unit-copy(deep)")]
                for ri, route in enumerate(rs):
                    add(variant, unit, form, route, 2 + (ui + ri) % 4)
    return tasks


def run_all(R, tasks, t0):
    nproc = min(16, os.cpu_count() or 1)
    chunks = [tasks[i::nproc * 4] for i in range(nproc * 4)]
    chunks = [c for c in chunks if c]
    results = []
    try:
        ctx = mp.get_context("fork")
        with ctx.Pool(nproc) as pool:
            for res in pool.imap(run_chunk, chunks):
                results.append(res)
    except Exception as e:  # noqa
        R.notes.append("pool failed (%r); running serially" % (e,))
        results = [run_chunk(c) for c in chunks]
    # deterministic merge: tasks order
    merged = {}
    for ci, res in enumerate(results):
        for ti, item in enumerate(res):
            merged[(ti, ci)] = item
    failed = {}
    notes = set()
    for k in sorted(merged):
        cases, fails, ns = merged[k]
        for key, nt in cases:
            R.case(key, nontrivial=nt)
        for key, what, replay in fails:
            if key not in failed:
                failed[key] = (what, replay)
        for n in ns:
            notes.add(n[:300])
    for key in sorted(failed):
        what, spec = failed[key]
        replay = spec
        if isinstance(spec, tuple) and spec[0] == "op":
            _, task, name, order, is_unit = spec
            try:
                whole = not minimal_reproduces(task, name, order, is_unit)
                replay = op_replay(task, name, order, is_unit, whole)
            except Exception as e:  # noqa
                replay = None
                R.notes.append("no replay for %s: %r" % (key, e))
        elif isinstance(spec, tuple) and spec[0] == "bind":
            _, task, name, order, is_unit, kind = spec
            try:
                replay = bind_replay(task, name, order, is_unit, kind)
            except Exception as e:  # noqa
                replay = None
                R.notes.append("no replay for %s: %r" % (key, e))
        R.fail(key, what, replay)
    for n in sorted(notes)[:40]:
        R.notes.append(n)
    R.samples = [dict(variant=t["variant"], subject=t["subject"].strip(), route=t["route"]) for t in tasks[:3]]
    R.notes.append("tasks=%d, operations per battery ~%d (+%d result-registry operations), enumeration wall %.1fs" % (
        len(tasks), len(Q_OPS) + len(U_OPS), len(BIND_Q) + len(BIND_U), time.time() - t0))
    R.finish()


if __name__ == "__main__":
    main()
