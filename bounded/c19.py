"""C19 bounded stand-in: unit-checking helpers decide by physical equality, not by spelling.

Runs the REAL package.  Four parts:

 A  allclose_units / assert_allclose_units.  A *scenario* is fixed in SI magnitudes (desired
    values, absolute tolerance, relative tolerance, a perturbation placed at f x tolerance with
    f in {0, .5, .999, 1.001, 2} on one element) and then written down in every unit assignment
    of the dimension group (actual unit x desired unit x spelling of atol: omitted, bare = in the
    DESIRED value's unit, quantity in every commensurable unit, dimensionless quantity,
    incommensurable unit; rtol bare / dimensionless quantity / percent / with a dimension) and in
    several container forms (unyt_array, unyt_quantity, list of quantities, 2-d, bare list /
    ndarray / scalar).  The required verdict is a function of the scenario only, so every
    re-expression must give the same verdict; the values are placed so that reading atol in the
    wrong unit flips the verdict.
 B  np.isclose / np.allclose on quantities: same scenarios (bare atol is read in the unit the
    operands are compared in, i.e. a's unit; a bare operand adopts the other operand's unit;
    different dimensions must raise; tolerances carrying units must be honoured or refused).
 C  np.array_equal / np.array_equiv / assert_array_equal_units: accept exactly when the units
    are equal (same dimension, scale, offset -- `==` on Unit, whatever the spelling: J, N*m,
    kg*m**2/s**2, km vs 1000*m, foreign registry) and the values are equal.
 D  accepts / returns / _has_dimensions: every dimension exported by unyt.dimensions x units of
    every exported dimension written in three unit systems + named table units; positional,
    keyword, default, keyword-only, *args, **kwargs, method, multiple-return usages; TypeError
    without calling the wrapped function (accepts) / very same result object (returns).
"""
import itertools
import math
import sys, os
sys.path.insert(0, os.path.dirname(os.path.abspath(__file__)))
from common import Run, replay_script, safe

import numpy as np
import sympy
import unyt
from unyt import Unit, UnitRegistry, unyt_array, unyt_quantity
from unyt import dimensions as DM
from unyt.dimensions import accepts, returns, _has_dimensions
from unyt._unit_lookup_table import default_unit_symbol_lut as LUT

R = Run("C19",
        "scenario (SI magnitudes, tolerance, perturbation at f x tolerance) x every unit assignment of the "
        "dimension group x atol/rtol spelling x container form for allclose_units/assert_allclose_units/"
        "np.isclose/np.allclose; unit-pair x value-relation x shape for array_equal/array_equiv/"
        "assert_array_equal_units; every exported dimension x units of every exported dimension x call form "
        "for accepts/returns; non-trivial = the two operands are spelled in different units, or a tolerance "
        "carries a unit, or the call must be refused",
        "7 dimension groups (27 units incl. offset, percent, ly), 5 placements x 2 signs, <= 9 atol and 6 rtol "
        "spellings, 8 container forms; 62 exported dimensions x <= 7 units each x 62 declared dimensions; "
        "random part seeded")

np.seterr(all="ignore")

# ----------------------------------------------------------------------------------------------
# harness: every case is python SOURCE evaluated in NS, so that the replay is the same text
# ----------------------------------------------------------------------------------------------
NS = {"np": np, "unyt": unyt, "Unit": Unit, "unyt_array": unyt_array, "unyt_quantity": unyt_quantity,
      "UnitRegistry": UnitRegistry, "allclose_units": unyt.allclose_units,
      "assert_allclose_units": unyt.assert_allclose_units,
      "assert_array_equal_units": unyt.testing.assert_array_equal_units}

CONFORMS_SRC = '''
def _match(r, e):
    import numpy as np
    if e[0] == "ret":
        return r[0] == "ret" and isinstance(r[1], (bool, np.bool_)) and bool(r[1]) == e[1]
    if e[0] == "arr":
        if r[0] != "ret":
            return False
        got = np.asarray(r[1])
        return got.dtype == bool and got.shape == np.shape(e[1]) and bool(np.all(got == np.array(e[1])))
    if e[0] == "none":
        return r[0] == "ret" and r[1] is None
    if e[0] == "exc":
        return r[0] == "exc" and (e[1] is None or r[1] in e[1])
    return False
def conforms(r, exps):
    return any(_match(r, e) for e in exps)
'''
_uu_cache = {}


def uu(name):
    """Unit(name), cached (parsing a unit string costs more than the call under test)"""
    if name not in _uu_cache:
        _uu_cache[name] = Unit(name)
    return _uu_cache[name]


NS["uu"] = uu
exec(CONFORMS_SRC, NS)
conforms = NS["conforms"]

_code_cache = {}


def run_src(src):
    try:
        c = _code_cache.get(src)
        if c is None:
            c = compile(src, "<case>", "eval")
            if len(_code_cache) < 20000:
                _code_cache[src] = c
        return ("ret", eval(c, NS))
    except Exception as e:  # noqa
        return ("exc", type(e).__name__)


def replay_for(src, exps):
    body = ("from unyt.testing import assert_array_equal_units\nuu = Unit\n" + CONFORMS_SRC +
            "try:\n    r = ('ret', %s)\nexcept Exception as e:\n    r = ('exc', type(e).__name__)\n"
            "print('observed', r)\nprint('required one of', %r)\n"
            "sys.exit(0 if conforms(r, %r) else 1)\n" % (src, exps, exps))
    return replay_script(body)


def show(r):
    if r[0] == "ret":
        return "returned %s" % (np.array2string(np.asarray(r[1])) if not isinstance(r[1], (bool, type(None))) else r[1])
    return "raised %s" % r[1]


def check(key, src, exps, nontrivial=True, sample=None):
    """evaluate one case; returns True iff the observed outcome conforms"""
    R.case(key, nontrivial=False)          # counted; distinct non-trivial cases are tracked by their source text
    if nontrivial:
        R.keys.add(src)
    if sample is not None and len(R.samples) < 6:
        R.samples.append(sample)
    r = run_src(src)
    ok = conforms(r, exps)
    if not ok and key not in FAILED:
        FAILED.add(key)
        R.fail(key, "%s  %s; required one of %s" % (src, show(r), exps), replay_for(src, exps))
    return ok, r


FAILED = set()
TIMES = []

# ----------------------------------------------------------------------------------------------
# units; SI magnitude of a raw value v in unit u is (v - base_offset) * base_value
# ----------------------------------------------------------------------------------------------
GROUPS = {
    "length": ["m", "cm", "km", "inch", "ly"],
    "time": ["s", "ms", "hr"],
    "mass": ["kg", "g", "lb"],
    "energy": ["J", "erg", "N*m", "eV", "kW*hr"],
    "velocity": ["m/s", "km/hr", "mile/hr"],
    "none": ["dimensionless", "percent"],
    "temperature": ["K", "R", "degC", "degF"],
}
# units an absolute tolerance (an interval) may additionally be written in
ATOL_EXTRA = {"temperature": ["delta_degC", "delta_degF"]}
BASE_SI = {"length": [1.0, 2.5, 40.0], "time": [1.0, 2.5, 40.0], "mass": [1.0, 2.5, 40.0],
           "energy": [1.0, 2.5, 40.0], "velocity": [1.0, 2.5, 40.0], "none": [1.0, 2.5, 40.0],
           "temperature": [250.0, 300.0, 400.0]}
_U = {}


def U(name):
    if name not in _U:
        _U[name] = Unit(name)
    return _U[name]


def scale(name):
    return float(U(name).base_value)


def offset(name):
    return float(U(name).base_offset)


def has_offset(name):
    return offset(name) != 0.0


def to_si(raw, name):
    return (np.asarray(raw, dtype=float) - offset(name)) * scale(name)


def from_si(si, name):
    return np.asarray(si, dtype=float) / scale(name) + offset(name)


def group_of(name):
    for g, us in GROUPS.items():
        if name in us or name in ATOL_EXTRA.get(g, ()):
            return g
    raise KeyError(name)


def close_oracle(A, D, atol_si, rtol, equal_nan=False):
    """numpy.isclose semantics evaluated on SI magnitudes"""
    A, D = np.broadcast_arrays(np.asarray(A, float), np.asarray(D, float))
    fin = np.isfinite(A) & np.isfinite(D)
    with np.errstate(all="ignore"):
        res = np.where(fin, np.abs(A - D) <= atol_si + rtol * np.abs(D), A == D)
        margin = np.where(fin, np.abs(np.abs(A - D) - (atol_si + rtol * np.abs(D))), np.inf)
        tol = np.where(fin, atol_si + rtol * np.abs(D), 1.0)
    if equal_nan:
        res = res | (np.isnan(A) & np.isnan(D))
    borderline = bool(np.any(margin < 1e-7 * np.maximum(tol, 1e-300)))
    return res, borderline


def flist(x):
    return [float(v) for v in np.asarray(x, dtype=float).ravel()]


def fsrc(x):
    """source text of a float list (nan/inf spelled so that eval understands them)"""
    out = []
    for v in flist(x):
        if math.isnan(v):
            out.append("np.nan")
        elif math.isinf(v):
            out.append("np.inf" if v > 0 else "-np.inf")
        else:
            out.append(repr(v))
    return "[" + ", ".join(out) + "]"


FORMS_Q = ["arr", "mul", "listq", "2d", "qty"]
FORMS_BARE = ["bare-list", "bare-nd", "bare-scalar"]


def operand_src(raw, uname, form):
    """source of an operand holding `raw` (1-d) in unit `uname`; returns (src, raw-as-seen)"""
    raw = np.asarray(raw, dtype=float)
    if form == "arr":
        return "unyt_array(%s, uu(%r))" % (fsrc(raw), uname), raw
    if form == "mul":
        return "np.array(%s)*uu(%r)" % (fsrc(raw), uname), raw
    if form == "listq":
        return "[unyt_quantity(x, uu(%r)) for x in %s]" % (uname, fsrc(raw)), raw
    if form == "2d":
        return "unyt_array(np.array([%s, %s]), uu(%r))" % (fsrc(raw), fsrc(raw), uname), np.array([raw, raw])
    if form == "qty":
        return "unyt_quantity(%s, uu(%r))" % (fsrc(raw[:1])[1:-1], uname), raw[:1].reshape(())
    if form == "bare-list":
        return fsrc(raw), raw
    if form == "bare-nd":
        return "np.array(%s)" % fsrc(raw), raw
    if form == "bare-scalar":
        return fsrc(raw[:1])[1:-1], raw[:1].reshape(())
    raise ValueError(form)


# ----------------------------------------------------------------------------------------------
# Part A + B: closeness
# ----------------------------------------------------------------------------------------------
F_PLACE = [0.0, 0.5, 0.999, 1.001, 2.0]
# classes that hold on the unchanged tree get a sub-tag for nan/inf/bare-operand inputs
CLEAN = {"rtol-only", "atol-quantity", "atol-bare-same-scale", "quantities", "atol-bare", "bare-operand",
         "rtol-not-dimensionless", "atol-incommensurable"}
counter = itertools.count()


def tol_src(kind, value, uname=None):
    """source of a tolerance argument"""
    if kind == "bare":
        return repr(float(value))
    if kind == "int0":
        return "0"
    return "unyt_quantity(%r, uu(%r))" % (float(value), uname)


def closeness_case(group, ua, ud, form_a, form_d, atol_spec, rtol_spec, f, sign, idx, base=None,
                   funcs=("allclose_units", "assert_allclose_units", "np.isclose", "np.allclose"),
                   special=None, callform=0):
    """One scenario written in one unit assignment, evaluated by all four functions.

    atol_spec: ("none",) | ("bare", ATOL_si) | ("unit", ATOL_si, uname) | ("incomm", value, uname)
    rtol_spec: ("default",) | ("bare", r) | ("dimless", r) | ("percent", r) | ("bad", r, uname)
    special: None | "nan" | "nan-equal" | "inf" | "inf-mismatch"
    """
    D_si = np.array(base if base is not None else BASE_SI[group], dtype=float)
    if form_a in ("qty", "bare-scalar") or form_d in ("qty", "bare-scalar"):
        D_si, idx = D_si[:1], 0                   # a scalar operand: one-element scenario
        if special:
            return
    rtol = {"default": 1e-7}.get(rtol_spec[0], rtol_spec[1] if len(rtol_spec) > 1 else None)
    ATOL_si = 0.0 if atol_spec[0] in ("none", "incomm") else float(atol_spec[1])
    T = ATOL_si + rtol * np.abs(D_si)
    A_si = D_si.copy()
    A_si[idx] = D_si[idx] + sign * f * T[idx]
    d_raw = from_si(D_si, ud)
    a_raw = from_si(A_si, ua)
    equal_nan = False
    if special in ("nan", "nan-equal"):
        a_raw[-1] = np.nan
        d_raw[-1] = np.nan
        equal_nan = special == "nan-equal"
    elif special == "inf":
        a_raw[-1] = np.inf
        d_raw[-1] = np.inf
    elif special == "inf-mismatch":
        a_raw[-1] = np.inf
    a_src, a_seen = operand_src(a_raw, ua, form_a)
    d_src, d_seen = operand_src(d_raw, ud, form_d)
    # the verdict, recomputed from the numbers actually handed over
    A2, D2 = to_si(a_seen, ua), to_si(d_seen, ud)
    elem, borderline = close_oracle(A2, D2, ATOL_si, rtol, equal_nan)
    if borderline:
        R.notes.append("borderline scenario skipped: %s %s %s" % (ua, ud, f))
        return
    verdict = bool(np.all(elem))

    a_bare, d_bare = form_a.startswith("bare"), form_d.startswith("bare")
    # ---- tolerance arguments ------------------------------------------------------------
    def rtol_arg(explicit=False):
        k = rtol_spec[0]
        if k == "default":
            return "1e-07" if explicit else None
        if k == "bare":
            return tol_src("bare", rtol)
        if k == "dimless":
            return tol_src("q", rtol, "dimensionless")
        if k == "percent":
            return tol_src("q", rtol * 100.0, "percent")
        return tol_src("q", rtol, rtol_spec[2])

    def atol_arg(bare_unit, explicit=False):
        k = atol_spec[0]
        if k == "none":
            return "0" if explicit else None
        if k == "bare":
            return tol_src("bare", ATOL_si / scale(bare_unit))
        if k == "unit":
            return tol_src("q", ATOL_si / scale(atol_spec[2]), atol_spec[2])
        return tol_src("q", atol_spec[1], atol_spec[2])

    def call(fn, a, d, rt, at):
        args = [a, d]
        if callform % 2 == 0 or rt is None:
            if rt is not None:
                args.append("rtol=" + rt)
            if at is not None:
                args.append("atol=" + at)
        else:                                        # positional tolerances
            args.append(rt)
            if at is not None:
                args.append(at)
        if equal_nan:
            args.append("equal_nan=True")
        return "%s(%s)" % (fn, ", ".join(args))

    same_scale = math.isclose(scale(ua), scale(ud), rel_tol=1e-12)
    nontriv = (ua != ud) or atol_spec[0] in ("unit", "incomm") or rtol_spec[0] not in ("default", "bare")

    # ---- A: allclose_units / assert_allclose_units ---------------------------------------
    if "allclose_units" in funcs:
        rt, at = rtol_arg(), atol_arg(ud)
        if rtol_spec[0] == "bad":
            cls, exps = "rtol-not-dimensionless", [("exc", ("RuntimeError",))]
        elif atol_spec[0] == "incomm":
            cls, exps = "atol-incommensurable", [("ret", False)]
        elif has_offset(ua) and rtol > 0:
            cls, exps = "rtol-offset-unit", [("ret", verdict)]
        elif atol_spec[0] == "unit" and (has_offset(atol_spec[2]) or has_offset(ua)):
            cls, exps = "atol-offset-unit", [("ret", verdict)]
        elif rtol_spec[0] == "percent":
            cls, exps = "rtol-percent", [("ret", verdict)]
        elif atol_spec[0] == "bare" and not same_scale:
            cls, exps = "atol-bare-desired-unit", [("ret", verdict)]
        elif atol_spec[0] == "bare":
            cls, exps = "atol-bare-same-scale", [("ret", verdict)]
        elif atol_spec[0] == "unit":
            cls, exps = "atol-quantity", [("ret", verdict)]
        else:
            cls, exps = "rtol-only", [("ret", verdict)]
        if cls in CLEAN:
            if special:
                cls += "+" + special.split("-")[0]
            if a_bare or d_bare:
                cls += "+bare-operand"
        key = "C19[allclose_units:%s]" % cls
        src = call("allclose_units", a_src, d_src, rt, at)
        ok, r = check(key, src, exps, nontriv,
                      sample={"call": src, "required": exps})
        # inputs must not be altered
        if form_a in ("arr", "mul") and form_d in ("arr", "mul") and callform % 5 == 0:
            try:
                a_obj, d_obj = eval(a_src, NS), eval(d_src, NS)
                a0, d0, au0, du0 = a_obj.v.copy(), d_obj.v.copy(), str(a_obj.units), str(d_obj.units)
                try:
                    unyt.allclose_units(a_obj, d_obj, rtol=rtol, atol=0)
                except Exception:
                    pass
                R.case("mut", nontrivial=False)
                if not (np.array_equal(a_obj.v, a0, equal_nan=True) and np.array_equal(d_obj.v, d0, equal_nan=True)
                        and str(a_obj.units) == au0 and str(d_obj.units) == du0):
                    k2 = "C19[allclose_units:input-altered]"
                    if k2 not in FAILED:
                        FAILED.add(k2)
                        R.fail(k2, "allclose_units(%s, %s) altered an argument" % (a_src, d_src), replay_script(
                            "uu = Unit\na = %s\nd = %s\nsa, sd = (a.v.copy(), str(a.units)), (d.v.copy(), str(d.units))\n"
                            "allclose_units(a, d)\nprint(a, d)\n"
                            "sys.exit(1 if not (np.array_equal(a.v, sa[0], equal_nan=True) and str(a.units) == sa[1] and "
                            "np.array_equal(d.v, sd[0], equal_nan=True) and str(d.units) == sd[1]) else 0)\n" % (a_src, d_src)))
            except Exception as e:  # noqa
                R.notes.append("driver: mutation check %r" % e)
        # the asserting wrapper: None <-> True, AssertionError <-> False, other exceptions alike
        wexps = []
        for e in exps:
            if e[0] == "ret":
                wexps.append(("none",) if e[1] else ("exc", ("AssertionError",)))
            else:
                wexps.append(e)
        wsrc = call("assert_allclose_units", a_src, d_src, rt, at)
        wr = run_src(wsrc)
        R.case("w", nontrivial=False)
        if nontriv:
            R.keys.add(wsrc)
        if not conforms(wr, wexps) and ok:
            # allclose_units itself was right on this input: the wrapper is the defect site
            k2 = "C19[assert_allclose_units:%s]" % cls
            if k2 not in FAILED:
                FAILED.add(k2)
                R.fail(k2, "%s  %s; required one of %s (allclose_units gives the right verdict here)" % (
                    wsrc, show(wr), wexps), replay_for(wsrc, wexps))
        elif conforms(wr, wexps) and not ok:
            k2 = "C19[assert_allclose_units:disagrees-with-allclose_units]"
            if k2 not in FAILED:
                FAILED.add(k2)
                R.fail(k2, "%s %s although allclose_units on the same input %s" % (wsrc, show(wr), show(r)))

    # ---- B: np.isclose / np.allclose ------------------------------------------------------
    if "np.isclose" in funcs and not (a_bare and d_bare) and form_a != "listq" and form_d != "listq":
        # a bare operand adopts the other operand's unit (documented by unyt's own tests): re-spell the
        # bare numbers in that unit so that the scenario (SI magnitudes) is unchanged
        na_src, nd_src, na_seen, nd_seen, nua, nud = a_src, d_src, a_seen, d_seen, ua, ud
        if a_bare:
            na_src, na_seen = operand_src(np.atleast_1d(from_si(A2, ud)), ud, form_a)
            nua = ud
        if d_bare:
            nd_src, nd_seen = operand_src(np.atleast_1d(from_si(D2, ua)), ua, form_d)
            nud = ua
        cu = nua                                     # unit the comparison is carried out in (a's)
        elem_n, bl = close_oracle(to_si(na_seen, nua), to_si(nd_seen, nud), ATOL_si, rtol, equal_nan)
        if bl:
            return
        verdict_n = bool(np.all(elem_n))
        rt, at = rtol_arg(True), atol_arg(cu, True)   # numpy's own defaults are rtol=1e-5, atol=1e-8
        explicit_dimless = (not a_bare and not d_bare and group == "none" and ua != ud)
        ex_el = [("arr", np.asarray(elem_n).tolist())]
        ex_all = [("ret", verdict_n)]
        if rtol_spec[0] == "bad" or atol_spec[0] == "incomm":
            cls, ex_el, ex_all = "tolerance-with-units", [("exc", None)], [("exc", None), ("ret", False)]
        elif has_offset(cu) and rtol > 0:
            # a relative tolerance on an offset scale (degC/degF readings): its own defect site,
            # whatever spelling the tolerance has
            cls = "rtol-offset-unit"
            if atol_spec[0] == "unit" or rtol_spec[0] in ("dimless", "percent"):
                ex_el.append(("exc", None))
                ex_all.append(("exc", None))
        elif atol_spec[0] == "unit" or rtol_spec[0] in ("dimless", "percent"):
            cls = "tolerance-with-units"             # honoured, or refused by raising
            ex_el.append(("exc", None))
            ex_all.append(("exc", None))
        elif explicit_dimless:
            cls = "dimensionless-quantity-as-bare"
        elif a_bare or d_bare:
            cls = "bare-operand"
        elif atol_spec[0] == "bare":
            cls = "atol-bare"
        else:
            cls = "quantities"
        if special and cls in CLEAN:
            cls += "+" + special.split("-")[0]
        for fn, ex in (("np.isclose", ex_el), ("np.allclose", ex_all)):
            src = call(fn, na_src, nd_src, rt, at)
            # classes outside CLEAN sit in code shared by both handlers (_array_comp_helper / tolerances passed through)
            check("C19[%s:%s]" % (fn if cls.split("+")[0] in CLEAN else "np.isclose+allclose", cls), src, ex, nontriv)


def incommensurable_case(ua, ud, form_a, form_d, atol_spec, rtol_spec, callform=0):
    """actual and desired of different dimensions: allclose_units False, assert raises, numpy raises"""
    a_src, _ = operand_src([1.0, 2.5, 40.0], ua, form_a) if ua else operand_src([1.0, 2.5, 40.0], "dimensionless", form_a)
    d_src, _ = operand_src([1.0, 2.5, 40.0], ud, form_d) if ud else operand_src([1.0, 2.5, 40.0], "dimensionless", form_d)
    args = []
    if rtol_spec is not None:
        args.append("rtol=" + rtol_spec[1])
    if atol_spec is not None:
        args.append("atol=" + atol_spec)
    tail = "".join(", " + a for a in args)
    bad_rtol = rtol_spec is not None and rtol_spec[0] == "bad"
    exps = [("ret", False)] + ([("exc", ("RuntimeError",))] if bad_rtol else [])
    src = "allclose_units(%s, %s%s)" % (a_src, d_src, tail)
    ok, r = check("C19[allclose_units:incommensurable]", src, exps)
    wexps = [("exc", ("AssertionError",))] + ([("exc", ("RuntimeError",))] if bad_rtol else [])
    wsrc = "assert_allclose_units(%s, %s%s)" % (a_src, d_src, tail)
    wr = run_src(wsrc)
    R.case("w", nontrivial=False)
    R.keys.add(wsrc)
    if not conforms(wr, wexps) and ok and "C19[assert_allclose_units:incommensurable]" not in FAILED:
        FAILED.add("C19[assert_allclose_units:incommensurable]")
        R.fail("C19[assert_allclose_units:incommensurable]", "%s %s; required %s" % (wsrc, show(wr), wexps),
               replay_for(wsrc, wexps))
    bare_a, bare_d = form_a.startswith("bare"), form_d.startswith("bare")
    if bare_a or bare_d or form_a == "listq" or form_d == "listq":
        return                                  # bare operands adopt the other unit for numpy (documented)
    explicit_dimless = (ua == "dimensionless" or ud == "dimensionless")
    cls = "dimensionless-quantity-as-bare" if explicit_dimless else "incommensurable"
    for fn in ("np.isclose", "np.allclose"):
        check("C19[%s:%s]" % (fn if not explicit_dimless else "np.isclose+allclose", cls),
              "%s(%s, %s%s)" % (fn, a_src, d_src, tail), [("exc", None)])


def part_AB():
    n = m = 0
    for group, units in GROUPS.items():
        atol_units = units + ATOL_EXTRA.get(group, [])
        if group == "energy" and not R.thorough:
            units = units[1:4]                  # quick: operands in erg, N*m, eV; atol still in all five
        other = "s" if group != "time" else "kg"
        base = BASE_SI[group]
        A0 = 0.3 * base[0] if group != "temperature" else 2.0       # absolute tolerance of the scenario (SI)
        for ua in units:
            for ud in units:
                atol_specs = [("none",), ("bare", A0)] + [("unit", A0, u) for u in atol_units]
                atol_specs.append(("incomm", 0.3, other))
                if group != "none":
                    atol_specs.append(("incomm", 0.3, "dimensionless"))
                    atol_specs.append(("incomm", 30.0, "percent"))
                else:
                    atol_specs.append(("incomm", 0.3, "rad"))
                for atol_spec in atol_specs:
                    if atol_spec[0] == "none":
                        rtols = [("default",), ("bare", 0.01), ("dimless", 0.01), ("percent", 0.01),
                                 ("bad", 0.01, other), ("bad", 0.01, "rad")]
                        if group != "none":
                            rtols += [("bad", 0.01, ua), ("bad", 0.01, ud)]     # a unit of the operands' own dimension
                    elif atol_spec[0] == "incomm":
                        rtols = [("default",), ("bare", 0.01)]
                    else:
                        rtols = [("bare", 0.0), ("bare", 0.01), ("default",), ("dimless", 0.01)]
                        if atol_spec[0] == "bare":
                            rtols += [("percent", 0.01), ("bad", 0.01, other)]
                    for rtol_spec in rtols:
                        m += 1
                        for f in F_PLACE:
                            n += 1
                            if not R.thorough and f not in (0.999, 1.001, 2.0, (0.0, 0.5)[m % 2]):
                                continue        # quick: f = 0 and f = 0.5 alternate
                            sign = 1 if (n // 2) % 2 == 0 else -1
                            idx = n % 3
                            h = 7 * n + 3 * m          # decorrelate the container form from the placement f
                            fa = FORMS_Q[h % len(FORMS_Q)]
                            fd = FORMS_Q[(h // len(FORMS_Q)) % len(FORMS_Q)]
                            if fa == "2d" and fd == "2d":
                                fd = "arr"
                            if "qty" in (fa, fd):
                                idx = 0
                            closeness_case(group, ua, ud, fa, fd, atol_spec, rtol_spec, f, sign, idx, callform=n)
                            if R.thorough:
                                closeness_case(group, ua, ud, "arr", "arr", atol_spec, rtol_spec, f, -sign, (idx + 1) % 3,
                                               callform=n + 1)
    # bare operands (dimensionless by convention for allclose_units; adopt the partner's unit for numpy)
    for other_u in ["dimensionless", "percent"]:
        for fb in FORMS_BARE:
            for fq in ("arr", "qty", "mul"):
                for atol_spec in [("none",), ("bare", 0.3), ("unit", 0.3, "percent"), ("unit", 0.3, "dimensionless"),
                                  ("incomm", 0.3, "s")]:
                    for rtol_spec in [("bare", 0.01), ("dimless", 0.01)] if atol_spec[0] in ("none", "incomm") else [("bare", 0.0)]:
                        for f in F_PLACE:
                            n += 1
                            idx = 0 if "scalar" in fb or fq == "qty" else n % 3
                            for (ua, ud, fa, fd) in ((other_u, "dimensionless", fq, fb), ("dimensionless", other_u, fb, fq)):
                                closeness_case("none", ua, ud, fa, fd, atol_spec, rtol_spec, f, 1 if n % 2 else -1, idx,
                                               callform=n)
    # both bare
    for f in F_PLACE:
        closeness_case("none", "dimensionless", "dimensionless", "bare-list", "bare-nd", ("bare", 0.3), ("bare", 0.0),
                       f, 1, 1, funcs=("allclose_units",))
    # bare operand against a dimensional quantity for numpy (adopts the unit): part of group scenarios
    for group in ("length", "energy", "temperature"):
        for u in GROUPS[group]:
            for fb in FORMS_BARE:
                for f in F_PLACE:
                    n += 1
                    for flip in (0, 1):
                        fa, fd = (fb, "arr") if flip else ("arr", fb)
                        closeness_case(group, u, u, fa, fd, ("bare", 0.3 * BASE_SI[group][0] if group != "temperature" else 2.0),
                                       ("bare", 0.0), f, 1 if n % 2 else -1, 0, funcs=("np.isclose", "np.allclose"))
    # nan / inf and equal_nan forwarding
    for group, (ua, ud) in (("length", ("m", "cm")), ("length", ("inch", "km")), ("energy", ("erg", "eV")),
                            ("none", ("percent", "dimensionless")), ("temperature", ("K", "R"))):
        for special in ("nan", "nan-equal", "inf", "inf-mismatch"):
            for f in (0.5, 2.0):
                for atol_spec in (("none",), ("unit", 0.3 * BASE_SI[group][0], ua)):
                    closeness_case(group, ua, ud, "arr", "arr", atol_spec, ("bare", 0.01), f, 1, 0, special=special)
    # integer dtypes
    for spec in (("np.array([1, 2], dtype='int32')*Unit('m')", "unyt_array([100, 200], 'cm')", "", True),
                 ("np.array([1, 2], dtype='int8')*Unit('km')", "np.array([1000, 2001], dtype='int64')*Unit('m')", "", False),
                 ("np.array([1, 2], dtype='int8')*Unit('km')", "np.array([1000, 2001], dtype='int64')*Unit('m')",
                  ", rtol=0, atol=unyt_quantity(150, 'cm')", True),
                 ("np.array([1, 2], dtype='int8')*Unit('km')", "np.array([1000, 2001], dtype='int64')*Unit('m')",
                  ", rtol=0, atol=unyt_quantity(50, 'cm')", False),
                 ("unyt_array(np.array([1, 2], dtype='float32'), 'km')", "unyt_array([1000, 2000], 'm')", "", True),
                 ("unyt_array([1, 2], 'km')", "[unyt_quantity(1000, 'm'), unyt_quantity(200000, 'cm')]", "", True)):
        a, d, tail, exp = spec
        check("C19[allclose_units:integer-dtype]", "allclose_units(%s, %s%s)" % (a, d, tail), [("ret", exp)])
        check("C19[assert_allclose_units:integer-dtype]", "assert_allclose_units(%s, %s%s)" % (a, d, tail),
              [("none",) if exp else ("exc", ("AssertionError",))])

    # incommensurable operands
    reps = ["m", "ly", "s", "kg", "J", "m/s", "K", "degC", "rad", "percent", "dimensionless", "m**2", "1/s"]
    dims = {"m": "L", "ly": "L", "s": "T", "kg": "M", "J": "E", "m/s": "V", "K": "Th", "degC": "Th", "rad": "A",
            "percent": "1", "dimensionless": "1", "m**2": "L2", "1/s": "F"}
    for ua in reps:
        for ud in reps:
            if dims[ua] == dims[ud]:
                continue
            for atol_spec in (None, "0.5", "unyt_quantity(0.5, %r)" % ua, "unyt_quantity(0.5, %r)" % ud, "1e300"):
                for rtol_spec in (None, ("bare", "1e300"), ("bad", "unyt_quantity(0.01, 's')")):
                    n += 1
                    if not R.thorough and (n % 3) and not (atol_spec is None and rtol_spec is None):
                        continue
                    fa = ("arr", "qty", "mul", "listq", "2d")[n % 5]
                    fd = ("arr", "qty", "mul", "listq")[(n // 5) % 4]
                    incommensurable_case(ua, ud, fa, fd, atol_spec, rtol_spec)
    for u in ["m", "s", "K", "rad", "J"]:
        for fb in FORMS_BARE:
            for fq in ("arr", "qty"):
                incommensurable_case(u, None, fq, fb, None, None)
                incommensurable_case(None, u, fb, fq, None, None)
                incommensurable_case(u, None, fq, fb, "1e300", ("bare", "1e300"))

    # random part: random SI scenario, random unit assignment
    rng = R.rng
    N = 40000 if R.thorough else 1000
    for _ in range(N):
        group = rng.choice(list(GROUPS))
        units = GROUPS[group]
        ua, ud = rng.choice(units), rng.choice(units)
        if group == "temperature":
            base = [rng.uniform(150, 900) for _ in range(3)]
            A0 = rng.uniform(0.5, 20)
        else:
            mag = 10 ** rng.uniform(-3, 3)
            base = [mag * rng.uniform(0.5, 2) * rng.choice([1, 1, -1]) for _ in range(3)]
            A0 = mag * rng.uniform(0.01, 0.5)
        kind = rng.choice(["none", "bare", "unit", "unit"])
        atol_spec = {"none": ("none",), "bare": ("bare", A0),
                     "unit": ("unit", A0, rng.choice(units + ATOL_EXTRA.get(group, [])))}[kind]
        rtol_spec = rng.choice([("bare", 0.0), ("bare", 10 ** rng.uniform(-6, -1)), ("default",),
                                ("dimless", 10 ** rng.uniform(-6, -1))])
        if atol_spec[0] == "none" and rtol_spec == ("bare", 0.0):
            rtol_spec = ("default",)
        f = rng.choice([rng.uniform(0, 0.99), rng.uniform(1.01, 3.0)])
        closeness_case(group, ua, ud, rng.choice(FORMS_Q), rng.choice(FORMS_Q[:3]), atol_spec, rtol_spec, f,
                       rng.choice([1, -1]), rng.randrange(3), base=base, callform=rng.randrange(2))


# ----------------------------------------------------------------------------------------------
# Part C: equality with equal units
# ----------------------------------------------------------------------------------------------
EQ_UNITS = [
    # (source of the unit, dimension tag, scale, offset) -- scale/offset/dimension written down here, not read back
    ("Unit('m')", "L", 1.0, 0.0), ("Unit('cm')", "L", 0.01, 0.0), ("Unit('km')", "L", 1000.0, 0.0),
    ("Unit('1000*m')", "L", 1000.0, 0.0), ("Unit('m', registry=UnitRegistry())", "L", 1.0, 0.0),
    ("Unit('km')/Unit('s')*Unit('s')", "L", 1000.0, 0.0), ("Unit('inch')", "L", 0.0254, 0.0),
    ("Unit('J')", "E", 1.0, 0.0), ("Unit('N*m')", "E", 1.0, 0.0), ("Unit('kg*m**2/s**2')", "E", 1.0, 0.0),
    ("Unit('erg')", "E", 1e-7, 0.0), ("Unit('W*s')", "E", 1.0, 0.0),
    ("Unit('s')", "T", 1.0, 0.0), ("Unit('ms')", "T", 1e-3, 0.0),
    ("Unit('Hz')", "F", 1.0, 0.0), ("Unit('1/s')", "F", 1.0, 0.0), ("Unit('kHz')", "F", 1e3, 0.0),
    ("Unit('K')", "Th", 1.0, 0.0), ("Unit('delta_degC')", "Th", 1.0, 0.0), ("Unit('degC')", "Th", 1.0, -273.15),
    ("Unit('R')", "Th", 5.0 / 9.0, 0.0), ("Unit('degF')", "Th", 5.0 / 9.0, -459.67),
    ("Unit('dimensionless')", "1", 1.0, 0.0), ("Unit('percent')", "1", 0.01, 0.0), ("Unit('m')/Unit('m')", "1", 1.0, 0.0),
    ("Unit('rad')", "A", 1.0, 0.0), ("Unit('kg')", "M", 1.0, 0.0), ("Unit('g')", "M", 1e-3, 0.0),
    (None, "1", 1.0, 0.0),                                   # bare operand
]


def units_equal(x, y):
    return x[1] == y[1] and math.isclose(x[2], y[2], rel_tol=1e-9) and math.isclose(x[3], y[3], rel_tol=1e-9, abs_tol=1e-12)


def eq_operand(vals_src, u):
    return ("np.array(%s)" % vals_src) if u[0] is None else ("np.array(%s)*%s" % (vals_src, u[0]))


def part_C():
    n = 0
    for x in EQ_UNITS:
        for y in EQ_UNITS:
            if x[0] is None and y[0] is None:
                continue
            same_dim = x[1] == y[1]
            ueq = units_equal(x, y)
            n += 1
            # value relations: raw numbers identical / physically identical (re-expressed) / different
            rels = [("raw-equal", [1.0, 2.0, 4.0], [1.0, 2.0, 4.0])]
            if same_dim and not ueq:
                a = np.array([1.0, 2.0, 4.0])
                b = (a - x[3]) * x[2] / y[2] + y[3]
                # only keep re-expressions that are exact in floating point (so that == is meaningful)
                if np.all(((b - y[3]) * y[2]) == ((a - x[3]) * x[2])):
                    rels.append(("physically-equal", a.tolist(), b.tolist()))
            rels.append(("different", [1.0, 2.0, 4.0], [1.0, 2.5, 4.0]))
            for rel, av, bv in rels:
                vals_equal = av == bv
                for shape in ("same", "row-vs-matrix", "scalar-vs-array", "length-mismatch"):
                    if shape != "same" and not R.thorough and (n % 4) and not ueq:
                        continue
                    if shape == "same":
                        a_s, b_s = repr(av), repr(bv)
                        sh_equal, sh_equiv, sh_assert = True, True, True
                    elif shape == "row-vs-matrix":
                        a_s, b_s = repr(av), repr([bv, bv])
                        sh_equal, sh_equiv, sh_assert = False, True, False
                    elif shape == "scalar-vs-array":
                        a_s, b_s = repr(av[0]), repr([bv[0], bv[0]])
                        sh_equal, sh_equiv, sh_assert = False, True, True      # assert_array_equal broadcasts scalars
                        vals_equal = av[0] == bv[0]
                    else:
                        a_s, b_s = repr(av), repr(bv[:2])
                        sh_equal, sh_equiv, sh_assert = False, False, False
                        vals_equal = av[:2] == bv[:2]
                    A, B = eq_operand(a_s, x), eq_operand(b_s, y)
                    tag = "equal-units" if ueq else ("commensurable-units" if same_dim else "different-dimensions")
                    nt = x[0] != y[0]
                    check("C19[np.array_equal:%s]" % tag, "np.array_equal(%s, %s)" % (A, B),
                          [("ret", ueq and sh_equal and vals_equal)], nt)
                    check("C19[np.array_equiv:%s]" % tag, "np.array_equiv(%s, %s)" % (A, B),
                          [("ret", ueq and sh_equiv and vals_equal)], nt)
                    acc = ueq and sh_assert and vals_equal
                    check("C19[assert_array_equal_units:%s]" % tag, "assert_array_equal_units(%s, %s)" % (A, B),
                          [("none",)] if acc else [("exc", None)], nt)
                    if shape == "scalar-vs-array" and ueq:
                        # keyword forwarding: strict=True forbids the scalar broadcast
                        check("C19[assert_array_equal_units:kwargs]",
                              "assert_array_equal_units(%s, %s, strict=True)" % (A, B), [("exc", ("AssertionError",))], nt)
    # quantities (0-d) and lists, nan handling
    for (src, exp) in (
            ("np.array_equal(unyt_quantity(1.0, 'm'), unyt_quantity(100.0, 'cm'))", False),
            ("np.array_equal(unyt_quantity(1.0, 'm'), unyt_quantity(1.0, 'm'))", True),
            ("np.array_equiv(unyt_quantity(1.0, 'm'), unyt_quantity(100.0, 'cm'))", False),
            ("np.array_equiv(unyt_quantity(1.0, 'm'), unyt_array([1.0, 1.0], 'm'))", True),
            ("np.array_equal(unyt_array([1.0, np.nan], 'm'), unyt_array([1.0, np.nan], 'm'))", False),
            ("np.array_equal(unyt_array([1.0, np.nan], 'm'), unyt_array([1.0, np.nan], 'm'), equal_nan=True)", True),
            ("np.array_equal(unyt_array([1.0, np.nan], 'm'), unyt_array([1.0, np.nan], 'cm'), equal_nan=True)", False),
            ("np.array_equal(unyt_array([1.0, np.nan], 'J'), unyt_array([1.0, np.nan], 'N*m'), equal_nan=True)", True),
            ("np.array_equal([1.0, 2.0], unyt_array([1.0, 2.0], 'm'))", False),
            ("np.array_equal(unyt_array([1.0, 2.0], 'm'), [1.0, 2.0])", False),
            ("np.array_equal([1.0, 2.0], unyt_array([1.0, 2.0], 'dimensionless'))", True),
            ("np.array_equal([1.0, 2.0], unyt_array([100.0, 200.0], 'percent'))", False),
            ("np.array_equal(np.array([1, 2], dtype='int8')*Unit('m'), unyt_array([1.0, 2.0], 'm'))", True),
    ):
        check("C19[np.array_equal:pinned]", src, [("ret", exp)])
    for (src, acc) in (
            ("assert_array_equal_units(unyt_quantity(1.0, 'm'), unyt_quantity(100.0, 'cm'))", False),
            ("assert_array_equal_units(unyt_quantity(1.0, 'm'), unyt_quantity(1.0, 'm'))", True),
            ("assert_array_equal_units([1.0, 2.0], [1.0, 2.0])", True),
            ("assert_array_equal_units([1.0, 2.0], [1.0, 2.5])", False),
            ("assert_array_equal_units([1.0, 2.0], unyt_array([1.0, 2.0], 'dimensionless'))", True),
            ("assert_array_equal_units([1.0, 2.0], unyt_array([100.0, 200.0], 'percent'))", False),
            ("assert_array_equal_units([1.0, 2.0], unyt_array([1.0, 2.0], 'm'))", False),
            ("assert_array_equal_units(unyt_array([1.0, 2.0], 'm'), [1.0, 2.0])", False),
            ("assert_array_equal_units(unyt_array([1.0, np.nan], 'm'), unyt_array([1.0, np.nan], 'm'))", True),
            ("assert_array_equal_units(unyt_array([1.0, 2.0], 'km'), unyt_array([1.0, 2.0], '1000*m'), err_msg='x')", True),
            ("assert_array_equal_units([unyt_quantity(1.0, 'm'), unyt_quantity(2.0, 'm')], unyt_array([1.0, 2.0], 'm'))", False),
    ):
        check("C19[assert_array_equal_units:pinned]", src, [("none",)] if acc else [("exc", ("AssertionError",))])


# ----------------------------------------------------------------------------------------------
# Part D: decorators
# ----------------------------------------------------------------------------------------------
BASE_SYMS = [DM.mass, DM.length, DM.time, DM.temperature, DM.angle, DM.current_mks, DM.luminous_intensity,
             DM.logarithmic]
SYSTEMS = [
    {DM.mass: "kg", DM.length: "m", DM.time: "s", DM.temperature: "K", DM.angle: "rad", DM.current_mks: "A",
     DM.luminous_intensity: "cd", DM.logarithmic: "Np"},
    {DM.mass: "g", DM.length: "cm", DM.time: "ms", DM.temperature: "R", DM.angle: "deg", DM.current_mks: "mA",
     DM.luminous_intensity: "mcd", DM.logarithmic: "dB"},
    {DM.mass: "lb", DM.length: "inch", DM.time: "hr", DM.temperature: "mK", DM.angle: "arcmin", DM.current_mks: "kA",
     DM.luminous_intensity: "kcd", DM.logarithmic: "B"},
]


def dimvec(expr):
    """exponent vector of a dimension expression over the base symbols (independent of sympy's ==)"""
    e = sympy.sympify(expr)
    pd = sympy.powsimp(sympy.expand_power_base(e, force=True), force=True).as_powers_dict()
    vec = []
    for b in BASE_SYMS:
        vec.append(sympy.Rational(pd.get(b, 0)))
    left = {k: v for k, v in pd.items() if k not in BASE_SYMS and k != 1}
    if left:
        raise ValueError("unexpected factor in %s: %s" % (expr, left))
    return tuple(vec)


def unit_string(vec, system):
    parts = []
    for b, p in zip(BASE_SYMS, vec):
        if p != 0:
            parts.append("%s**(%s)" % (system[b], p))
    return "*".join(parts) if parts else "dimensionless"


def part_D():
    DIMS = {}
    for name in sorted(dir(DM)):
        v = getattr(DM, name)
        if isinstance(v, sympy.Basic) and name not in ("k", "v"):
            DIMS[name] = v
    VEC = {n: dimvec(v) for n, v in DIMS.items()}
    lut_by_vec = {}
    for sym in sorted(LUT):
        try:
            lut_by_vec.setdefault(dimvec(LUT[sym][1]), []).append(sym)
        except Exception:
            pass
    # values: for every distinct exponent vector, the unit in three systems + up to 3 named table units
    values = {}           # vec -> list of (source, object)
    for n, vec in VEC.items():
        if vec in values:
            continue
        srcs = []
        for sy in SYSTEMS:
            srcs.append("unyt_quantity(3.0, %r)" % unit_string(vec, sy))
        srcs.append("unyt_array([1.0, 2.0], %r)" % unit_string(vec, SYSTEMS[1]))
        srcs.append("Unit(%r)" % unit_string(vec, SYSTEMS[2]))
        for sym in lut_by_vec.get(vec, [])[:3]:
            srcs.append("unyt_quantity(2.0, %r)" % sym)
        if all(p == 0 for p in vec):
            srcs += ["3.0", "7", "np.float64(2.0)", "np.array([1.0, 2.0])", "[1.0, 2.0]", "unyt_quantity(5.0, 'percent')",
                     "True"]
        objs = []
        for s in srcs:
            st, o = safe(eval, s, NS)
            if st == "ok":
                objs.append((s, o))
            else:
                R.notes.append("driver: cannot build %s: %r" % (s, o))
        values[vec] = objs

    calls = []

    def make_accepts(dim):
        @accepts(a=dim)
        def f(a, b=None):
            calls.append(a)
            return a
        return f

    def make_returns(dim):
        @returns(dim)
        def g(x):
            calls.append(x)
            return x
        return g

    def record(key, what, replay=None):
        if key not in FAILED:
            FAILED.add(key)
            R.fail(key, what, replay)

    def dec_replay(dimname, valsrc, kind, form, must_pass):
        dimexpr = "DM.%s" % dimname
        if kind == "accepts":
            call = {"pos": "f(v)", "kw": "f(a=v)"}[form]
            body = ("from unyt import dimensions as DM\ncalls = []\n@DM.accepts(a=%s)\ndef f(a, b=None):\n    calls.append(1)\n    return a\n"
                    "v = %s\ntry:\n    r = %s\n    passed = True\nexcept TypeError:\n    passed = False\n"
                    "print('passed', passed, 'calls', len(calls))\n"
                    "good = (passed and r is v and len(calls) == 1) if %r else (not passed and len(calls) == 0)\n"
                    "sys.exit(0 if good else 1)\n" % (dimexpr, valsrc, call, must_pass))
        else:
            body = ("from unyt import dimensions as DM\n@DM.returns(%s)\ndef g(x):\n    return x\n"
                    "v = %s\ntry:\n    r = g(v)\n    passed = True\nexcept TypeError:\n    passed = False\n"
                    "print('passed', passed)\n"
                    "good = (passed and r is v) if %r else (not passed)\nsys.exit(0 if good else 1)\n" % (dimexpr, valsrc, must_pass))
        return replay_script(body)

    # D1: full matrix declared dimension x value dimension
    d1 = 0
    for dname, dim in DIMS.items():
        fa, fr = make_accepts(dim), make_returns(dim)
        for vec, objs in values.items():
            must = VEC[dname] == vec
            d1 += 1
            for vi, (vsrc, v) in enumerate(objs):
                if not must and not R.thorough and (vi + d1) % 3:
                    continue                     # quick: a rotating third of the spellings for refused pairs
                fam = "same-dimension" if must else "other-dimension"
                if must and all(p == 0 for p in vec) and not hasattr(v, "units"):
                    fam = "bare-is-dimensionless"
                for form in ("pos", "kw"):
                    del calls[:]
                    try:
                        r = fa(v) if form == "pos" else fa(a=v)
                        out = ("pass", r)
                    except TypeError:
                        out = ("TypeError", None)
                    except Exception as e:  # noqa
                        out = (type(e).__name__, None)
                    R.case("D1", nontrivial=False)
                    R.keys.add(("acc", dname, vsrc, form))
                    good = (out[0] == "pass" and out[1] is v and len(calls) == 1) if must else \
                        (out[0] == "TypeError" and len(calls) == 0)
                    if not good:
                        record("C19[accepts:%s]" % fam, "@accepts(a=%s) f(%s) [%s]: %s, wrapped function called %d times; "
                               "must %s" % (dname, vsrc, form, out[0], len(calls), "pass" if must else "raise TypeError without calling"),
                               dec_replay(dname, vsrc, "accepts", form, must))
                del calls[:]
                try:
                    r = fr(v)
                    out = ("pass", r)
                except TypeError:
                    out = ("TypeError", None)
                except Exception as e:  # noqa
                    out = (type(e).__name__, None)
                R.case("D1", nontrivial=False)
                R.keys.add(("ret", dname, vsrc))
                good = (out[0] == "pass" and out[1] is v and len(calls) == 1) if must else (out[0] == "TypeError" and len(calls) == 1)
                if not good:
                    record("C19[returns:%s]" % fam, "@returns(%s) of %s: %s (function called %d times); must %s" % (
                        dname, vsrc, out[0], len(calls), "return the same object" if must else "raise TypeError"),
                           dec_replay(dname, vsrc, "returns", "pos", must))
                # _has_dimensions directly
                R.case("D1", nontrivial=False)
                st, hv = safe(_has_dimensions, v, dim)
                if st != "ok" or bool(hv) != must:
                    record("C19[_has_dimensions:%s]" % fam, "_has_dimensions(%s, %s) -> %r, expected %r" % (vsrc, dname, hv, must))

    # D1b: near misses -- dimensions that are NOT exported but share symbols with an exported one
    for dname, dim in DIMS.items():
        vec = VEC[dname]
        fa, fr = make_accepts(dim), make_returns(dim)
        near = {"squared": tuple(2 * p for p in vec), "sqrt": tuple(p / 2 for p in vec), "inverse": tuple(-p for p in vec),
                "times-length": tuple(p + (1 if i == 1 else 0) for i, p in enumerate(vec)),
                "per-time": tuple(p - (1 if i == 2 else 0) for i, p in enumerate(vec))}
        for how, nvec in near.items():
            if nvec == vec or nvec[7] != 0:
                continue
            vsrc = "unyt_quantity(3.0, %r)" % unit_string(nvec, SYSTEMS[(len(dname) + len(how)) % 3])
            st, v = safe(eval, vsrc, NS)
            if st != "ok":
                R.notes.append("driver: cannot build %s" % vsrc)
                continue
            for kind, fn in (("accepts", fa), ("returns", fr)):
                del calls[:]
                try:
                    fn(v)
                    out = "pass"
                except TypeError:
                    out = "TypeError"
                except Exception as e:  # noqa
                    out = type(e).__name__
                R.case("D1b", nontrivial=False)
                R.keys.add((kind, dname, how))
                if out != "TypeError" or len(calls) != (0 if kind == "accepts" else 1):
                    record("C19[%s:near-miss-dimension]" % kind, "@%s(%s) with %s (%s of it): %s; must raise TypeError" % (
                        kind, dname, vsrc, how, out), dec_replay(dname, vsrc, kind, "pos", False))

    # D2: call forms on multi-argument functions ---------------------------------------------
    L_good = ["unyt_quantity(2.0, 'm')", "unyt_quantity(2.0, 'ly')", "unyt_array([1.0, 2.0], 'inch')", "unyt_quantity(1.0, 'km*s/ms')"]
    L_bad = ["unyt_quantity(2.0, 's')", "2.0", "unyt_quantity(2.0, 'm**2')", "unyt_quantity(2.0, 'dimensionless')", "None"]
    T_good = ["unyt_quantity(3.0, 's')", "unyt_quantity(3.0, 'hr')", "unyt_quantity(3.0, '1/Hz')"]
    T_bad = ["unyt_quantity(3.0, 'm')", "3", "unyt_quantity(3.0, 'Hz')", "np.array([1.0])"]
    DEFS = {
        "plain": ("@DM.accepts(a=DM.length, b=DM.time)\ndef f(a, b, c=5):\n    calls.append(1)\n    return (a, b, c)\n",
                  ["f(A, B)", "f(A, b=B)", "f(a=A, b=B)", "f(b=B, a=A)", "f(A, B, unyt_quantity(1, 'kg'))", "f(A, B, c='x')"]),
        "default-good": ("@DM.accepts(a=DM.length, b=DM.time)\ndef f(a, b=unyt_quantity(3.0, 'min'), c=5):\n    calls.append(1)\n    return (a, b, c)\n",
                         ["f(A, B)", "f(A, b=B)", "f(a=A, b=B)"]),
        "kwonly": ("@DM.accepts(a=DM.length, b=DM.time)\ndef f(a, *, b, c=5):\n    calls.append(1)\n    return (a, b, c)\n",
                   ["f(A, b=B)", "f(a=A, b=B)", "f(b=B, a=A, c=1)"]),
        "posonly": ("@DM.accepts(a=DM.length, b=DM.time)\ndef f(a, /, b, c=5):\n    calls.append(1)\n    return (a, b, c)\n",
                    ["f(A, B)", "f(A, b=B)"]),
        "varkw": ("@DM.accepts(a=DM.length, b=DM.time)\ndef f(a, **kw):\n    calls.append(1)\n    return (a, kw['b'], 0)\n",
                  ["f(A, b=B)", "f(a=A, b=B)", "f(A, b=B, z=3)"]),
        "method": ("class K:\n    @DM.accepts(a=DM.length, b=DM.time)\n    def m(self, a, b, c=5):\n        calls.append(1)\n        return (a, b, c)\nf = K().m\n",
                   ["f(A, B)", "f(A, b=B)", "f(a=A, b=B)"]),
        "locals": ("@DM.accepts(a=DM.length, b=DM.time)\ndef f(a, b):\n    c = a\n    calls.append(1)\n    return (a, b, c)\n",
                   ["f(A, B)", "f(a=A, b=B)"]),
        "stacked-over-returns": ("@DM.accepts(a=DM.length, b=DM.time)\n@DM.returns(DM.length, DM.time)\ndef f(a, b, c=5):\n    calls.append(1)\n    return (a, b, c)\n",
                    ["f(A, B)", "f(A, b=B)", "f(a=A, b=B)"]),
        "stacked-under-returns": ("@DM.returns(DM.length, DM.time)\n@DM.accepts(a=DM.length, b=DM.time)\ndef f(a, b, c=5):\n    calls.append(1)\n    return (a, b, c)\n",
                     ["f(A, B)", "f(a=A, b=B)"]),
    }
    HEAD = "from unyt import dimensions as DM\ncalls = []\n"
    for fam, (defsrc, callforms) in DEFS.items():
        ns = dict(NS)
        ns["DM"] = DM
        ns["calls"] = []
        exec(defsrc, ns)
        for a_src, a_ok in [(s, True) for s in L_good] + [(s, False) for s in L_bad]:
            for b_src, b_ok in [(s, True) for s in T_good] + [(s, False) for s in T_bad]:
                must = a_ok and b_ok
                ns["A"], ns["B"] = eval(a_src, NS), eval(b_src, NS)
                for cf in callforms:
                    del ns["calls"][:]
                    try:
                        r = eval(cf, ns)
                        out = "pass"
                    except TypeError:
                        r, out = None, "TypeError"
                    except Exception as e:  # noqa
                        r, out = None, type(e).__name__
                    R.case("D2", nontrivial=False)
                    R.keys.add((fam, a_src, b_src, cf))
                    good = (out == "pass" and r[0] is ns["A"] and r[1] is ns["B"] and len(ns["calls"]) == 1) if must else \
                        (out == "TypeError" and len(ns["calls"]) == 0)
                    if not good:
                        body = (HEAD + defsrc + "A = %s\nB = %s\ntry:\n    r = %s\n    out = 'pass'\nexcept TypeError:\n    r, out = None, 'TypeError'\n"
                                "print(out, len(calls))\n"
                                "good = (out == 'pass' and r[0] is A and r[1] is B and len(calls) == 1) if %r else (out == 'TypeError' and len(calls) == 0)\n"
                                "sys.exit(0 if good else 1)\n" % (a_src, b_src, cf, must))
                        record("C19[accepts:callform-%s]" % fam, "%s with A=%s B=%s: %s, wrapped called %d times; must %s" % (
                            cf, a_src, b_src, out, len(ns["calls"]), "pass" if must else "raise TypeError without calling"),
                               replay_script(body))

    # D3: pinned usages whose required outcome follows from the statement -------------------------
    pinned = [
        # key, definition, call, must_pass
        ("accepts:default-value-not-checked",
         "@DM.accepts(a=DM.length, b=DM.time)\ndef f(a, b=unyt_quantity(3.0, 'm')):\n    calls.append(1)\n    return (a, b)\n",
         "f(unyt_quantity(1.0, 'm'))", False),
        ("accepts:default-value-good",
         "@DM.accepts(a=DM.length, b=DM.time)\ndef f(a, b=unyt_quantity(3.0, 's')):\n    calls.append(1)\n    return (a, b)\n",
         "f(unyt_quantity(1.0, 'm'))", True),
        ("accepts:varargs-misaligned",
         "@DM.accepts(b=DM.length)\ndef f(a, *rest, b=unyt_quantity(1.0, 'm')):\n    calls.append(1)\n    return (a, b)\n",
         "f(unyt_quantity(1.0, 's'), unyt_quantity(2.0, 's'))", True),
        ("accepts:varargs-keyword-checked",
         "@DM.accepts(b=DM.length)\ndef f(a, *rest, b=unyt_quantity(1.0, 'm')):\n    calls.append(1)\n    return (a, b)\n",
         "f(unyt_quantity(1.0, 's'), b=unyt_quantity(2.0, 's'))", False),
        ("accepts:varargs-keyword-checked",
         "@DM.accepts(b=DM.length)\ndef f(a, *rest, b=unyt_quantity(1.0, 'm')):\n    calls.append(1)\n    return (a, b)\n",
         "f(unyt_quantity(1.0, 's'), b=unyt_quantity(2.0, 'ly'))", True),
        ("accepts:unchecked-argument",
         "@DM.accepts(v=DM.velocity)\ndef f(a, v):\n    calls.append(1)\n    return (a, v)\n",
         "f('anything', unyt_quantity(2.0, 'mile/hr'))", True),
        ("accepts:unchecked-argument",
         "@DM.accepts(v=DM.velocity)\ndef f(a, v):\n    calls.append(1)\n    return (a, v)\n",
         "f(unyt_quantity(2.0, 'mile/hr'), 'anything')", False),
        ("accepts:lambda", "f = DM.accepts(x=DM.energy)(lambda x: (calls.append(1), x))\n", "f(unyt_quantity(1.0, 'kW*hr'))", True),
        ("accepts:lambda", "f = DM.accepts(x=DM.energy)(lambda x: (calls.append(1), x))\n", "f(unyt_quantity(1.0, 'kW'))", False),
    ]
    for key, defsrc, callsrc, must in pinned:
        ns = dict(NS)
        ns["DM"] = DM
        ns["calls"] = []
        try:
            exec(defsrc, ns)
            try:
                eval(callsrc, ns)
                out = "pass"
            except TypeError:
                out = "TypeError"
            except Exception as e:  # noqa
                out = type(e).__name__
        except Exception as e:  # noqa
            R.notes.append("driver: %r" % e)
            continue
        R.case("D3", nontrivial=False)
        R.keys.add((key, callsrc))
        good = (out == "pass" and len(ns["calls"]) == 1) if must else (out == "TypeError" and len(ns["calls"]) == 0)
        if not good:
            body = (HEAD + defsrc + "try:\n    %s\n    out = 'pass'\nexcept TypeError:\n    out = 'TypeError'\nprint(out, len(calls))\n"
                    "good = (out == 'pass' and len(calls) == 1) if %r else (out == 'TypeError' and len(calls) == 0)\n"
                    "sys.exit(0 if good else 1)\n" % (callsrc, must))
            record("C19[%s]" % key, "%s -> %s, wrapped function called %d times; must %s" % (
                callsrc, out, len(ns["calls"]), "pass" if must else "raise TypeError without calling"), replay_script(body))

    # D4: returns with several values ----------------------------------------------------------
    E_good = ["unyt_quantity(1.0, 'J')", "unyt_quantity(1.0, 'eV')", "unyt_quantity(1.0, 'kW*hr')", "unyt_array([1.0], 'lb*inch**2/hr**2')"]
    E_bad = ["unyt_quantity(1.0, 'W')", "1.0", "unyt_quantity(1.0, 'kg*m/s**2')"]
    RDEFS = {
        "single": ("DM.returns(DM.energy)", 1, (0,)),
        "two": ("DM.returns(DM.energy, DM.time)", 2, (0, 1)),
        "two-swapped": ("DM.returns(DM.time, DM.energy)", 2, (1, 0)),
        "extra-unchecked": ("DM.returns(DM.energy)", 2, (0, None)),
        "three": ("DM.returns(DM.energy, DM.time, DM.length)", 3, (0, 1, 2)),
        "deprecated-r_unit": ("DM.returns(r_unit=DM.energy)", 1, (0,)),
        "no-dimension": ("DM.returns()", 1, (None,)),
        "list-is-bare": ("DM.returns(DM.dimensionless)", 1, (3,)),
        "list-is-bare-2": ("DM.returns(DM.length)", 1, (4,)),
    }
    LISTS = ["[unyt_quantity(1.0, 'm'), unyt_quantity(2.0, 'm')]", "[1.0, 2.0]", "[unyt_quantity(1.0, 'm')]"]
    pools = {0: (E_good, E_bad), 1: (T_good, T_bad), 2: (L_good, L_bad[:4]),
             3: (LISTS + ["2.0", "np.array([1.0, 2.0])", "unyt_array([1.0], '%')"], L_good[:2]),
             4: (L_good[:2], LISTS)}
    for fam, (decsrc, nret, roles) in RDEFS.items():
        ns = dict(NS)
        ns["DM"] = DM
        st, dec = safe(eval, decsrc, ns)
        if st != "ok":
            R.case("D4", nontrivial=False)
            record("C19[returns:multi-%s]" % fam, "%s raised %r" % (decsrc, dec))
            continue
        box = {}
        count = []

        def inner():
            count.append(1)
            return box["v"]
        g = dec(inner)
        # enumerate good/bad per role
        choices = []
        for role in roles:
            if role is None:
                choices.append([("'unchecked'", True), ("unyt_quantity(1.0, 'kg')", True)])
            else:
                gd, bd = pools[role]
                choices.append([(s, True) for s in gd] + [(s, False) for s in bd])
        for combo in itertools.product(*choices):
            srcs = [c[0] for c in combo]
            must = all(c[1] for c in combo)
            objs = [eval(s, NS) for s in srcs]
            box["v"] = tuple(objs) if nret > 1 else objs[0]
            del count[:]
            try:
                r = g()
                out = "pass"
            except TypeError:
                r, out = None, "TypeError"
            except Exception as e:  # noqa
                r, out = None, type(e).__name__
            R.case("D4", nontrivial=False)
            R.keys.add((fam,) + tuple(srcs))
            good = (out == "pass" and r is box["v"] and len(count) == 1) if must else (out == "TypeError")
            if not good:
                retsrc = "(" + ", ".join(srcs) + ")" if nret > 1 else srcs[0]
                body = ("from unyt import dimensions as DM\nV = %s\ng = %s(lambda: V)\ntry:\n    r = g()\n    out = 'pass'\nexcept TypeError:\n    r, out = None, 'TypeError'\n"
                        "print(out)\ngood = (out == 'pass' and r is V) if %r else (out == 'TypeError')\nsys.exit(0 if good else 1)\n" % (retsrc, decsrc, must))
                record("C19[returns:multi-%s]" % fam, "%s on return value %s: %s; must %s" % (
                    decsrc, srcs, out, "return the very same object" if must else "raise TypeError"), replay_script(body))


# ----------------------------------------------------------------------------------------------
for part in (part_AB, part_C, part_D):
    try:
        _t = R.elapsed()
        part()
        TIMES.append("%s %.1fs" % (part.__name__, R.elapsed() - _t))
    except Exception as e:  # noqa
        import traceback
        R.notes.append("driver error in %s: %s" % (part.__name__, traceback.format_exc()[-600:]))

R.notes = TIMES + R.notes[:20]
R.finish()
