"""C18 bounded stand-in: non-mutating calls do not mutate; failed in-place calls leave their
operands intact; successful in-place calls change only their target and leave in it exactly the
numbers and the unit of the corresponding copying call.

Every operand is a VIEW (offset slice / strided / reversed / transposed / 0-d element) of a
larger root buffer; the whole root buffer is snapshotted byte for byte together with dtype,
shape, strides, unit signature and name of every operand (lib_c18_ops.E_nonmut / E_inplace)."""
import itertools
import os
import random
import sys
import zlib

sys.path.insert(0, os.path.dirname(os.path.abspath(__file__)))
from common import Run, replay_script  # noqa: E402

import numpy as np  # noqa: E402
import unyt  # noqa: E402
from unyt import array as UA  # noqa: E402
import unyt.exceptions as UE  # noqa: E402

import lib_c18_ops as L  # noqa: E402

R = Run("C18",
        "operation catalogue x operands that are views of larger buffers: (A) non-mutating calls -- conversion "
        "routes (to/in_units/in_base/in_cgs/in_mks/to_value/to_equivalent incl. offset, EM and equivalence "
        "routes), operators without assignment, every ufunc of unyt.array.unary_operators/binary_operators as "
        "call/reduce/accumulate/outer without out=, every call template of the C06 array-function catalogue, "
        "Unit arithmetic/get_base_equivalent/as_coeff_unit/simplify/copy: every operand's root-buffer bytes, "
        "dtype, shape, unit, name compared before/after; (B) in-place calls -- convert_to_*, augmented "
        "assignment, ufuncs with out= (out aliasing input 0, input 1, a second view of an input, a fresh "
        "junk-unit array; integer/unsigned/float/complex), reduce/accumulate/at out=, item assignment, handlers "
        "with out= and in-place handlers (same units: C06 catalogue; different commensurable units: 70 calls), with valid operands and with injected faults (dimension mismatch, "
        "unknown unit, irreducible unit, invalid equivalence, non-dimensionless exponent, offset-temperature "
        "refusal, 1-byte integers) at every operand position: after a raise every operand is unchanged; after "
        "success only target elements changed and the target equals the copying call on an independent build. "
        "Non-trivial = the call ran (succeeded or raised) on a view operand.",
        "finite catalogue x dtype grid (quick: int64/int16/uint8/float64/float32/complex128, one view kind per "
        "case in rotation; thorough: 14 dtypes x all view kinds) x 1 seeded data draw")

SEED = R.args.seed
seen = set()
stats = {"ok": 0, "exc": 0, "skip": 0, "base": 0}
exc_types = {}
driver_errors = []

DTQ = ["int64", "int16", "uint8", "float64", "float32", "complex128"]
DTT = DTQ + ["int8", "int32", "uint16", "uint32", "uint64", "float16", "longdouble", "complex64"]
DTS = DTT if R.thorough else DTQ
KINDS1 = ["strided", "slice", "rev", "T", "own"]
KNAME = {"i": "int", "u": "int", "f": "flt", "c": "cpx", "b": "bool"}


def kname(dt):
    """dtype class used in keys: 8-byte integers / float64+ / complex128 take the exact paths, the narrower
    types are converted through float16/float32 arithmetic"""
    d = np.dtype(dt)
    k = KNAME.get(d.kind, "x")
    wide = {"int": 8, "flt": 8, "cpx": 16}.get(k)
    return k + ("-narrow" if wide and d.itemsize < wide else "")


INEXACT_UFUNCS = {"exp", "exp2", "log", "log2", "log10", "expm1", "log1p", "cbrt", "sin", "cos", "tan", "arcsin", "arccos",
                  "arctan", "sinh", "cosh", "tanh", "arcsinh", "arccosh", "arctanh", "power", "arctan2", "hypot", "logaddexp",
                  "logaddexp2", "matmul", "vecdot", "pow", "ipow", "ipow-scalar", "ipow-half"}
INEXACT_COMPLEX = {"multiply", "divide", "true_divide", "absolute", "sqrt", "reciprocal", "square", "imul", "itruediv",
                   "idiv-self", "imul-scalar", "mul", "truediv"}


def opstr(opid):
    return opid if isinstance(opid, str) else ":".join(str(x) for x in opid if x)


def classify(fam, opid, kindname, st, exc, found, int_targets):
    """(operand, aspect) findings of one case -> [(key, operand, aspect)], one key per defect site"""
    ops = opstr(opid)
    name = opid[0] if not isinstance(opid, str) else ops
    form = opid[2] if not isinstance(opid, str) and len(opid) > 2 else ""
    aspects = {}
    for o, a in found:
        aspects.setdefault(o, []).append(a)
    out = []
    narrow = kindname.endswith("-narrow") or kindname == "out-int32"
    retyped = [o for o, al in aspects.items() if "after-raise-dtype" in al and o in int_targets]
    for o, a in found:
        al = aspects[o]
        if a == "after-raise-bytes" and ("after-raise-values" in al or "after-raise-dtype" in al):
            continue        # same observation, reported through the values / dtype aspect
        if a == "nontarget-bytes" and "nontarget-values" in al:
            continue
        if a == "target-rounding-cast":
            # the copying call computes in another dtype and is cast to the target's: <= 4 ulp is double rounding
            stats["rounding-of-a-cast"] = stats.get("rounding-of-a-cast", 0) + 1
            continue
        if st != "ok" and retyped and a.startswith("after-raise-"):
            # an integer out=/target was converted to float in place and then the call raised
            err = "unit-error" if isinstance(exc, UE.UnytError) else "numpy-error"
            if o in retyped:
                key = "C18[integer-out-retyped-then-raise:%s:%s:%s]" % (fam, err, a)
            else:
                key = "C18[integer-out-retyped-then-raise:%s:%s:aliased-operand-%s]" % (fam, err, a)
        elif fam.startswith("ufunc") and kindname.startswith("int") and a.startswith("target-") and (
                "view-of-a" in form or "part-of-a" in form):
            key = "C18[%s:integer-out-shares-memory-with-input:%s]" % (fam, kindname.replace("-narrow", ""))
        elif a == "target-rounding" and fam.startswith(("ufunc", "augmented")) and (
                name in INEXACT_UFUNCS or (kindname.startswith("cpx") and name in INEXACT_COMPLEX)):
            stats["ulp-noise-of-inexact-ufuncs"] = stats.get("ulp-noise-of-inexact-ufuncs", 0) + 1
            continue        # <= 4 ulp between two NumPy loops of a function that is not correctly rounded
        elif a in ("target-rounding", "target-values") and narrow and fam.startswith(("convert", "augmented", "ufunc")):
            # 2/4-byte data: the in-place route computes in float16/float32 (or retypes an integer target
            # to the narrow float first), the copying route in float64 -- one family per route and dtype class
            key = "C18[%s:%s:target-differs]" % (fam, kindname)
        elif a == "target-rounding":
            key = "C18[%s:%s:target-rounding]" % (fam, kindname)
        elif fam.startswith(("ufunc", "augmented")) and kindname.startswith("int") and a.startswith("target-"):
            key = "C18[%s:%s:%s:%s]" % (fam, name, kindname, a)
        elif fam.startswith("ufunc") and a.startswith("after-raise-"):
            key = "C18[%s:%s:%s:%s]" % (fam, name, form, a)
        elif fam.startswith("array-function"):
            key = "C18[%s:%s:%s]" % (fam, ops.split(":")[0], a)
        else:
            key = "C18[%s:%s:%s:%s]" % (fam, ops, kindname, a)
        out.append((key, o, a))
    return out


def h(*parts):
    return zlib.crc32("|".join(str(p) for p in parts).encode())


def rng_for(*parts):
    return random.Random("%d|%s" % (SEED, "|".join(str(p) for p in parts)))


def kinds_for(tag, shape):
    """view kinds to use for a case: all in thorough, one (rotating, deterministic) in quick"""
    if shape == ():
        return ["0d"]
    ks = ["strided", "slice", "rev", "T"]
    if R.thorough:
        return ks
    return [ks[h(tag) % len(ks)]]


def spec(dt, kind, vals, unit, cls="arr", name=None):
    d = {"dt": dt, "kind": kind, "vals": vals, "unit": unit, "cls": cls}
    if name:
        d["name"] = name
    return d


def note_exc(st, exc):
    stats[st] = stats.get(st, 0) + 1
    if st in ("exc", "base") and exc is not None:
        t = type(exc)
        exc_types[t.__module__ + "." + t.__name__] = t


def record(keyed, what, mk_replay):
    for key, operand, aspect in keyed:
        if key in seen:
            continue
        seen.add(key)
        R.fail(key, "%s -- operand %s: %s" % (what, operand, aspect), replay_script(mk_replay(operand, aspect)))


def first_dt(specs):
    return next((s["dt"] for s in specs.values() if "dt" in s), "float64")


def nonmut(fam, opid, specs, code, pre="", allow_expr=(), kindname=None):
    try:
        st, exc, found = L.E_nonmut(specs, code, pre=pre, allow_expr=allow_expr)
    except Exception as e:  # noqa  driver problem
        driver_errors.append("%s:%s %r" % (fam, opstr(opid), e))
        return None
    note_exc(st, exc)
    if st == "skip":
        return st
    if kindname is None:
        kindname = kname(first_dt(specs))
    R.case("C18[%s:%s:%s]" % (fam, opstr(opid), kindname), nontrivial=True,
           sample={"code": code, "specs": {k: (v.get("dt"), v.get("kind"), v.get("unit")) for k, v in specs.items()}}
           if R.evaluations % 9973 == 0 else None)
    if found:
        record(classify(fam, opid, kindname, st, exc, found, ()),
               "%s%s with %s -> %s" % (pre + "; " if pre else "", code, _brief(specs), _st(st, exc)),
               lambda o, a: L.replay_nonmut(specs, code, pre, allow_expr, o, a))
    return st


NUMPY_EXPLAINS = ("target-rounding", "target-values", "target-shape")


def stripped(specs):
    out = {}
    for k, v in specs.items():
        v = dict(v)
        if v.get("cls", "arr") in ("arr", "qty", "arr0"):
            v["cls"] = "bare"
        out[k] = v
    return out


def inplace(fam, opid, specs, code, targets, copy_code, pre="", copy_pre=None, copy_specs=None, kindname=None):
    try:
        st, exc, found = L.E_inplace(specs, code, targets, copy_code, pre=pre, copy_pre=copy_pre, copy_specs=copy_specs)
    except Exception as e:  # noqa  driver problem
        driver_errors.append("%s:%s %r" % (fam, opstr(opid), e))
        return None
    note_exc(st, exc)
    if st == "skip":
        return st
    if kindname is None:
        kindname = kname(first_dt(specs))
    R.case("C18[%s:%s:%s]" % (fam, opstr(opid), kindname), nontrivial=True)
    if found and fam.startswith(("ufunc", "augmented")) and any(a in NUMPY_EXPLAINS for _, a in found):
        # NumPy's own loops round differently for different memory layouts (SIMD vs strided) and gufuncs
        # with an output that overlaps an input are undefined: when the same pair of statements on the
        # stripped (unit-less) views disagrees in the same way, the difference is NumPy's, not unyt's
        try:
            _, _, f2 = L.E_inplace(stripped(specs), code, [(t, r, None) for t, r, _ in targets], copy_code,
                                   pre=pre.replace("unyt.unyt_array(", "np.asarray(").replace(", 'cd')", ")").replace(", 's')", ")"),
                                   copy_pre=copy_pre)
            same = [(o, a) for o, a in found if a in NUMPY_EXPLAINS and (o, a) in f2]
            if same:
                found = [x for x in found if x not in same]
                stats["explained-by-numpy"] = stats.get("explained-by-numpy", 0) + 1
        except Exception:  # noqa
            pass
    if found:
        int_targets = [t[0] for t in targets]
        record(classify(fam, opid, kindname, st, exc, found, int_targets),
               "%s%s with %s -> %s" % (pre + "; " if pre else "", code, _brief(specs), _st(st, exc)),
               lambda o, a: L.replay_inplace(specs, code, targets, copy_code, pre, copy_pre, copy_specs, o, a))
    return st


def _brief(specs):
    return ", ".join("%s=%s/%s/%s%s" % (k, v.get("dt", "-"), v.get("kind", "-"), v.get("unit"),
                                        "" if v.get("cls", "arr") == "arr" else "/" + v["cls"]) for k, v in specs.items())


def _st(st, exc):
    return "ok" if st == "ok" else "raised %s: %s" % (type(exc).__name__, str(exc)[:100])


def shapes_for(tag):
    """1-d, 2-d and 0-d shapes; quick rotates, thorough takes all"""
    sh = [(5,), (2, 3), ()]
    if R.thorough:
        return sh
    return [sh[h(tag, "shape") % 3], ()] if h(tag, "z") % 3 == 0 else [sh[h(tag, "shape") % 2]]


def operand(tag, dt, unit, shape=None, positive=False, cls="arr", name=None):
    """all (spec) variants of one operand for this tier"""
    out = []
    for shp in ([shape] if shape is not None else shapes_for(tag)):
        for k in kinds_for((tag, dt, shp), shp):
            rng = rng_for(tag, dt, shp, k)
            out.append(spec(dt, k, L.draw_values(rng, dt, shp, positive=positive), unit, cls=cls, name=name))
    return out


# ============================================================================ A1/B1 conversions
CONV = [
    # unit, valid targets, positive data
    ("cm", ["m", "km", "inch", "cm", "AU"], False),
    ("degC", ["K", "degF", "R", "degC", "mdegC"], False),
    ("K", ["degC", "mK", "degF", "K"], True),
    ("mdegC", ["degF", "K"], False),
    ("statC", ["C", "esu"], False),
    ("C", ["statC", "mC"], False),
    ("G", ["T", "mT"], False),
    ("T", ["G", "gauss"], False),
    ("lat", ["degree", "rad", "lon"], False),
    ("erg", ["J", "eV"], False),
    ("g/cm**3", ["kg/m**3", "Msun/pc**3"], True),
    ("dimensionless", ["percent", "dimensionless"], False),
    ("km/s", ["m/s", "c"], True),
    ("V/m", ["statV/cm"], False),
]
FAULT_UNITS = [("dim-mismatch", "s"), ("unknown-unit", "flurb"), ("dim-mismatch-compound", "g*cm"),
               ("bad-power", "cm**(2*s)"), ("empty-unit", "")]
EQUIV = [
    ("K", "keV", "thermal", ""), ("keV", "K", "thermal", ""), ("cm", "Hz", "spectral", ""), ("Hz", "eV", "spectral", ""),
    ("eV", "angstrom", "spectral", ""), ("cm", "1/cm", "spectral", ""), ("g", "J", "mass_energy", ""),
    ("erg", "g", "mass_energy", ""), ("km/s", "dimensionless", "lorentz", ""), ("dimensionless", "km/s", "lorentz", ""),
    ("K", "km/s", "sound_speed", ""), ("km/s", "K", "sound_speed", ", mu=0.7, gamma=1.4"), ("km/s", "keV", "sound_speed", ""),
    ("keV", "km/s", "sound_speed", ""), ("g/cm**3", "cm**-3", "number_density", ", mu=1.2"),
    ("cm**-3", "g/cm**3", "number_density", ""), ("Msun", "km", "schwarzschild", ""), ("km", "Msun", "schwarzschild", ""),
    ("g", "cm", "compton", ""), ("fm", "me", "compton", ""), ("K", "W/m**2", "effective_temperature", ""),
    ("W/m**2", "K", "effective_temperature", ""), ("degC", "keV", "thermal", ""), ("R", "erg", "thermal", ""),
]
EQUIV_FAULTS = [
    ("invalid-equivalence", "K", "s", "thermal", ""), ("unknown-equivalence", "K", "keV", "nonesuch", ""),
    ("equivalence-wrong-source", "s", "keV", "thermal", ""), ("equivalence-bad-kwarg", "K", "keV", "thermal", ", bogus=1"),
    ("equivalence-unknown-unit", "K", "flurb", "thermal", ""), ("equivalence-kwarg-units", "g/cm**3", "cm**-3", "number_density", ", mu='x'"),
]
IRREDUCIBLE = [("T*m", "cgs"), ("V/m", "cgs"), ("A*s", "cgs"), ("statC/cm", "galactic"), ("C/m**2", "cgs")]


def run_conversions():
    for unit, targets, positive in CONV:
        for dt in DTS:
            for a in operand(("conv", unit), dt, unit, positive=positive, name="nm"):
                S = {"a": a}
                for U in targets:
                    for m in ("to", "in_units", "to_value"):
                        nonmut("convert", "%s(%s->%s)" % (m, unit, U), S, "r = a.%s(%r)" % (m, U))
                    inplace("convert_to_units", "%s->%s" % (unit, U), S, "a.convert_to_units(%r)" % U,
                            [("a", "r", "copy")], "r = a.to(%r)" % U)
                    if R.thorough or U == targets[0]:
                        nonmut("convert", "to(Unit:%s->%s)" % (unit, U), S, "r = a.to(unyt.Unit(%r))" % U)
                        nonmut("convert", "to(qty-units:%s->%s)" % (unit, U), S, "r = a.to((1*unyt.Unit(%r)).units)" % U)
                for m in ("in_base()", "in_base('cgs')", "in_base('mks')", "in_base('galactic')", "in_base('imperial')",
                          "in_cgs()", "in_mks()", "to_value()", "copy()", "value", "v", "d", "ndview", "to_ndarray()",
                          "unit_quantity", "unit_array", "uq", "ua", "to_string()", "tolist()", "__repr__()", "__str__()",
                          "argsort()", "astype('float32')", "has_equivalent('thermal')", "units.get_base_equivalent()",
                          "__deepcopy__()", "__reduce__()", "__pos__()", "ndarray_view()", "__format__('')",
                          "view(np.ndarray)", "item()"):
                    nonmut("method", "%s(%s)" % (m, unit), S, "r = a.%s" % m)
                for m, cm in (("convert_to_base()", "in_base()"), ("convert_to_base('cgs')", "in_base('cgs')"),
                              ("convert_to_base('mks')", "in_base('mks')"), ("convert_to_base('galactic')", "in_base('galactic')"),
                              ("convert_to_base('imperial')", "in_base('imperial')"),
                              ("convert_to_cgs()", "in_cgs()"), ("convert_to_mks()", "in_mks()")):
                    inplace("convert_to_base", "%s:%s" % (m, unit), S, "a." + m, [("a", "r", "copy")], "r = a." + cm)
                # injected faults
                for fname, U in FAULT_UNITS:
                    for m in ("to", "in_units", "to_value"):
                        nonmut("convert-fault", "%s(%s->%s)" % (m, unit, fname), S, "r = a.%s(%r)" % (m, U))
                    inplace("convert_to_units-fault", "%s->%s" % (unit, fname), S, "a.convert_to_units(%r)" % U,
                            [("a", "r", "copy")], "r = a.to(%r)" % U)
                nonmut("convert-fault", "in_base(unknown-system:%s)" % unit, S, "r = a.in_base('nonesuch')")
                inplace("convert_to_base-fault", "unknown-system:%s" % unit, S, "a.convert_to_base('nonesuch')",
                        [("a", "r", "copy")], "r = a.in_base('nonesuch')")
    for unit, system in IRREDUCIBLE:
        for dt in DTS:
            for a in operand(("irr", unit), dt, unit):
                S = {"a": a}
                nonmut("convert-fault", "in_base(irreducible:%s:%s)" % (unit, system), S, "r = a.in_base(%r)" % system)
                inplace("convert_to_base-fault", "irreducible:%s:%s" % (unit, system), S, "a.convert_to_base(%r)" % system,
                        [("a", "r", "copy")], "r = a.in_base(%r)" % system)
                if system == "cgs":
                    inplace("convert_to_base-fault", "irreducible-cgs:%s" % unit, S, "a.convert_to_cgs()",
                            [("a", "r", "copy")], "r = a.in_cgs()")
    for src, dst, eq, kw in EQUIV:
        for dt in DTS:
            for a in operand(("equiv", src, dst), dt, src, positive=True, name="nm"):
                S = {"a": a}
                tag = "%s:%s->%s" % (eq, src, dst)
                nonmut("equivalence", "to_equivalent(%s)" % tag, S, "r = a.to_equivalent(%r, %r%s)" % (dst, eq, kw))
                nonmut("equivalence", "to(%s)" % tag, S, "r = a.to(%r, %r%s)" % (dst, eq, kw))
                nonmut("equivalence", "in_units(%s)" % tag, S, "r = a.in_units(%r, equivalence=%r%s)" % (dst, eq, kw))
                nonmut("equivalence", "to_value(%s)" % tag, S, "r = a.to_value(%r, equivalence=%r%s)" % (dst, eq, kw))
                inplace("convert_to_equivalent", tag, S, "a.convert_to_equivalent(%r, %r%s)" % (dst, eq, kw),
                        [("a", "r", "copy")], "r = a.to_equivalent(%r, %r%s)" % (dst, eq, kw))
                inplace("convert_to_units-equivalence", tag, S, "a.convert_to_units(%r, equivalence=%r%s)" % (dst, eq, kw),
                        [("a", "r", "copy")], "r = a.to(%r, equivalence=%r%s)" % (dst, eq, kw))
    for fname, src, dst, eq, kw in EQUIV_FAULTS:
        for dt in DTS:
            for a in operand(("equivf", src, dst), dt, src, positive=True):
                S = {"a": a}
                nonmut("equivalence-fault", "to_equivalent(%s)" % fname, S, "r = a.to_equivalent(%r, %r%s)" % (dst, eq, kw))
                inplace("convert_to_equivalent-fault", fname, S, "a.convert_to_equivalent(%r, %r%s)" % (dst, eq, kw),
                        [("a", "r", "copy")], "r = a.to_equivalent(%r, %r%s)" % (dst, eq, kw))
                inplace("convert_to_units-equivalence-fault", fname, S, "a.convert_to_units(%r, equivalence=%r%s)" % (dst, eq, kw),
                        [("a", "r", "copy")], "r = a.to(%r, equivalence=%r%s)" % (dst, eq, kw))
                if "base" not in fname:
                    inplace("convert_to_base-equivalence-fault", fname, S, "a.convert_to_base('cgs', equivalence=%r%s)" % (eq, kw),
                            [("a", "r", "copy")], "r = a.to(a.units.get_base_equivalent('cgs'), equivalence=%r%s)" % (eq, kw))


# ============================================================================ operand classes of binary operations
# (id, unit of a, unit/class of b, is-fault)
PAIRS = [
    ("same", "cm", ("arr", "cm")),
    ("commensurable", "cm", ("arr", "m")),
    ("commensurable-qty", "m", ("qty", "km")),
    ("dim-mismatch", "cm", ("arr", "s")),
    ("dim-mismatch-qty", "cm", ("qty", "g")),
    ("bare-array", "cm", ("bare", None)),
    ("bare-scalar", "cm", ("py", None)),
    ("dimensionless-qty", "cm", ("arr", "dimensionless")),
    ("a-dimensionless", "dimensionless", ("arr", "cm")),
    ("both-dimensionless", "dimensionless", ("arr", "dimensionless")),
    ("a-bare", None, ("arr", "cm")),
    ("offset-same", "degC", ("arr", "degC")),
    ("offset-mixed", "degC", ("arr", "degF")),
    ("offset-kelvin", "K", ("arr", "degC")),
    ("offset-delta", "degC", ("arr", "delta_degC")),
    ("offset-scalar", "degF", ("py", None)),
    ("angle", "degree", ("arr", "rad")),
    ("compound", "g/cm**3", ("arr", "kg/m**3")),
    ("unit-object", "cm", ("unit", "s")),
]


def pair_specs(pid, ua, bdesc, dt, tag, positive=False, bdt=None):
    """list of spec dicts {a, b}"""
    out = []
    bcls, ub = bdesc
    for shp in shapes_for((tag, pid)):
        for k in kinds_for((tag, pid, dt, shp), shp):
            rng = rng_for(tag, pid, dt, shp, k)
            va = L.draw_values(rng, dt, shp, positive=positive)
            if ua is None:
                a = spec(dt, k, va, None, cls="bare")
            else:
                a = spec(dt, k, va, ua)
            bd = bdt or dt
            if bcls == "py":
                b = {"cls": "py", "vals": 2 if np.dtype(dt).kind in "iu" else 2.5}
            elif bcls == "unit":
                b = {"cls": "unit", "unit": ub}
            elif bcls == "qty":
                b = spec(bd, "0d", L.draw_values(rng, bd, (), positive=positive), ub, cls="qty")
            else:
                kb = "own" if shp == () else ["slice", "strided", "rev", "T"][(h(tag, pid, dt, shp, "b")) % 4]
                b = spec(bd, kb if shp != () else "0d", L.draw_values(rng, bd, shp, positive=positive), ub,
                         cls="bare" if bcls == "bare" else "arr")
            out.append({"a": a, "b": b})
    return out


OPERATORS = [("add", "+"), ("sub", "-"), ("mul", "*"), ("truediv", "/"), ("floordiv", "//"), ("mod", "%"), ("pow", "**"),
             ("lt", "<"), ("le", "<="), ("gt", ">"), ("ge", ">="), ("eq", "=="), ("ne", "!="), ("and", "&"), ("matmul", "@")]
AUG = [("iadd", "+=", "+"), ("isub", "-=", "-"), ("imul", "*=", "*"), ("itruediv", "/=", "/"), ("ifloordiv", "//=", "//"),
       ("ipow", "**=", "**"), ("imod", "%=", "%"), ("iand", "&=", "&"), ("ilshift", "<<=", "<<")]


def run_operators():
    for pid, ua, bdesc in PAIRS:
        for dt in DTS:
            for S in pair_specs(pid, ua, bdesc, dt, "oper", positive=True):
                for name, sym in OPERATORS:
                    nonmut("operator", "%s:%s" % (name, pid), S, "r = a %s b" % sym)
                    nonmut("operator", "r%s:%s" % (name, pid), S, "r = b %s a" % sym)
                nonmut("operator", "divmod:%s" % pid, S, "r = divmod(a, b)")
                nonmut("operator", "pow-scalar:%s" % pid, S, "r = a ** 2; r2 = a ** 0; r3 = a ** 0.5; r4 = a ** -1")
                nonmut("operator", "unary:%s" % pid, S, "r = (-a, +a, abs(a))")
                nonmut("operator", "pow-qty-exponent:%s" % pid, S, "r = 2.0 ** b; r2 = a ** b")
                for name, sym, csym in AUG:
                    if ua is None:
                        continue
                    inplace("augmented", (name, pid), S, "a %s b" % sym, [("a", "r", "copy")], "r = a %s b" % csym)
                    # b as the target, a the other operand
                    if S["b"].get("cls", "arr") in ("arr",):
                        inplace("augmented", (name, pid, "swapped"), S, "b %s a" % sym, [("b", "r", "copy")], "r = b %s a" % csym)
                inplace("augmented", ("ipow-scalar", pid), S, "a **= 2", [("a", "r", "copy")], "r = a ** 2")
                inplace("augmented", ("ipow-half", pid), S, "a **= 0.5", [("a", "r", "copy")], "r = a ** 0.5")
                inplace("augmented", ("imul-scalar", pid), S, "a *= 3", [("a", "r", "copy")], "r = a * 3")
                inplace("augmented", ("imul-unit", pid), S, "a *= unyt.s", [("a", "r", "copy")], "r = a * unyt.s")
                inplace("augmented", ("idiv-self", pid), S, "a /= a", [("a", "r", "copy")], "r = a / a")
                inplace("augmented", ("iadd-self", pid), S, "a += a", [("a", "r", "copy")], "r = a + a")


# ============================================================================ ufuncs
UNARY_UNITS = [("cm", False), ("dimensionless", True), ("degC", False), ("degree", True), ("K", True)]


def ufname(uf):
    return uf.__name__


def run_unary_ufuncs():
    for uf in UA.unary_operators:
        n = ufname(uf)
        for unit, positive in UNARY_UNITS:
            for dt in DTS:
                scale_small = n in ("arcsin", "arccos", "arctanh")
                for a in operand(("unary", n, unit), dt, unit, positive=positive):
                    if scale_small and np.dtype(dt).kind in "fc":
                        a = dict(a)
                        a["vals"] = (np.array(a["vals"]) / 8).tolist()
                    S = {"a": a}
                    opid = (n, unit)
                    nonmut("ufunc", opid, S, "r = np.%s(a)" % n)
                    nout = getattr(uf, "nout", 1)
                    if nout == 1:
                        inplace("ufunc-out", opid + ("out=a",), S, "np.%s(a, out=a)" % n, [("a", "r", "copy")], "r = np.%s(a)" % n)
                        inplace("ufunc-out", opid + ("out=view-of-a",), S, "np.%s(a, out=o)" % n, [("o", "r", "copy")],
                                "r = np.%s(a)" % n, pre="o = a[...]", copy_pre="")
                        inplace("ufunc-out", opid + ("out=fresh",), S, "np.%s(a, out=o)" % n, [("o", "r", "copy")], "r = np.%s(a)" % n,
                                pre="o = unyt.unyt_array(np.full(a.shape, 7, dtype=a.dtype), 'cd')", copy_pre="")
                        inplace("ufunc-out", opid + ("out=tuple-a",), S, "np.%s(a, out=(a,))" % n, [("a", "r", "copy")], "r = np.%s(a)" % n)
                        if R.thorough or h(n, unit, dt) % 3 == 0:
                            inplace("ufunc-out", opid + ("out=bare",), S, "np.%s(a, out=o)" % n, [("o", "r", None)], "r = np.%s(a)" % n,
                                    pre="o = np.full(a.shape, 7, dtype=a.dtype)", copy_pre="")
                            inplace("ufunc-out", opid + ("out=float64",), S, "np.%s(a, out=o)" % n, [("o", "r", "copy")], "r = np.%s(a)" % n,
                                    pre="o = unyt.unyt_array(np.full(a.shape, 7, dtype='float64'), 's')", copy_pre="")
                            inplace("ufunc-out", opid + ("where",), S, "np.%s(a, out=a, where=m)" % n, [("a", "r", "copy")],
                                    "r = np.%s(a, out=a.copy(), where=m)" % n, pre="m = (np.arange(a.size).reshape(a.shape) % 2 == 0)")
                    else:
                        inplace("ufunc-out", opid + ("out=(a,fresh)",), S, "np.%s(a, out=(a, o))" % n, [("a", "r[0]", "copy"), ("o", "r[1]", "copy")],
                                "r = np.%s(a)" % n, pre="o = unyt.unyt_array(np.full(a.shape, 7, dtype=a.dtype), 'cd')", copy_pre="")
                        inplace("ufunc-out", opid + ("out=(fresh,a)",), S, "np.%s(a, out=(o, a))" % n, [("o", "r[0]", "copy"), ("a", "r[1]", "copy")],
                                "r = np.%s(a)" % n, pre="o = unyt.unyt_array(np.full(a.shape, 7, dtype=a.dtype), 'cd')", copy_pre="")
                        inplace("ufunc-out", opid + ("out=(None,a)",), S, "np.%s(a, out=(None, a))" % n, [("a", "r[1]", "copy")], "r = np.%s(a)" % n)


BIN_PAIRS = ["same", "commensurable", "commensurable-qty", "dim-mismatch", "bare-array", "bare-scalar", "dimensionless-qty",
             "a-dimensionless", "both-dimensionless", "a-bare", "offset-same", "offset-mixed", "offset-kelvin", "offset-delta",
             "angle", "compound"]


def run_binary_ufuncs():
    pairs = {p[0]: p for p in PAIRS}
    ufs = list(UA.binary_operators) + [np.floor_divide, np.matmul]
    for uf in ufs:
        n = ufname(uf)
        for pid in BIN_PAIRS:
            _, ua, bdesc = pairs[pid]
            for dt in DTS:
                if not R.thorough and h(n, pid, dt, "sub") % 2 and pid not in ("same", "commensurable", "dim-mismatch", "offset-mixed"):
                    continue
                for S in pair_specs(pid, ua, bdesc, dt, ("bin", n), positive=True):
                    opid = (n, pid)
                    call = "np.%s(a, b)" % n
                    nonmut("ufunc", opid, S, "r = " + call)
                    nonmut("ufunc", opid + ("swapped",), S, "r = np.%s(b, a)" % n)
                    if uf.nout == 1 and uf.signature is None:
                        nonmut("ufunc-method", opid + ("outer",), S, "r = np.%s.outer(a, b)" % n)
                        if pid == "same":
                            nonmut("ufunc-method", (n, "reduce", ""), S, "r = np.%s.reduce(a)" % n)
                            nonmut("ufunc-method", (n, "reduce-axis-last", ""), S, "r = np.%s.reduce(a, axis=-1, keepdims=True)" % n)
                            nonmut("ufunc-method", (n, "accumulate", ""), S, "r = np.%s.accumulate(a)" % n)
                            nonmut("ufunc-method", (n, "reduceat", ""), S, "r = np.%s.reduceat(a, [0, 1])" % n)
                            nonmut("ufunc-method", (n, "reduce-initial-qty", ""), S, "r = np.%s.reduce(a, initial=b.ravel()[0])" % n)
                            inplace("ufunc-method-out", (n, "accumulate", "out=a"), S, "np.%s.accumulate(a, out=a)" % n,
                                    [("a", "r", "copy")], "r = np.%s.accumulate(a)" % n)
                            inplace("ufunc-method-out", (n, "reduce", "out=fresh"), S, "np.%s.reduce(a, out=o)" % n,
                                    [("o", "r", "copy")], "r = np.%s.reduce(a)" % n,
                                    pre="o = unyt.unyt_array(np.zeros_like(np.%s.reduce(np.array(a.d))), 'cd')" % n, copy_pre="")
                            inplace("ufunc-method-out", (n, "reduce", "out=part-of-a"), S, "np.%s.reduce(a, axis=0, out=o)" % n,
                                    [("o", "r", "copy")], "r = np.%s.reduce(a, axis=0)" % n, pre="o = a[0]", copy_pre="")
                            inplace("ufunc-method-out", (n, "at", ""), S, "np.%s.at(a, [0], b.ravel()[0])" % n,
                                    [("a", "r", "copy")], "r = a.copy(); r[0:1] = np.%s(a[0:1], b.ravel()[0])" % n)
                    if uf.nout == 1:
                        if ua is not None:
                            inplace("ufunc-out", opid + ("out=a",), S, "np.%s(a, b, out=a)" % n, [("a", "r", "copy")], "r = " + call)
                            inplace("ufunc-out", opid + ("out=view-of-a",), S, "np.%s(a, b, out=o)" % n, [("o", "r", "copy")], "r = " + call,
                                    pre="o = a[...]", copy_pre="")
                        if S["b"].get("cls", "arr") == "arr" and S["b"]["kind"] != "0d":
                            inplace("ufunc-out", opid + ("out=b",), S, "np.%s(a, b, out=b)" % n, [("b", "r", "copy")], "r = " + call)
                        inplace("ufunc-out", opid + ("out=fresh",), S, "np.%s(a, b, out=o)" % n, [("o", "r", "copy")], "r = " + call,
                                pre="o = unyt.unyt_array(np.full(np.broadcast(np.asarray(a), np.asarray(b)).shape, 7, dtype=np.asarray(a).dtype), 'cd')",
                                copy_pre="")
                        if R.thorough or h(n, pid, dt, "x") % 3 == 0:
                            inplace("ufunc-out", opid + ("out=fresh-int",), S, "np.%s(a, b, out=o)" % n, [("o", "r", "copy")], "r = " + call,
                                    pre="o = unyt.unyt_array(np.full(np.broadcast(np.asarray(a), np.asarray(b)).shape, 7, dtype='int32'), 'cd')",
                                    copy_pre="", kindname="flt-narrow")
                            inplace("ufunc-out", opid + ("out=wrong-shape-int",), S, "np.%s(a, b, out=o)" % n, [("o", "r", "copy")], "r = " + call,
                                    pre="o = unyt.unyt_array(np.full((7, 3), 7, dtype='int64'), 'cd')", copy_pre="")
                            inplace("ufunc-out", opid + ("out=bare",), S, "np.%s(a, b, out=o)" % n, [("o", "r", None)], "r = " + call,
                                    pre="o = np.full(np.broadcast(np.asarray(a), np.asarray(b)).shape, 7, dtype=np.asarray(a).dtype)", copy_pre="")
                            inplace("ufunc-out", opid + ("swapped:out=a",), S, "np.%s(b, a, out=a)" % n, [("a", "r", "copy")], "r = np.%s(b, a)" % n)
                    elif uf.nout == 2:
                        if ua is not None:
                            inplace("ufunc-out", opid + ("out=(a,fresh)",), S, "np.%s(a, b, out=(a, o))" % n,
                                    [("a", "r[0]", "copy"), ("o", "r[1]", "copy")], "r = " + call,
                                    pre="o = unyt.unyt_array(np.full(np.broadcast(np.asarray(a), np.asarray(b)).shape, 7, dtype=np.asarray(a).dtype), 'cd')",
                                    copy_pre="")
                            inplace("ufunc-out", opid + ("out=(fresh,a)",), S, "np.%s(a, b, out=(o, a))" % n,
                                    [("o", "r[0]", "copy"), ("a", "r[1]", "copy")], "r = " + call,
                                    pre="o = unyt.unyt_array(np.full(np.broadcast(np.asarray(a), np.asarray(b)).shape, 7, dtype=np.asarray(a).dtype), 'cd')",
                                    copy_pre="")
    # clip (three inputs)
    for dt in DTS:
        for lo_u, hi_u, tag in (("cm", "cm", "same"), ("m", "m", "commensurable"), ("s", "cm", "dim-mismatch-lo"), ("cm", "g", "dim-mismatch-hi")):
            for a in operand(("clip", tag), dt, "cm", positive=True):
                rng = rng_for("clip", tag, dt)
                S = {"a": a, "lo": spec(dt, "0d", L.draw_values(rng, dt, (), positive=True), lo_u, cls="qty"),
                     "hi": spec(dt, "0d", L.draw_values(rng, dt, (), positive=True), hi_u, cls="qty")}
                nonmut("ufunc", ("clip", tag), S, "r = np.clip(a, lo, hi)")
                nonmut("method", ("clip", tag), S, "r = a.clip(lo, hi)")
                inplace("ufunc-out", ("clip", tag, "out=a"), S, "np.clip(a, lo, hi, out=a)", [("a", "r", "copy")], "r = np.clip(a, lo, hi)")
                inplace("ufunc-out", ("clip-method", tag, "out=a"), S, "a.clip(lo, hi, out=a)", [("a", "r", "copy")], "r = a.clip(lo, hi)")
                inplace("ufunc-out", ("clip", tag, "out=fresh"), S, "np.clip(a, lo, hi, out=o)", [("o", "r", "copy")], "r = np.clip(a, lo, hi)",
                        pre="o = unyt.unyt_array(np.full(a.shape, 7, dtype=a.dtype), 'cd')", copy_pre="")


# ============================================================================ item assignment
SETITEM_VALUES = [("same", "cm", "arr"), ("commensurable", "m", "arr"), ("commensurable-km", "km", "arr"), ("dim-mismatch", "s", "arr"),
                  ("dimensionless-qty", "dimensionless", "arr"), ("bare", None, "bare"), ("py-scalar", None, "py")]
INDEXES = [("int", "0", ()), ("neg", "-1", ()), ("slice", "slice(0, 2)", (2,)), ("fancy", "[0, 1]", (2,)), ("ellipsis", "Ellipsis", None),
           ("mask", "m", "mask")]


def run_setitem():
    for vid, ub, bcls in SETITEM_VALUES:
        for ua in ("cm", "degC") if vid in ("same", "dim-mismatch", "py-scalar") else ("cm",):
            for dt in DTS:
                for a in operand(("setitem", vid, ua), dt, ua, shape=(5,)) + operand(("setitem2", vid, ua), dt, ua, shape=(2, 3)):
                    for iname, iexpr, vshape in INDEXES:
                        rng = rng_for("setitem", vid, dt, iname)
                        ash = np.array(a["vals"]).shape
                        if vshape is None:
                            vs = ash
                        elif vshape == "mask":
                            vs = ()
                        elif vshape == ():
                            vs = ash[1:]
                        else:
                            vs = vshape + ash[1:]
                        ubb = ub if not (ua == "degC" and vid == "same") else "degC"
                        if bcls == "py":
                            b = {"cls": "py", "vals": 2 if np.dtype(dt).kind in "iu" else 2.5}
                        else:
                            b = spec(dt, "0d" if vs == () else ["strided", "slice", "rev"][h(vid, dt, iname) % 3],
                                     L.draw_values(rng, dt, vs, positive=True), ubb, cls=bcls)
                        S = {"a": a, "b": b}
                        pre = "m = (np.arange(a.size).reshape(a.shape) % 2 == 0)" if iexpr == "m" else ""
                        conv = ("np.asarray(b.to(a.units).d) if (hasattr(b, 'units') and b.units != a.units and "
                                "not b.units.is_dimensionless) else np.asarray(b)")
                        inplace("setitem", "%s:%s:%s" % (ua, vid, iname), S, "a[%s] = b" % iexpr, [("a", "r", "copy")],
                                "x = np.array(a.d); x[%s] = %s; r = unyt.unyt_array(x, a.units)" % (iexpr, conv), pre=pre)


# ============================================================================ Unit arithmetic
UNITS = ["cm", "m", "s", "g", "degC", "K", "dimensionless", "cm**2/s", "rad", "m**2/cm", "g*cm/s**2", "statC", "T", "dB",
         "km/s/Mpc", "erg/K", "1/s", "sqrt(g)*cm**(3/2)/s", "lat", "percent", "N*m", "mdegC", "delta_degF", "100*m", "2.54*cm/s", "1000*g/cm**3"]
UNIT_OPS1 = ["u**2", "u**0.5", "u**-1", "u**1", "u**0", "u*3.0", "3.0*u", "u/3.0", "3.0/u", "u.get_base_equivalent()",
             "u.get_base_equivalent('cgs')", "u.get_base_equivalent('galactic')", "u.get_cgs_equivalent()", "u.get_mks_equivalent()",
             "u.as_coeff_unit()", "u.copy()", "u.copy(deep=True)", "__import__('copy').deepcopy(u)", "__import__('copy').copy(u)",
             "__import__('pickle').loads(__import__('pickle').dumps(u))", "str(u)", "repr(u)", "hash(u)", "u.latex_representation()",
             "u.latex_repr", "u.is_dimensionless", "u.is_code_unit", "u.is_atomic", "u.units", "u.has_equivalent('thermal')",
             "u.list_equivalencies()", "np.sqrt(u)", "abs(u)", "u.in_units if hasattr(u, 'in_units') else None",
             "[1, 2, 3]*u", "(1, 2.5)*u", "u*[1, 2, 3]", "2*u*u/u", "unyt.unyt_quantity(2.0, u)", "unyt.unyt_array([1.0, 2.0], u)",
             "unyt.Unit(u)", "unyt.Unit(str(u))", "u.get_base_equivalent('nonesuch')", "u**unyt.cm", "u**'x'", "u*'flurb'",
             "u == 'cm'", "u.same_dimensions_as(u)", "u.get_conversion_factor(u)", "u.base_value", "u.dimensions", "u.expr",
             "(u*u).simplify()", "(u/u).simplify()"]
UNIT_OPS2 = ["u*v", "u/v", "v/u", "u == v", "u != v", "u.same_dimensions_as(v)", "u.get_conversion_factor(v)",
             "u.get_conversion_factor(v, np.dtype('float32'))", "(u*v).simplify()", "(u/v).simplify().as_coeff_unit()",
             "u*v*u/v", "unyt.array._multiply_units(u, v)", "unyt.array._divide_units(u, v)", "unyt.array._preserve_units(u, v)",
             "unyt.array._difference_units(u, v)"]


def run_units():
    for us in UNITS:
        S = {"u": {"cls": "unit", "unit": us}}
        for op in UNIT_OPS1:
            nonmut("unit", "%s(%s)" % (op, us), S, "r = " + op, kindname="unit")
        nonmut("unit", "simplify(%s)" % us, S, "r = u.simplify()", allow_expr=("u",), kindname="unit")
        # the units of an array: operations on the array must not rewrite the unit object it shares
        for dt in ("float64", "int64") if not R.thorough else DTS:
            for a in operand(("unit-arr", us), dt, us, shape=(5,), positive=True):
                S2 = {"a": a, "u": {"cls": "unit", "unit": us}}
                for op in ("a*u", "u*a", "a/u", "u/a", "np.asarray(a)*u", "a.d*u", "a.d/u", "u*a.d", "u/a.d", "a.tolist()*u", "a.units*u",
                           "a.units.simplify()", "a.units.as_coeff_unit()", "a.units.get_base_equivalent()", "unyt.unyt_array(a, u)",
                           "unyt.unyt_array(a)", "unyt.unyt_array(a.d, a.units)", "unyt.unyt_array(a, 'flurb')",
                           "unyt.unyt_array(a.d, u, dtype='float64')", "unyt.unyt_quantity(a[0], u)", "unyt.unyt_array([a[0], a[1]])",
                           "unyt.unyt_array([a[0], a[1].to(a.units.get_base_equivalent())]) if not a.units.base_offset else None"):
                    nonmut("unit-array", "%s(%s)" % (op, us), S2, "r = " + op, allow_expr=("u", "a") if "simplify" in op else ())
        for vs in UNITS:
            if not R.thorough and h(us, vs) % 4:
                continue
            S = {"u": {"cls": "unit", "unit": us}, "v": {"cls": "unit", "unit": vs}}
            for op in UNIT_OPS2:
                nonmut("unit", "%s(%s,%s)" % (op, us, vs), S, "r = " + op, kindname="unit")


# ============================================================================ C06 array-function catalogue on view operands
def run_catalogue():
    import lib_c06_catalogue as cat
    from lib_c06_harness import SYSTEMS, make_slotdefs
    plain = SYSTEMS["plain"]
    out_re = cat._OUT_RE
    nfun = set()
    for c in cat.CASES:
        rng = random.Random("%d|%s|%s|%s" % (SEED, c.fname, c.tid, c.variant))
        try:
            sd = make_slotdefs(c, rng)
        except Exception as e:  # noqa
            driver_errors.append("catalogue %s:%s %r" % (c.fname, c.tid, e))
            continue
        bare, specs = {}, {}
        for name, (dim, dt, shape, flat) in sd.items():
            if dt.startswith("complex"):
                flat = [complex(*z) for z in flat]
            if dt == "bool":
                flat = [bool(z) for z in flat]
            vals = np.array(flat, dtype=object).reshape(shape).tolist() if len(flat) else np.zeros(shape).tolist()
            ks = ["0d"] if tuple(shape) == () else (["slice"] if name == "O" or 0 in shape else ["strided", "T", "rev", "slice"])
            k = ks[h(c.fname, c.tid, name, "k") % len(ks)]
            bare[name] = spec(dt, "own", vals, None, cls="bare")
            if dim == "-":
                specs[name] = spec(dt, k, vals, None, cls="bare")
            else:
                specs[name] = spec(dt, k, vals, plain[dim], cls="arr0" if tuple(shape) == () and False else "arr")
        code = "r = " + c.expr
        # which slots does NumPy itself write to on the stripped data?
        try:
            st0, exc0, mutated = L.E_nonmut(bare, code)
        except Exception as e:  # noqa
            driver_errors.append("catalogue %s:%s %r" % (c.fname, c.tid, e))
            continue
        if st0 != "ok":
            stats["skip"] += 1
            continue
        nfun.add(c.fname)
        written = sorted({n for n, _ in mutated} | ({"O"} if "O" in specs else set()))
        if "overwrite_input=True" in c.expr:
            written = sorted(set(written) | {"A"})
        opid = "%s:%s" % (c.fname, c.tid)
        kn = kname(next(iter(sd.values()))[1])
        if not written:
            nonmut("array-function", opid, specs, code, kindname=kn)
        elif "O" in written:
            tg = [("O", "r", "copy" if specs["O"].get("cls") != "bare" else None)] + [(w, None, None) for w in written if w != "O"]
            inplace("array-function-out", opid, specs, code, tg, "r = " + out_re.sub("", c.expr), kindname=kn)
        else:
            inplace("array-function-inplace", opid, specs, code,
                    [(w, w if "overwrite_input=True" not in c.expr else None, "keep") for w in written], code,
                    copy_specs=bare, kindname=kn)
    R.notes.append("array-function catalogue: %d templates of %d functions evaluated on view operands" % (len(cat.CASES), len(nfun)))


# ============================================================================ handlers with operands in DIFFERENT commensurable units
MIXED_NONMUT = [
    "np.concatenate((a, b))", "np.append(a, b)", "np.hstack((a, b))", "np.vstack((a, b))", "np.stack((a, b))", "np.column_stack((a, b))",
    "np.where(a > b, a, b)", "np.isclose(a, b)", "np.allclose(a, b)", "np.array_equal(a, b)", "np.array_equiv(a, b)", "np.searchsorted(np.sort(a), b)",
    "np.histogram(a, bins=np.sort(b))", "np.histogram2d(a, b)", "np.interp(a, np.sort(b), b)", "np.clip(a, b.min(), b.max())", "np.linspace(a[0], b[0], 4)",
    "np.logspace(a[0], b[0], 3)", "np.geomspace(a[0], b[0], 3)", "np.cross(a[:3], b[:3])", "np.dot(a, b)", "np.vdot(a, b)", "np.inner(a, b)", "np.outer(a, b)",
    "np.kron(a, b)", "np.union1d(a, b)", "np.intersect1d(a, b)", "np.setdiff1d(a, b)", "np.setxor1d(a, b)", "np.isin(a, b)", "np.insert(a, 1, b[0])",
    "np.select([a > b], [a], b[0])", "np.choose([0, 1, 0, 1, 0], (a, b))", "np.block([a, b])", "np.tensordot(a, b, 0)", "np.einsum('i,i', a, b)",
    "np.convolve(a, b)", "np.correlate(a, b)", "np.digitize(a, np.sort(b))", "np.trapezoid(a, b)" if hasattr(np, "trapezoid") else "np.trapz(a, b)",
    "np.fmax(a, b)", "np.ediff1d(a, to_end=b[0])", "np.diff(a, prepend=b[0])", "np.pad(a, 1, constant_values=b[0])", "np.full(3, b[0]) + a[0]",
    "np.full_like(a, b[0])", "np.meshgrid(a, b)", "np.broadcast_arrays(a, b)", "np.linalg.lstsq(np.outer(a, a) + np.eye(5) * a[0], b, rcond=None)",
    "np.polyfit(a, b, 1)", "np.histogramdd((a, b))", "np.lexsort((a, b))", "np.maximum.reduce([a, b])", "unyt.unyt_array([a[0], b[0]])",
    "unyt.allclose_units(a, b)", "unyt.testing.assert_allclose_units(a, a.to(b.units))", "unyt.uconcatenate((a, b))", "unyt.uhstack((a, b))",
    "unyt.ustack((a, b))", "unyt.uvstack((a, b))", "unyt.uintersect1d(a, b)", "unyt.uunion1d(a, b)", "unyt.ucross(a[:3], b[:3])", "unyt.udot(a, b)",
    "unyt.unorm(a)", "a.dot(b)", "a.searchsorted(b)", "a.clip(b.min(), b.max())", "sorted([a[0], b[0]])", "max(a[0], b[0])", "list(a) + list(b)",
]
MIXED_INPLACE = [
    ("copyto", "np.copyto(a, b)", "r = b.copy()"),
    ("copyto-where", "np.copyto(a, b, where=m)", "r = a.copy(); r[m] = b.to(a.units)[m]"),
    ("put", "np.put(a, [0, 2], b[:2])", "r = a.copy(); r[[0, 2]] = b[:2].to(a.units)"),
    ("putmask", "np.putmask(a, m, b)", "r = a.copy(); r[m] = b.to(a.units)[m]"),
    ("place", "np.place(a, m, b)", "r = a.copy(); r[m] = b.to(a.units)[:int(m.sum())]"),
    ("fill_diagonal", "np.fill_diagonal(a2, b[0])", None),
    ("setitem-slice", "a[1:3] = b[1:3]", "r = a.copy(); r.d[1:3] = b[1:3].to(a.units).d"),
    ("clip-out", "np.clip(a, b.min(), b.max(), out=a)", "r = np.clip(a, b.min(), b.max())"),
    ("take-out", "np.take(b, [0, 1, 2, 3, 4], out=a)", "r = np.take(b, [0, 1, 2, 3, 4])"),
    ("cumsum-out", "np.cumsum(b, out=a)", "r = np.cumsum(b)"),
    ("concatenate-out", "np.concatenate((a[:2], b[:3]), out=a)", "r = np.concatenate((a[:2], b[:3]))"),
    ("sort", "a.sort()", "r = np.sort(a)"),
    ("itemset", "a[0] = b[0]; a[-1] = b[-1]", "r = a.copy(); r.d[0] = b[0].to(a.units).d; r.d[-1] = b[-1].to(a.units).d"),
]


def run_mixed_handlers():
    for ua, ub in (("cm", "m"), ("m", "km"), ("degC", "degF"), ("K", "degC"), ("cm", "s"), ("g/cm**3", "kg/m**3"), ("degree", "rad"), ("statC", "C")):
        for dt in DTS:
            if ua == "statC" and np.dtype(dt).kind in "iu":
                continue        # 1 C = 3e9 statC overflows the integer item assignment (undefined cast)
            for ka, kb in (("strided", "rev"), ("slice", "strided")) if not R.thorough else itertools.product(["strided", "slice", "rev", "T"], repeat=2):
                rng = rng_for("mixed", ua, ub, dt, ka, kb)
                S = {"a": spec(dt, ka, L.draw_values(rng, dt, (5,), positive=True), ua), "b": spec(dt, kb, L.draw_values(rng, dt, (5,), positive=True), ub)}
                pid = "%s+%s" % (ua, ub)
                for code in MIXED_NONMUT:
                    nonmut("handler-mixed-units", (code.split("(")[0], pid), S, "r = " + code)
                for name, code, cc in MIXED_INPLACE:
                    pre = "m = np.array([True, False, True, False, True]); a2 = a[:4].reshape(2, 2)"
                    if cc is None:
                        nonmut_target = [("a", None, None)]
                        inplace("handler-mixed-units-inplace", (name, pid), S, code, nonmut_target, "r = 0", pre=pre)
                    else:
                        inplace("handler-mixed-units-inplace", (name, pid), S, code, [("a", "r", "physical")], cc, pre=pre)


# ============================================================================ exception hierarchy
def run_exception_classes():
    for n in dir(UE):
        o = getattr(UE, n)
        if isinstance(o, type) and issubclass(o, BaseException) and o.__module__ == UE.__name__:
            key = "C18[exception-class:%s]" % n
            R.case(key)
            if not issubclass(o, Exception):
                R.fail(key, "unyt.exceptions.%s derives from BaseException but not from Exception" % n,
                       replay_script("sys.exit(0 if issubclass(unyt.exceptions.%s, Exception) else 1)\n" % n))
            elif not issubclass(o, UE.UnytError):
                R.fail(key + ":not-UnytError", "unyt.exceptions.%s does not derive from UnytError" % n,
                       replay_script("sys.exit(0 if issubclass(unyt.exceptions.%s, unyt.exceptions.UnytError) else 1)\n" % n))


SECTIONS = [("exceptions", run_exception_classes), ("conversions", run_conversions), ("operators", run_operators),
            ("unary", run_unary_ufuncs), ("binary", run_binary_ufuncs), ("setitem", run_setitem), ("mixed", run_mixed_handlers), ("units", run_units),
            ("catalogue", run_catalogue)]
only = os.environ.get("C18_ONLY")
for sname, fn in SECTIONS:
    if only and sname not in only.split(","):
        continue
    t0 = R.elapsed()
    n0 = R.evaluations
    try:
        fn()
    except Exception as e:  # noqa
        import traceback
        R.notes.append("driver error in section %s: %r %s" % (sname, e, traceback.format_exc()[-400:]))
    R.notes.append("section %s: %d evaluations in %.1f s" % (sname, R.evaluations - n0, R.elapsed() - t0))

bad = sorted(k for k, t in exc_types.items() if not issubclass(t, Exception))
R.case("C18[exception-classes-raised]")
if bad:
    R.fail("C18[exception-classes-raised]", "exceptions raised that do not derive from Exception: %s" % bad)
R.notes.append("outcomes: %r" % stats)
R.notes.append("exception classes raised: %s" % ", ".join(sorted(exc_types)))
if driver_errors:
    R.notes.append("driver errors (%d): %s" % (len(driver_errors), driver_errors[:12]))
R.finish()
