"""C04 bounded stand-in: arithmetic results do not depend on the units the operands are written in.

A reference interpreter evaluates expression programs (DAGs) on SI magnitudes (float64, NumPy on
bare data) with dimension vectors; the same programs are run through the REAL unyt with every leaf
independently re-expressed in commensurable units (prefixed, compound, imperial, custom registry).
Every node of the DAG is compared (SI magnitude rel 1e-9, dimension exact, shape exact); sums and
differences must additionally come back in the unit of the left-most quantity operand.

Part A: deterministic single-operation probes over op x family x unit pair (seed independent).
Part B: hand-written composite programs.  Part C: random DAGs (seeded)."""
import sys, os
sys.path.insert(0, os.path.dirname(os.path.abspath(__file__)))
from common import Run, replay_script

import random
from fractions import Fraction
import numpy as np
import unyt
from unyt import unyt_array, unyt_quantity, Unit
import lib_c04_ops as L
from lib_c04_ops import OPS, FAMILIES, PROBE_UNITS, PROBE_FAMILY_PAIRS, ILL, DIMLESS, ANGLE, TEMP

R = Run("C04",
        "reference interpreter on SI magnitudes + dimension vectors vs real unyt, node by node: (A) every "
        "operation form (~150 spellings of ~45 operations: operators, in-place, out=, ufuncs, reduce/"
        "accumulate/outer, dot family, trig of angles, floor-division/divmod/remainder of same-dimension "
        "operands, comparisons) x 13 unit families x ordered unit pairs (SI, prefixed, imperial/compound, "
        "custom-registry, default-unit-in-custom-registry) x shapes; (B) composite programs; (C) seeded random "
        "DAGs up to depth 6 with each leaf independently re-expressed; ill-conditioned programs (cancellation, "
        "near-integer quotients, near-equal comparisons) are rejected by the reference before unyt is run; "
        "non-trivial = at least one leaf not in the coherent SI unit",
        "quick: probes (spelling variants on every second unit pair, comparisons on every fourth) + 2000 random "
        "programs x 3 unit assignments; thorough: all probes + 48000 random programs x 4 assignments; depth <= 6, "
        "<= 9 operations, <= 5 leaves, shapes (),(1,),(3,),(2,3); a program is used only if the reference's own "
        "forward error bound stays below 1e-11 at every node")

# ------------------------------------------------------------------------------------------
# helper source shared by the driver and by every replay (so both judge identically)
HELPER = r'''
from fractions import Fraction
import sympy as _sp
import unyt.dimensions as _d
from unyt import unyt_array, unyt_quantity, Unit
REG = unyt.UnitRegistry()
REG.add("cubit_x", 0.4572, _d.length)
REG.add("jiffy_x", 1.0 / 60.0, _d.time)
REG.add("stone_x", 6.35029318, _d.mass)
REG.add("turn_x", 6.283185307179586, _d.angle)
REG.add("dozen_x", 12.0, _d.dimensionless)
REG.add("rank_x", 5.0 / 9.0, _d.temperature)
_BASIS = ("mass", "length", "time", "angle", "temperature")
def _dims(vec):
    w = _sp.Integer(1)
    for b, e in zip(_BASIS, vec):
        e = Fraction(e)
        if e:
            w = w * getattr(_d, b) ** _sp.Rational(e.numerator, e.denominator)
    return w
def _bad(r, exp, vec, rtol=1e-9):
    """None if r is the quantity with SI magnitude exp and dimension vec, else (class, message)"""
    exp = np.asarray(exp)
    if isinstance(r, unyt_array):
        u = r.units
        if float(u.base_offset) != 0.0:
            return ("dim", "result unit %s carries an offset" % u)
        if not ((u.dimensions / _dims(vec)) == 1):
            return ("dim", "result has dimensions %s (unit %s), dimensional analysis gives %s" % (u.dimensions, u, _dims(vec)))
        got = np.asarray(r.view(np.ndarray)) * float(u.base_value)
    else:
        if any(Fraction(e) != 0 for e in vec):
            return ("dim", "result %r has no units, dimensional analysis gives %s" % (r, _dims(vec)))
        got = np.asarray(r)
    if got.shape != exp.shape:
        return ("shape", "result shape %s, expected %s" % (got.shape, exp.shape))
    if exp.dtype == bool:
        ok = np.array_equal(got.astype(bool), exp) and (got.dtype == bool or np.all((got == 0) | (got == 1)))
    else:
        with np.errstate(all="ignore"):
            ok = bool(np.all(np.isfinite(got.astype(complex)))) and bool(np.all(np.abs(got - exp) <= rtol * np.abs(exp)))
    if not ok:
        return ("value", "SI magnitude %s, reference %s" % (np.array2string(np.asarray(got), precision=12), np.array2string(exp, precision=12)))
    return None
def _bad_nd(o, r, exp, rtol=1e-9):
    """plain-ndarray out= object: must hold the result's values (in the result's unit)"""
    bv = float(r.units.base_value) if isinstance(r, unyt_array) else 1.0
    got = np.asarray(o) * bv
    exp = np.asarray(exp)
    if got.shape != exp.shape or not np.all(np.abs(got - exp) <= rtol * np.abs(exp)):
        return ("value", "out ndarray holds %s (x unit scale), reference %s" % (got, exp))
    return None
def _left(r, a):
    """sums/differences: result unit must be the unit of the left-most quantity operand (same scale, offset,
    dimensions and unit symbols; the spelling of exponents of numerically identical units is not judged)"""
    if not isinstance(r, unyt_array):
        return ("leftunit", "result %r has no units" % (r,))
    if r.units != a.units or r.units.expr.free_symbols != a.units.expr.free_symbols:
        return ("leftunit", "result in %s, left-most operand in %s" % (r.units, a.units))
    return None
def _usable(r):
    """a result must be able to take part in further arithmetic: r * r must not raise"""
    try:
        r * r
    except Exception as e:
        return ("unusable-unit", "result %r (unit bound to registry without its symbols?): r * r raised %r" % (r, e))
    return None
'''

NS0 = {"np": np, "unyt": unyt, "sys": sys}
exec(HELPER, NS0)
REG = NS0["REG"]
_bad, _bad_nd, _left, _usable = NS0["_bad"], NS0["_bad_nd"], NS0["_left"], NS0["_usable"]

# ------------------------------------------------------------------------------------------
# unit specs
UNIT = {}


def unit_of(spec):
    if spec not in UNIT:
        name, _, flag = spec.partition("@")
        u = Unit(name, registry=REG) if flag else Unit(name)
        UNIT[spec] = (u, float(u.base_value), name, bool(flag))
    return UNIT[spec]


def sanity():
    """the hand-written dimension vectors / custom scales must agree with the units (driver self-check)"""
    bad = []
    for fam, (vec, _, specs) in FAMILIES.items():
        keep = []
        for s in specs:
            try:
                u, bv, _, _ = unit_of(s)
                if not ((u.dimensions / NS0["_dims"](vec)) == 1) or float(u.base_offset) != 0.0:
                    bad.append(s)
                    continue
                keep.append(s)
            except Exception as e:  # noqa
                bad.append("%s (%r)" % (s, e))
        specs[:] = keep
        PROBE_UNITS[fam][:] = [s for s in PROBE_UNITS[fam] if s in keep]
    if bad:
        R.notes.append("driver: unit specs dropped (do not parse / wrong dimension): %s" % bad)


FAM_BY_DIM = {}
for _f, (_vec, _sc, _sp_) in FAMILIES.items():
    FAM_BY_DIM.setdefault(_vec, _f)


# ------------------------------------------------------------------------------------------
class Node:
    __slots__ = ("i", "op", "args", "shape", "dim", "si", "bare", "depth", "fam", "extra", "dtype", "isbool", "err")

    def __init__(self, **k):
        for s in self.__slots__:
            setattr(self, s, k.get(s))


def new_leaf(nodes, fam, shape, si, dtype="f8"):
    n = Node(i=len(nodes), op=None, args=(), shape=tuple(shape), dim=FAMILIES[fam][0], si=np.asarray(si, float),
             bare=False, depth=0, fam=fam, dtype=dtype, isbool=False,
             err=(1.2e-7 if dtype == "f4" else 2 * L.EPS))
    nodes.append(n)
    return n


ERR_LIMIT = [1e-11]      # admitted relative error bound of the reference (tolerance is 1e-9)


def rand_si(rng, fam, shape):
    scale = FAMILIES[fam][1]
    n = int(np.prod(shape)) if shape else 1
    vals = []
    for _ in range(n):
        m = scale * 10 ** rng.uniform(-1.0, 1.3)
        vals.append(-m if rng.random() < 0.3 else m)
    return np.array(vals, float).reshape(shape)


def apply_op(nodes, o, ia, ib=None):
    """append the node o(nodes[ia], nodes[ib]) if it is well-typed and well-conditioned; else None"""
    a = nodes[ia]
    b = nodes[ib] if ib is not None else None
    k = o.kind
    binary = k in L.BINARY_KINDS
    if binary != (b is not None):
        return None
    if a.isbool or (b is not None and b.isbool):
        return None
    if o.shapes_a is not None and a.shape not in o.shapes_a:
        return None
    if b is not None and o.shapes_b is not None and b.shape not in o.shapes_b:
        return None
    if k in ("same", "same0", "cmp", "divmod", "outer_same"):
        if a.dim != b.dim or a.bare or b.bare:
            return None
    if a.bare or (b is not None and b.bare):
        # bare intermediate results (sign, sin, ...) only feed products/quotients with a quantity
        if k not in ("mul", "div") or (a.bare and b.bare) or o.inplace or o.out:
            return None
    if k == "trig" and a.dim != ANGLE:
        return None
    if k in ("red", "prod", "divred") and len(a.shape) == 0:
        return None
    if o.name in ("ndarray*q", "q/ndarray", "ndarray/q") and a.shape not in ((), (3,), (1,), (2, 3)):
        return None
    try:
        r = L.reference(o, a.si, b.si if b is not None else None)
    except ValueError:          # shapes do not broadcast / align
        return None
    if r is ILL:
        return None
    shape = np.shape(r)
    err = L.err_bound(o, a.si, b.si if b is not None else None, r, a.err, b.err if b is not None else 0.0)
    if not (err <= ERR_LIMIT[0]):
        return None
    if o.inplace and a.shape != shape:
        return None
    if o.name in ("ndarray*q", "q/ndarray", "ndarray/q") and o.inplace:
        return None
    try:
        dim = L.result_dim(o, a.dim, b.dim if b is not None else None, a.shape)
    except Exception:
        return None
    if any(abs(e) > 8 for e in dim):
        return None
    extra = None
    if k == "divmod":
        e = L.reference(OPS["np.remainder"], a.si, b.si)
        if e is ILL:
            return None
        extra = (e, a.dim)
    n = Node(i=len(nodes), op=o, args=(ia,) if b is None else (ia, ib), shape=tuple(shape), dim=dim, si=r,
             bare=(k in ("un0", "trig", "cmp")), depth=1 + max(a.depth, b.depth if b is not None else 0),
             extra=extra, isbool=(k == "cmp"), dtype="f8", err=err)
    nodes.append(n)
    return n


# ------------------------------------------------------------------------------------------
def leaf_line(n, spec):
    u, bv, name, inreg = unit_of(spec)
    vals = n.si / bv
    reg = ", registry=REG" if inreg else ""
    if n.dtype == "i8":
        vals = np.rint(vals)
    if n.shape == ():
        v = repr(int(vals)) if n.dtype == "i8" else repr(float(vals))
        if n.dtype == "f4":
            v = "np.float32(%s)" % v
        return "v%d = unyt_quantity(%s, %r%s)" % (n.i, v, name, reg)
    return "v%d = unyt_array(np.array(%r, dtype=%r), %r%s)" % (n.i, vals.tolist(), n.dtype, name, reg)


def op_line(n):
    a = "v%d" % n.args[0]
    b = "v%d" % n.args[1] if len(n.args) > 1 else ""
    return n.op.code.format(a=a, b=b, r="v%d" % n.i, shape=repr(n.shape))


def rel_of(n, ns):
    if len(n.args) == 1:
        return "%dd" % len(ns_shape(ns, n.args[0])) if n.op.kind in ("red", "prod", "divred") else "unary"
    xa, xb = ns["v%d" % n.args[0]], ns["v%d" % n.args[1]]
    if not isinstance(xa, unyt_array) or not isinstance(xb, unyt_array):
        return "bare"
    ua, ub = xa.units, xb.units
    if ua.registry is not ub.registry and n.op.kind not in ("same", "cmp", "outer_same", "divmod"):
        # the registry only matters where unit expressions are combined and simplified
        return "xreg"
    return "same" if ua.expr == ub.expr else "mixed"


def ns_shape(ns, i):
    return np.shape(ns["v%d" % i])


def tag_of(n, nodes):
    ds = [nodes[j].dim for j in n.args]
    # temperature has dedicated branches in the add/subtract/compare and multiply/divide unit rules
    if TEMP in ds and n.op.kind in ("same", "outer_same", "cmp", "mul", "div", "outer_mul", "outer_div", "dot"):
        return "@temperature"
    if ds[0] == DIMLESS or (len(ds) > 1 and ds[1] == DIMLESS and n.op.kind in ("same", "same0", "cmp", "divmod")):
        return "@dimensionless"
    return ""


USABLE = {}        # (unit expression, registry) -> r * r works
SEEN = {}          # failing key -> count
WITNESS = {}


def vec_src(vec):
    return "(" + ", ".join("'%s'" % e for e in vec) + ",)"


def arr_src(x):
    x = np.asarray(x)
    return "np.array(%r, dtype=%r)" % (x.tolist(), "bool" if x.dtype == bool else "float64")


def make_replay(lines, upto, check_src):
    body = HELPER + "\n" + "\n".join(lines[:upto]) + "\ntry:\n    " + lines[upto].replace("; ", "\n    ") + \
        "\nexcept Exception as _e:\n    print('raised', repr(_e)); sys.exit(1)\n" + check_src
    return replay_script(body)


def record(n, nodes, ns, lines, what, msg, check_src):
    try:
        rel = rel_of(n, ns)
    except Exception:
        rel = "?"
    if what == "unusable-unit":
        # one defect site per group: result unit keeps the left operand's registry although its symbols
        # live in the right operand's registry (ufunc unit rules / array functions using units product)
        grp = "dot-outer-functions" if n.op.kind in ("dot", "outer_mul") and n.op.name not in (
            "matmul", "np.matmul", "np.vecdot", "matmul.T", "np.multiply.outer") else "ufunc-mul-div"
        key = "C04[%s:xreg:%s]" % (grp, what)
    elif what == "raise-RecursionError":
        # one defect site (post-multiplication through the unit-carrying out array); operand units irrelevant
        key = "C04[%s:%s]" % (n.op.name, what)
    else:
        key = "C04[%s:%s%s:%s]" % (n.op.name, rel, tag_of(n, nodes), what)
    SEEN[key] = SEEN.get(key, 0) + 1
    if key in WITNESS:
        return key
    WITNESS[key] = True
    R.fail(key, "%s  ::  %s  ->  %s" % ("; ".join(lines), lines[n.i], msg), make_replay(lines, n.i, check_src))
    return key


def run_program(nodes, assign, rtol=1e-9):
    """execute with unyt, compare every node with the reference; returns the failing key or None"""
    ns = dict(NS0)
    lines = []
    for n in nodes:
        if n.op is None:
            line = leaf_line(n, assign[n.i])
            lines.append(line)
            exec(line, ns)       # a failure here is a driver problem -> propagates to the caller's except
            continue
        line = op_line(n)
        lines.append(line)
        v = "v%d" % n.i
        try:
            exec(line, ns)
        except Exception as e:  # noqa
            return record(n, nodes, ns, lines, "raise-RecursionError" if isinstance(e, RecursionError) else "raise",
                          "raised %r" % (e,),
                          "print('no exception'); sys.exit(0)\n")
        r = ns[v]
        exp, vec = arr_src(n.si), vec_src(n.dim)
        bad = _bad(r, n.si, n.dim, rtol)
        if bad:
            return record(n, nodes, ns, lines, bad[0], bad[1],
                          "_w = _bad(%s, %s, %s, %r)\nprint(repr(%s), _w)\nsys.exit(1 if _w else 0)\n" % (v, exp, vec, rtol, v))
        if n.extra is not None:
            bad = _bad(ns[v + "_2"], n.extra[0], n.extra[1], rtol)
            if bad:
                return record(n, nodes, ns, lines, bad[0], "second output: " + bad[1],
                              "_w = _bad(%s_2, %s, %s, %r)\nprint(repr(%s_2), _w)\nsys.exit(1 if _w else 0)\n" % (
                                  v, arr_src(n.extra[0]), vec_src(n.extra[1]), rtol, v))
        if n.op.out in ("q", "alias"):
            bad = _bad(ns[v + "_o"], n.si, n.dim, rtol)
            if bad:
                return record(n, nodes, ns, lines, "out-" + bad[0], bad[1],
                              "_w = _bad(%s_o, %s, %s, %r)\nprint(repr(%s_o), _w)\nsys.exit(1 if _w else 0)\n" % (v, exp, vec, rtol, v))
        elif n.op.out == "nd":
            bad = _bad_nd(ns[v + "_o"], r, n.si, rtol)
            if bad:
                return record(n, nodes, ns, lines, "out-" + bad[0], bad[1],
                              "_w = _bad_nd(%s_o, %s, %s, %r)\nprint(repr(%s_o), _w)\nsys.exit(1 if _w else 0)\n" % (v, v, exp, rtol, v))
        if isinstance(r, unyt_array) and any(str(x).endswith("_x") for x in r.units.expr.free_symbols):
            ck = (str(r.units.expr), id(r.units.registry))
            if ck not in USABLE:
                USABLE[ck] = _usable(r) is None
            bad = None if USABLE[ck] else _usable(r)
            if bad:
                return record(n, nodes, ns, lines, bad[0], bad[1],
                              "_w = _usable(%s)\nprint(repr(%s), _w)\nsys.exit(1 if _w else 0)\n" % (v, v))
        if n.op.left and not nodes[n.args[0]].bare:
            a = "v%d" % n.args[0]
            bad = _left(r, ns[a])
            if bad:
                return record(n, nodes, ns, lines, bad[0], bad[1],
                              "_w = _left(%s, %s)\nprint(repr(%s), _w)\nsys.exit(1 if _w else 0)\n" % (v, a, v))
    return None


NCASE = [0]


def evaluate(nodes, assign, label, rtol=1e-9):
    leaves = [n for n in nodes if n.op is None]
    nontrivial = any(assign[n.i] != FAMILIES[n.fam][2][0] for n in leaves)
    sig = label + "|" + ",".join(n.op.name for n in nodes if n.op is not None) + "|" + \
        ",".join(assign[n.i] for n in leaves) + "|" + ",".join(str(n.shape) for n in leaves)
    R.case(sig, nontrivial=nontrivial,
           sample={"program": [op_line(n) for n in nodes if n.op is not None],
                   "units": [assign[n.i] for n in leaves]} if NCASE[0] % 997 == 0 else None)
    NCASE[0] += 1
    try:
        return run_program(nodes, assign, rtol)
    except Exception as e:  # noqa  (driver problem, not a verdict)
        if len(R.notes) < 20:
            R.notes.append("driver exception in %s: %r" % (sig[:200], e))
        return None


# ------------------------------------------------------------------------------------------
# Part A: deterministic probes (independent of --seed)
PR = random.Random(20240904)
SHAPE_PAIRS = [((), ()), ((3,), ()), ((2, 3), (3,)), ((3,), (1,)), ((), (3,)), ((3,), (3,))]


def build_binary(o, fa, fb, sa, sb, dtype="f8", tries=40):
    for _ in range(tries):
        nodes = []
        if dtype == "i8":
            A = np.array([PR.choice([-7, -5, -3, 2, 3, 4, 6, 9, 11]) for _ in range(int(np.prod(sa)) if sa else 1)], float).reshape(sa)
            B = np.array([PR.choice([-7, -5, -3, 2, 3, 4, 6, 9, 11]) for _ in range(int(np.prod(sb)) if sb else 1)], float).reshape(sb)
            new_leaf(nodes, fa, sa, A, dtype)
            new_leaf(nodes, fb, sb, B, dtype)
        else:
            new_leaf(nodes, fa, sa, rand_si(PR, fa, sa), dtype)
            new_leaf(nodes, fb, sb, rand_si(PR, fb, sb), dtype)
        if apply_op(nodes, o, 0, 1) is not None:
            return nodes
    return None


def build_unary(o, fa, sa, dtype="f8", tries=40):
    for _ in range(tries):
        nodes = []
        new_leaf(nodes, fa, sa, rand_si(PR, fa, sa), dtype)
        if o.kind == "pow" and o.p.denominator != 1:
            nodes[0].si = np.abs(nodes[0].si)
        if apply_op(nodes, o, 0) is not None:
            return nodes
    return None


def shapes_for(o, idx):
    """deterministic choice of operand shapes for probe number idx"""
    if o.shapes_a is not None:
        sa = o.shapes_a[idx % len(o.shapes_a)]
        sb = o.shapes_b[(idx // len(o.shapes_a)) % len(o.shapes_b)]
        return sa, sb
    cands = [sp for sp in SHAPE_PAIRS if not o.inplace and not (o.out == "alias") or
             np.broadcast_shapes(sp[0], sp[1]) == sp[0]]
    return cands[idx % len(cands)]


def skip_quick(o, idx, pos):
    """quick tier: spelling variants of an operation take every second unit pair (alternating by spelling)"""
    if R.thorough or o.weight >= 2:
        return False
    if o.weight < 1:                      # the twelve comparison spellings: every fourth pair each
        return (idx + pos) % 4 != 0
    return (idx + pos) % 2 == 1


def probes_same_dim(part=0, nparts=1):
    ops = [o for o in OPS.values() if o.kind in ("same", "same0", "cmp", "divmod", "outer_same")]
    for pos, o in list(enumerate(ops))[part::nparts]:
        idx = 0
        for fam, units in PROBE_UNITS.items():
            for ua in units:
                for ub in units:
                    if skip_quick(o, idx, pos) and ua != ub:
                        idx += 1
                        continue
                    sa, sb = shapes_for(o, idx)
                    idx += 1
                    nodes = build_binary(o, fam, fam, sa, sb)
                    if nodes is None:
                        continue
                    evaluate(nodes, {0: ua, 1: ub}, "A1")


def probes_floor_pinned():
    """the statement's own example and exactly representable neighbours"""
    for name in ("floordiv", "np.floor_divide", "ifloordiv", "np.floor_divide(out=q)", "divmod", "np.divmod", "mod",
                 "np.remainder", "np.fmod"):
        o = OPS[name]
        for (fa, ua, xa, ub, xb) in (("length", "km", 1.0, "m", 300.0), ("length", "m", 1000.0, "km", 0.3),
                                     ("time", "hr", 2.0, "minute", 45.0), ("length", "ft", 10.0, "inch", 7.0),
                                     ("dimensionless", "percent", 50.0, "dimensionless", 0.3),
                                     ("length", "km", 1.0, "km", 0.3)):
            nodes = []
            new_leaf(nodes, fa, (), xa * unit_of(ua)[1])
            new_leaf(nodes, fa, (), xb * unit_of(ub)[1])
            if apply_op(nodes, o, 0, 1) is not None:
                evaluate(nodes, {0: ua, 1: ub}, "A1p")
    # exact equalities across units: 1 km == 1000 m etc.
    for name in ("==", "!=", "<=", ">=", "<", ">", "np.equal", "np.not_equal", "np.less_equal", "np.greater"):
        o = OPS[name]
        f = {"==": np.equal, "!=": np.not_equal, "<=": np.less_equal, ">=": np.greater_equal, "<": np.less,
             ">": np.greater, "np.equal": np.equal, "np.not_equal": np.not_equal, "np.less_equal": np.less_equal,
             "np.greater": np.greater}[name]
        for (fa, ua, xa, ub, xb) in (("length", "km", 1.0, "m", 1000.0), ("time", "hr", 0.5, "minute", 30.0),
                                     ("length", "ft", 2.0, "inch", 24.0), ("mass", "kg", 3.0, "g", 3000.0),
                                     ("dimensionless", "percent", 50.0, "dimensionless", 0.5),
                                     ("length", "m", 2048.0, "km@R", 2.048 * 1.0)):
            nodes = []
            a = new_leaf(nodes, fa, (3,), np.array([xa, 2 * xa, 4 * xa]) * unit_of(ua)[1])
            b = new_leaf(nodes, fa, (3,), np.array([xb, 4 * xb, 2 * xb]) * unit_of(ub)[1])
            # the reference verdict is the comparison of the SI magnitudes
            n = Node(i=2, op=o, args=(0, 1), shape=(3,), dim=DIMLESS, si=f(a.si, b.si), bare=True, depth=1,
                     isbool=True, dtype="f8")
            nodes.append(n)
            evaluate(nodes, {0: ua, 1: ub}, "A1e")


def probes_mul_div(part=0, nparts=1):
    ops = [o for o in OPS.values() if o.kind in ("mul", "div", "outer_mul", "outer_div", "dot")]
    for pos, o in list(enumerate(ops))[part::nparts]:
        idx = 0
        for fa, fb in PROBE_FAMILY_PAIRS:
            for ua in PROBE_UNITS[fa][:4] + PROBE_UNITS[fa][4:5] * (fa == fb):
                for ub in PROBE_UNITS[fb][:4]:
                    if skip_quick(o, idx, pos):
                        idx += 1
                        continue
                    sa, sb = shapes_for(o, idx)
                    idx += 1
                    nodes = build_binary(o, fa, fb, sa, sb)
                    if nodes is None:
                        continue
                    evaluate(nodes, {0: ua, 1: ub}, "A2")


def probes_unary(part=0, nparts=1):
    ops = [o for o in OPS.values() if o.kind not in L.BINARY_KINDS]
    for o in ops[part::nparts]:
        idx = 0
        for fam, units in PROBE_UNITS.items():
            if o.kind == "trig" and fam != "angle":
                continue
            for u in (FAMILIES[fam][2] if o.kind == "trig" else units):
                shapes = [(3,), (2, 3), (1,)] if o.kind in ("red", "prod", "divred") else [(), (3,), (2, 3), (1,)]
                for sa in (shapes if (o.kind in ("red", "prod", "divred", "trig") or R.thorough) else
                           [shapes[idx % len(shapes)], shapes[(idx + 1) % len(shapes)]]):
                    nodes = build_unary(o, fam, sa)
                    if nodes is None:
                        continue
                    evaluate(nodes, {0: u}, "A3")
                idx += 1


def probes_dtype():
    """integer and float32 leaves for the operations whose integer arithmetic equals real arithmetic"""
    pairs = [("length", "m", "km"), ("length", "km", "m"), ("length", "ft", "inch"), ("time", "minute", "s"),
             ("length", "km", "km"), ("length", "m", "cubit_x@R")]
    for o in OPS.values():
        if not o.intsafe or o.inplace or o.out:
            continue
        for dt, rtol in (("i8", 1e-9), ("f4", 1e-3)):   # f4: eps 6e-8 x admitted cancellation
            ERR_LIMIT[0] = rtol / 100
            for j, (fam, ua, ub) in enumerate(pairs):
                if o.kind in L.BINARY_KINDS:
                    sa, sb = shapes_for(o, j)
                    fb = fam
                    if o.kind in ("mul", "div", "outer_mul", "dot") and j % 2:
                        fb, ub2 = "time", "minute"
                    else:
                        ub2 = ub
                    nodes = build_binary(o, fam, fb, sa, sb, dtype=dt)
                    if nodes is None:
                        continue
                    if dt == "i8":
                        # integers are the values *in the units*: rebuild SI magnitudes and the reference
                        nodes = rebuild_int(nodes, o, {0: ua, 1: ub2})
                        if nodes is None:
                            continue
                    evaluate(nodes, {0: ua, 1: ub2}, "A4" + dt, rtol)
                else:
                    sa = [(3,), (2, 3), ()][j % 3]
                    nodes = build_unary(o, fam, sa, dtype=dt)
                    if nodes is None:
                        continue
                    if dt == "i8":
                        nodes = rebuild_int(nodes, o, {0: ua})
                        if nodes is None:
                            continue
                    evaluate(nodes, {0: ua}, "A4" + dt, rtol)


def _reset_limit():
    ERR_LIMIT[0] = 1e-11


def rebuild_int(nodes, o, assign):
    leaves = [n for n in nodes if n.op is None]
    new = []
    for n in leaves:
        ints = np.rint(np.clip(n.si, -9, 11) if n.dtype == "i8" else n.si)
        ints = np.where(ints == 0, 2.0, ints)
        if o.kind not in L.BINARY_KINDS:
            ints = np.array([PR.choice([-7, -5, -3, 2, 3, 4, 6, 9]) for _ in range(ints.size)], float).reshape(ints.shape)
        new_leaf(new, n.fam, n.shape, ints * unit_of(assign[n.i])[1], "i8")
    r = apply_op(new, o, 0, 1 if len(leaves) > 1 else None)
    return new if r is not None else None


# ------------------------------------------------------------------------------------------
# Part B: composite programs (steps: (opname, arg indices)); leaves: (family, shape)
COMPOSITES = [
    ("sin-of-rate-times-time", [("angvel", (3,)), ("time", ())], [("mul", 0, 1), ("np.sin", 2)]),
    ("cos-of-sum-of-angles", [("angle", (3,)), ("angle", ())], [("add", 0, 1), ("np.cos", 2)]),
    ("tan-of-angle-ratio-times-angle", [("length", ()), ("length", ()), ("angle", (3,))],
     [("truediv", 0, 1), ("mul", 3, 2), ("np.tan", 4)]),
    ("floordiv-of-products", [("length", (3,)), ("length", ()), ("area", ())], [("mul", 0, 1), ("floordiv", 3, 2)]),
    ("sqrt-times-sqrt", [("length", (3,)), ("length", ())], [("abs", 0), ("abs", 1), ("np.sqrt", 2), ("np.sqrt", 3), ("mul", 4, 5)]),
    ("sqrt-over-sqrt", [("length", (3,)), ("length", ())], [("abs", 0), ("abs", 1), ("np.sqrt", 2), ("np.sqrt", 3), ("truediv", 4, 5)]),
    ("velocity-times-time-plus-length", [("velocity", (3,)), ("time", ()), ("length", (3,))],
     [("mul", 0, 1), ("add", 3, 2), ("sub", 2, 3)]),
    ("energy-over-force-minus-length", [("energy", ()), ("force", (3,)), ("length", ())],
     [("truediv", 0, 1), ("sub", 3, 2), ("np.hypot", 3, 2)]),
    ("pressure-times-area-vs-force", [("pressure", (3,), 1.0), ("area", ()), ("force", (3,))],
     [("mul", 0, 1), ("<", 3, 2), ("np.maximum", 3, 2), ("np.remainder", 3, 2)]),
    ("dot-then-floordiv", [("length", (2, 3)), ("length", (3,)), ("area", ())], [("matmul", 0, 1), ("floordiv", 3, 2)]),
    ("sum-then-ratio", [("mass", (2, 3)), ("mass", (3,))], [("np.sum(axis=0)", 0), ("truediv", 2, 1), ("np.add.reduce", 3)]),
    ("prod-then-cbrt", [("length", (3,))], [("np.prod", 0), ("np.cbrt", 1), ("np.maximum.reduce", 0), ("np.hypot", 2, 3)]),
    ("multiply-reduce-2d-then-sqrt", [("length", (2, 3))], [("np.multiply.reduce", 0), ("np.sqrt(out=q)", 1)]),
    ("inplace-chain", [("length", (3,)), ("length", ()), ("time", ())], [("iadd", 0, 1), ("idiv", 3, 2), ("imul", 4, 2), ("isub", 5, 1)]),
    ("freq-times-time-power", [("frequency", (3,)), ("time", ())], [("mul", 0, 1), ("pow(2)", 2), ("np.add.accumulate", 3)]),
    ("arctan2-then-sin", [("length", (3,)), ("length", ())], [("np.arctan2", 0, 1)]),
    ("outer-then-reduce", [("length", (3,)), ("time", (3,))], [("np.divide.outer", 0, 1), ("np.add.reduce", 2), ("np.multiply.reduce(axis=-1)", 2)]),
    ("reciprocal-sum", [("time", (3,)), ("frequency", ())], [("np.reciprocal", 0), ("add", 2, 1), ("sub", 1, 2)]),
    ("temperature-mean", [("temperature", (3,)), ("temperature", ())], [("add", 0, 1), ("q/bare", 2), ("truediv", 3, 1)]),
    ("cubed-ratio-imul", [("dimensionless", (3,)), ("angvel", (3,))], [("pow(3)", 0), ("imul", 2, 1)]),
    ("cubed-ratio-idiv", [("dimensionless", (3,)), ("angvel", (3,))], [("pow(3)", 0), ("idiv", 2, 1)]),
    ("cubed-ratio-multiply-out-alias", [("dimensionless", (3,)), ("angvel", ())], [("pow(3)", 0), ("np.multiply(out=alias)", 2, 1)]),
    ("cubed-ratio-divide-out-alias", [("dimensionless", (3,)), ("angvel", ())], [("pow(3)", 0), ("np.divide(out=alias)", 2, 1)]),
    ("cubed-ratio-ifloordiv", [("dimensionless", (3,), 1.0), ("dimensionless", ())], [("pow(3)", 0), ("ifloordiv", 2, 1)]),
    ("dot-then-imul", [("velocity", (3,)), ("time", (3,)), ("mass", ())], [(".dot", 0, 1), ("imul", 3, 2), ("idiv", 3, 2)]),
    ("percent-scaling", [("dimensionless", ()), ("length", (3,)), ("length", ())], [("mul", 0, 1), ("add", 3, 2), ("floordiv", 4, 2)]),
]


def build_composite(rng, spec, tries=400):
    _, leaves, steps = spec
    for _ in range(tries):
        nodes = []
        for lf in leaves:
            fam, shape = lf[0], lf[1]
            si = rand_si(rng, fam, shape)
            if len(lf) > 2:
                si = si / FAMILIES[fam][1] * lf[2]
            new_leaf(nodes, fam, shape, si)
        ok = True
        for st in steps:
            if apply_op(nodes, OPS[st[0]], *st[1:]) is None:
                ok = False
                break
        if ok:
            return nodes
    return None


def composites():
    for spec in COMPOSITES:
        nodes = build_composite(PR, spec)
        if nodes is None:
            R.notes.append("driver: composite %s could not be conditioned" % spec[0])
            continue
        leaves = [n for n in nodes if n.op is None]
        # all-SI, then each probe unit rotated through the leaves
        evaluate(nodes, {n.i: FAMILIES[n.fam][2][0] for n in leaves}, "B")
        m = max(len(PROBE_UNITS[n.fam]) for n in leaves)
        for r_ in range(m * 2):
            assign = {n.i: PROBE_UNITS[n.fam][(r_ + 2 * j + (r_ // m)) % len(PROBE_UNITS[n.fam])] for j, n in enumerate(leaves)}
            evaluate(nodes, assign, "B")


# ------------------------------------------------------------------------------------------
# Part C: random DAGs
OPLIST = list(OPS.values())
OPW = [o.weight for o in OPLIST]
FAMLIST = list(FAMILIES)


def gen_program(rng, nops):
    nodes = []
    f0 = rng.choice(FAMLIST)
    new_leaf(nodes, f0, rng.choice(L.SHAPES), None)
    nodes[0].si = rand_si(rng, f0, nodes[0].shape)
    made = 0
    attempts = 0
    nleaf = 1
    while made < nops and attempts < nops * 30:
        attempts += 1
        o = rng.choices(OPLIST, OPW)[0]
        # first operand: prefer recent nodes (deep DAGs)
        cand = [n for n in nodes if not n.isbool and n.depth < 6]
        if not cand:
            break
        a = cand[-1] if rng.random() < 0.55 else rng.choice(cand)
        if o.kind == "trig" and a.dim != ANGLE:
            angs = [n for n in cand if n.dim == ANGLE and not n.bare]
            if angs:
                a = rng.choice(angs)
            elif nleaf < 5:
                sh = rng.choice(L.SHAPES)
                a = new_leaf(nodes, "angle", sh, rand_si(rng, "angle", sh))
                nleaf += 1
            else:
                continue
        if o.kind not in L.BINARY_KINDS:
            if o.kind == "pow" and o.p.denominator != 1 and np.any(a.si < 0):
                continue
            if apply_op(nodes, o, a.i) is not None:
                made += 1
            continue
        same = o.kind in ("same", "same0", "cmp", "divmod", "outer_same")
        pool = [n for n in nodes if not n.isbool and n.depth < 6 and (not same or (n.dim == a.dim and not n.bare))]
        b = None
        if pool and (rng.random() < 0.55 or nleaf >= 5):
            b = rng.choice(pool)
        elif nleaf < 5:
            if same:
                fam = FAM_BY_DIM.get(a.dim)
                if fam is None or a.bare:
                    if pool:
                        b = rng.choice(pool)
                else:
                    fams = [f for f in FAMLIST if FAMILIES[f][0] == a.dim]
                    fam = rng.choice(fams)
            else:
                fam = rng.choice(FAMLIST)
            if b is None and fam is not None and not (same and a.bare):
                sh = rng.choice(o.shapes_b if o.shapes_b else L.SHAPES)
                si = rand_si(rng, fam, sh)
                if same and o.kind != "outer_same":
                    # keep the magnitudes comparable with the first operand so quotients stay moderate
                    med = float(np.median(np.abs(a.si)))
                    si = si / FAMILIES[fam][1] * med
                b = new_leaf(nodes, fam, sh, si)
                nleaf += 1
        if b is None:
            continue
        ia, ib = a.i, b.i
        if rng.random() < 0.3 and not o.inplace:
            ia, ib = ib, ia
        if apply_op(nodes, o, ia, ib) is not None:
            made += 1
    if made == 0:
        return None
    # drop unused leaves so indices stay dense
    used = set()
    for n in nodes:
        if n.op is not None:
            used.add(n.i)
            used.update(n.args)
    if len(used) != len(nodes):
        remap, out = {}, []
        for n in nodes:
            if n.i in used:
                remap[n.i] = len(out)
                n.args = tuple(remap[j] for j in n.args)
                n.i = remap[n.i]
                out.append(n)
        nodes = out
    return nodes


def random_part(nprog, nassign, rng):
    done = 0
    depth_hist = {}
    t0 = R.elapsed()
    while done < nprog:
        nodes = gen_program(rng, rng.randint(1, 9))
        if nodes is None:
            continue
        done += 1
        d = max(n.depth for n in nodes)
        depth_hist[d] = depth_hist.get(d, 0) + 1
        leaves = [n for n in nodes if n.op is None]
        for k in range(nassign):
            if k == 0:
                assign = {n.i: FAMILIES[n.fam][2][0] for n in leaves}
            elif k == 1:
                assign = {n.i: rng.choice(PROBE_UNITS[n.fam]) for n in leaves}
            else:
                assign = {n.i: rng.choice(FAMILIES[n.fam][2]) for n in leaves}
            evaluate(nodes, assign, "C")
        if R.elapsed() > (50 if not R.thorough else 560):
            R.notes.append("time budget reached after %d random programs" % done)
            break
    R.notes.append("random programs: %d, depth histogram %s" % (done, sorted(depth_hist.items())))


# ------------------------------------------------------------------------------------------
def small_parts():
    probes_floor_pinned()
    probes_dtype()
    _reset_limit()
    composites()


def worker(task):
    """runs in a forked child: one slice of the enumeration, results shipped back to the parent"""
    name, args = task[0], task[1:]
    R.evaluations, R.keys, R.failures, R.samples, R.notes = 0, set(), [], [], []
    SEEN.clear()
    WITNESS.clear()
    PR.seed("C04-probes-" + name + repr(args))          # probe values: fixed, independent of --seed
    t = R.elapsed()
    try:
        if name == "random":
            k, nprog, nassign = args
            random_part(nprog, nassign, random.Random(R.args.seed * 1009 + k))
        else:
            globals()[name](*args)
    except Exception as e:  # noqa
        import traceback
        R.notes.append("driver exception in %s%r: %r %s" % (name, args, e, traceback.format_exc()[-300:]))
    R.notes.append("%s%r: %d evaluations, %.1fs" % (name, args, R.evaluations, R.elapsed() - t))
    return {"evals": R.evaluations, "keys": R.keys, "failures": R.failures, "samples": R.samples,
            "notes": R.notes, "seen": dict(SEEN)}


def main():
    import multiprocessing as mp
    sanity()
    nrand, nassign, nw = (48000, 4, 12) if R.thorough else (2000, 3, 4)
    tasks = [("probes_mul_div", 0, 3), ("probes_mul_div", 1, 3), ("probes_mul_div", 2, 3),
             ("probes_unary", 0, 2), ("probes_unary", 1, 2),
             ("probes_same_dim", 0, 2), ("probes_same_dim", 1, 2), ("small_parts",)]
    tasks += [("random", k, nrand // nw, nassign) for k in range(nw)]
    try:
        with mp.get_context("fork").Pool(min(12, len(tasks))) as pool:
            results = pool.map(worker, tasks, chunksize=1)
    except Exception as e:  # noqa  (no fork / pool failure: run in-process)
        R.notes.append("driver: process pool unavailable (%r), running sequentially" % (e,))
        keep = (R.notes[:],)
        results = [worker(t) for t in tasks]
        R.notes = keep[0]
    evals, keys, fails, samples, notes, seen = 0, set(), [], [], list(R.notes), {}
    have = set()
    for res in results:            # task order is fixed -> deterministic witnesses
        evals += res["evals"]
        keys |= res["keys"]
        notes += res["notes"]
        samples += res["samples"][:1]
        for f in res["failures"]:
            if f["key"] not in have:
                have.add(f["key"])
                fails.append(f)
        for k, v in res["seen"].items():
            seen[k] = seen.get(k, 0) + v
    R.evaluations, R.keys, R.failures, R.samples, R.notes = evals, keys, fails[:400], samples[:6], notes
    R.notes.append("failing families (count of witnesses): %s" % sorted(seen.items()))
    R.finish()


main()
