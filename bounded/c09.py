"""C09 bounded stand-in: equivalence conversions are mutually inverse, pure, and match their
defining formulas -- run on the real, imported package.

Enumerated: all 9 built-in equivalences x every ordered pair of distinct member dimensions
(32 branches) x a cross product of input/target units per dimension (SI, CGS, prefixed,
compound, astrophysical; string and Unit-object targets) x keyword parameters (mu, gamma;
default and non-default) x values spread over 30 decades (lorentz: inside v < c, gamma >= 1)
x 9 call forms (to_equivalent and to positional/keyword, in_units, to_value, convert_to_equivalent,
convert_to_units keyword/positional) x containers (unyt_array, unyt_quantity, 0-d, size-1,
2-D, strided view) x dtypes (float64/32/16, int64/32/16/8, uint8) x registries (default,
fresh, cgs, one with symbols of its own).

Oracle: the closed-form formula in plain float (decimal for lorentz) on SI magnitudes
(value * unit.base_value, base_offset for degC/degF) with the library's own constants.
"""
import decimal
import math
import multiprocessing
import os
import random
import sys

sys.path.insert(0, os.path.dirname(os.path.abspath(__file__)))
from common import Run, replay_script  # noqa: E402

import numpy as np  # noqa: E402
import unyt  # noqa: E402,F401
from unyt import Unit, UnitRegistry, unyt_array, unyt_quantity  # noqa: E402,F401
from unyt import physical_constants as pc  # noqa: E402
import unyt.dimensions as UD  # noqa: E402
from unyt.exceptions import InvalidUnitEquivalence  # noqa: E402

EPS64 = float(np.finfo("f8").eps)


def _si(q):
    return float(q.d) * float(q.units.base_value)


KB, CL, HP, GN, MH, SIG = (_si(pc.kboltz), _si(pc.clight), _si(pc.h_mks), _si(pc.G), _si(pc.mh),
                           _si(pc.stefan_boltzmann_constant_mks))

# ---------------------------------------------------------------------------------------
# the space
# ---------------------------------------------------------------------------------------
DIMOBJ = {
    "temperature": UD.temperature, "energy": UD.energy, "length": UD.length, "rate": UD.rate,
    "spatial_frequency": UD.spatial_frequency, "mass": UD.mass, "velocity": UD.velocity,
    "dimensionless": UD.dimensionless, "density": UD.density,
    "number_density": UD.number_density, "flux": UD.flux,
}
# first 5 of every list: the quick cross product (SI, CGS, prefixed, compound, astro)
UNITS = {
    "temperature": ["K", "R", "mK", "MK", "kK", "uK", "GK", "K*m/m"],
    "energy": ["J", "erg", "keV", "kg*m**2/s**2", "BTU", "eV", "MeV", "GeV", "kJ", "cal", "Ry",
               "g*cm**2/s**2", "N*m", "W*s", "kW*hr", "Msun*c**2"],
    "length": ["m", "cm", "angstrom", "Mpc", "mile", "km", "nm", "um", "fm", "pc", "kpc", "AU",
               "ly", "ft", "inch", "Rsun", "c*s"],
    "rate": ["Hz", "1/s", "GHz", "1/yr", "km/s/Mpc", "kHz", "MHz", "THz", "1/ms", "s**-1", "1/Myr"],
    "spatial_frequency": ["1/m", "1/cm", "1/angstrom", "m**-1", "1/Mpc", "1/nm", "1/km", "1/um",
                          "1/pc", "1/ft"],
    "mass": ["kg", "g", "Msun", "me", "MeV/c**2", "mp", "amu", "lb", "mg", "Mearth", "oz"],
    "velocity": ["m/s", "cm/s", "km/s", "c", "mile/hr", "km/hr", "pc/Myr", "AU/yr", "ft/s"],
    "dimensionless": ["", "dimensionless", "percent", "m/m", "km/m"],
    "density": ["kg/m**3", "g/cm**3", "Msun/pc**3", "mp/cm**3", "lb/ft**3", "Msun/kpc**3",
                "g/liter", "mg/mm**3"],
    "number_density": ["1/m**3", "cm**-3", "1/pc**3", "1/liter", "1/angstrom**3", "1/cm**3",
                       "1/kpc**3", "1/ft**3"],
    "flux": ["W/m**2", "erg/s/cm**2", "kg/s**3", "Lsun/pc**2", "mW/cm**2", "g/s**3",
             "J/(s*m**2)", "Lsun/AU**2", "BTU/(hr*ft**2)"],
}
OFFSET_UNITS = ["degC", "degF"]
# dimensions used for "not covered" requests (in addition to the 11 above)
EXTRA_DIMS = {"time": "s", "pressure": "Pa", "angle": "rad", "power": "W", "angular_rate": "rad/s",
              "area": "m**2", "force": "N", "acceleration": "m/s**2", "volume": "m**3"}

EQUIVS = {
    "thermal": (["temperature", "energy"], [{}]),
    "spectral": (["length", "rate", "energy", "spatial_frequency"], [{}]),
    "mass_energy": (["mass", "energy"], [{}]),
    "lorentz": (["dimensionless", "velocity"], [{}]),
    "schwarzschild": (["mass", "length"], [{}]),
    "compton": (["mass", "length"], [{}]),
    "number_density": (["density", "number_density"], [{}, {"mu": 1.4}]),
    "sound_speed": (["velocity", "temperature", "energy"],
                    [{}, {"mu": 1.22, "gamma": 1.4}, {"gamma": 1.1}, {"mu": 2.3}]),
    "effective_temperature": (["flux", "temperature"], [{}]),
}

COPY_ENTRIES = {
    "to_equivalent": "x.to_equivalent(U, E, **KW)",
    "to_equivalent-kw": "x.to_equivalent(U, equivalence=E, **KW)",
    "to": "x.to(U, E, **KW)",
    "to-kw": "x.to(U, equivalence=E, **KW)",
    "in_units": "x.in_units(U, equivalence=E, **KW)",
    "to_value": "x.to_value(U, E, **KW)",
}
INPLACE_ENTRIES = {
    "convert_to_equivalent": "x.convert_to_equivalent(U, E, **KW)",
    "convert_to_units": "x.convert_to_units(U, equivalence=E, **KW)",
    "convert_to_units-pos": "x.convert_to_units(U, E, **KW)",
}
CORE = "to_equivalent"
NARROW = ("float16", "int16", "int8", "uint8")
# dtypes whose in-place buffer is narrower than float64 (int32 -> float32, int16 -> float16)
NARROW_INPLACE = NARROW + ("float32", "int32")
# in-place results are only required where the buffer's float type can hold them comfortably
SAFE_RANGE = {2: (1e-3, 1e4), 4: (1e-30, 1e30)}


def cancelling(uname):
    """units such as km/s/Mpc or km/m whose symbols cancel into a pure number"""
    if uname in CUSTOM_UNITS or not ("/" in uname or "*" in uname):
        return False
    try:
        # Unit.simplify() rewrites the object it is called on and Unit('...') hands out cached
        # objects, so work on a private product object
        u = Unit(uname)
        c = (u * Unit("dimensionless", registry=u.registry)).simplify().as_coeff_unit()[0]
        return float(c) != 1.0
    except Exception:  # noqa
        return False


# ---------------------------------------------------------------------------------------
# oracle
# ---------------------------------------------------------------------------------------
def _canon(eq, dim, x, kw):
    mu = kw.get("mu", 0.6)
    gamma = kw.get("gamma", 5.0 / 3.0)
    if eq == "thermal":
        return KB * x if dim == "temperature" else x
    if eq == "spectral":
        return {"length": lambda: HP * CL / x, "rate": lambda: HP * x, "energy": lambda: x,
                "spatial_frequency": lambda: HP * CL * x}[dim]()
    if eq == "mass_energy":
        return x * CL * CL if dim == "mass" else x
    if eq == "schwarzschild":
        return x if dim == "mass" else x * CL * CL / (2.0 * GN)
    if eq == "compton":
        return x if dim == "mass" else HP / (x * CL)
    if eq == "number_density":
        return x if dim == "number_density" else x / (mu * MH)
    if eq == "sound_speed":
        return {"velocity": lambda: x * x * mu * MH / gamma, "temperature": lambda: KB * x,
                "energy": lambda: x}[dim]()
    if eq == "effective_temperature":
        return x if dim == "temperature" else (x / SIG) ** 0.25
    raise KeyError(eq)


def _uncanon(eq, dim, c, kw):
    mu = kw.get("mu", 0.6)
    gamma = kw.get("gamma", 5.0 / 3.0)
    if eq == "thermal":
        return c / KB if dim == "temperature" else c
    if eq == "spectral":
        return {"length": lambda: HP * CL / c, "rate": lambda: c / HP, "energy": lambda: c,
                "spatial_frequency": lambda: c / (HP * CL)}[dim]()
    if eq == "mass_energy":
        return c / (CL * CL) if dim == "mass" else c
    if eq == "schwarzschild":
        return c if dim == "mass" else 2.0 * GN * c / (CL * CL)
    if eq == "compton":
        return c if dim == "mass" else HP / (c * CL)
    if eq == "number_density":
        return c if dim == "number_density" else mu * MH * c
    if eq == "sound_speed":
        return {"velocity": lambda: np.sqrt(gamma * c / (mu * MH)), "temperature": lambda: c / KB,
                "energy": lambda: c}[dim]()
    if eq == "effective_temperature":
        return c if dim == "temperature" else SIG * c ** 4
    raise KeyError(eq)


_DCTX = decimal.Context(prec=60)


def _lorentz(A, xs):
    """exact-ish (60 digit) gamma(v) / v(gamma); returns (values, condition numbers)"""
    out, cond = [], []
    one = decimal.Decimal(1)
    c = decimal.Decimal(CL)
    for v in np.atleast_1d(xs):
        d = decimal.Decimal(float(v))
        if A == "velocity":
            b2 = _DCTX.divide(d, c)
            b2 = _DCTX.multiply(b2, b2)
            om = _DCTX.subtract(one, b2)
            out.append(float(_DCTX.divide(one, _DCTX.sqrt(om))))
            cond.append(float(_DCTX.divide(b2, om)))
        else:
            g2 = _DCTX.multiply(d, d)
            b2 = _DCTX.subtract(one, _DCTX.divide(one, g2))
            out.append(float(_DCTX.multiply(c, _DCTX.sqrt(b2))))
            gm = _DCTX.subtract(g2, one)
            cond.append(float(_DCTX.divide(one, gm)) if gm != 0 else 0.0)
    return np.array(out), np.array(cond)


def oracle_si(eq, A, B, x_si, kw):
    """SI magnitudes in dimension A -> (SI magnitudes in dimension B, condition number)"""
    x_si = np.asarray(x_si, dtype="f8")
    if A == B:
        return x_si.copy(), np.ones_like(x_si)
    if eq == "lorentz":
        y, cond = _lorentz(A, x_si.ravel())
        return y.reshape(x_si.shape), np.maximum(cond.reshape(x_si.shape), 1.0)
    with np.errstate(all="ignore"):
        y = _uncanon(eq, B, _canon(eq, A, x_si, kw), kw)
    return y, np.full(x_si.shape, 4.0)


CUSTOM_UNITS = {"u_in": 3.0, "u_out": 0.25}


def unit_info(name):
    if name in CUSTOM_UNITS:
        return CUSTOM_UNITS[name], 0.0
    u = Unit(name)
    return float(u.base_value), float(u.base_offset or 0.0)


def to_si(vals, uname):
    bv, off = unit_info(uname)
    return (np.asarray(vals, dtype="f8") - off) * bv


def from_si(si, uname):
    bv, off = unit_info(uname)
    return si / bv + off, off


def feps(dt):
    dt = np.dtype(dt)
    if dt.kind == "f":
        return float(np.finfo(dt).eps)
    if dt.itemsize >= 8:
        return EPS64
    return float(np.finfo("f" + str(max(2, dt.itemsize))).eps)


def rtol_for(dtname, cond, inplace):
    """a few ulps x chain length x condition number; 1e-9 floor for float64"""
    dt = np.dtype(dtname)
    if inplace:
        e = feps(dt)
    else:
        e = feps(dt) if dt.kind == "f" else EPS64
    base = 1e-9 if e <= EPS64 else 64 * e
    return base + 64 * e * cond


def close(actual, expected, rtol, off=0.0):
    a = np.asarray(actual, dtype="f8")
    e = np.asarray(expected, dtype="f8")
    if a.shape != e.shape:
        return False
    with np.errstate(all="ignore"):
        ok = np.abs(a - e) <= rtol * np.abs(e - off) + 1e-300
    return bool(np.all(ok))


# ---------------------------------------------------------------------------------------
# inputs: built by exec'ing the same code that goes into the replay
# ---------------------------------------------------------------------------------------
def input_code(values, uin, container, dtype, reg):
    regarg = ""
    lines = []
    if reg == "fresh":
        lines.append("reg = UnitRegistry()")
        regarg = ", registry=reg"
    elif reg == "cgs":
        lines.append("reg = UnitRegistry(unit_system='cgs')")
        regarg = ", registry=reg"
    elif reg and reg.startswith("custom:"):
        _, dA, dB = reg.split(":")
        lines.append("reg = UnitRegistry()")
        lines.append("reg.add('u_in', 3.0, unyt.dimensions.%s)" % dA)
        lines.append("reg.add('u_out', 0.25, unyt.dimensions.%s)" % dB)
        regarg = ", registry=reg"
    vals = "[" + ", ".join(repr(v) for v in values) + "]"
    if container == "q":
        lines.append("x = unyt_quantity(np.array(%s, dtype=%r)[0], %r%s)" % (vals, dtype, uin, regarg))
    elif container == "a":
        lines.append("x = unyt_array(np.array(%s, dtype=%r), %r%s)" % (vals, dtype, uin, regarg))
    elif container == "0d":
        lines.append("x = unyt_array(np.array(%s, dtype=%r)[0].reshape(()), %r%s)" % (vals, dtype, uin, regarg))
    elif container == "n1":
        lines.append("x = unyt_array(np.array(%s, dtype=%r)[:1], %r%s)" % (vals, dtype, uin, regarg))
    elif container == "2d":
        lines.append("x = unyt_array(np.array(%s, dtype=%r).reshape(2, -1), %r%s)" % (vals, dtype, uin, regarg))
    elif container == "view":
        lines.append("base = unyt_array(np.repeat(np.array(%s, dtype=%r), 2), %r%s)" % (vals, dtype, uin, regarg))
        lines.append("x = base[::2]")
    else:
        raise KeyError(container)
    return "\n".join(lines) + "\n"


def shape_values(values, container):
    v = np.asarray(values, dtype="f8")
    if container in ("q", "0d"):
        return v[0].reshape(())
    if container == "n1":
        return v[:1]
    if container == "2d":
        return v.reshape(2, -1)
    return v


def snapshot(x, base=None):
    s = (np.ascontiguousarray(x.d).tobytes(), str(x.units), float(x.units.base_value), str(x.dtype),
         x.shape, type(x).__name__, repr(x.units.expr))
    if base is not None:
        s = s + (np.ascontiguousarray(base.d).tobytes(), str(base.units))
    return s


SNAP_CODE = ("def snap(x, base=None):\n"
             "    s = (np.ascontiguousarray(x.d).tobytes(), str(x.units), float(x.units.base_value), str(x.dtype), x.shape, type(x).__name__)\n"
             "    if base is not None: s = s + (np.ascontiguousarray(base.d).tobytes(), str(base.units))\n"
             "    return s\n")


class Collector:
    def __init__(self):
        self.ncase = 0
        self.ids = set()
        self.fails = {}
        self.counts = {}
        self.notes = []
        self.samples = []

    def case(self, cid, nontrivial=True, sample=None):
        self.ncase += 1
        if nontrivial:
            self.ids.add(cid)
        if sample is not None and len(self.samples) < 2:
            self.samples.append(sample)

    def fail(self, key, what, replay):
        self.counts[key] = self.counts.get(key, 0) + 1
        if key not in self.fails:
            self.fails[key] = (what, replay)


def mk_ns(code):
    ns = {"np": np, "unyt_array": unyt_array, "unyt_quantity": unyt_quantity, "Unit": Unit,
          "UnitRegistry": UnitRegistry, "unyt": unyt}
    exec(code, ns)
    return ns


def target_code(uout, utype):
    return "U = Unit(%r)\n" % uout if utype == "obj" else "U = %r\n" % uout


def fam_key(check, eq, A, B, dtype, tag=None, narrow=NARROW):
    if tag == "cancelling-unit":
        return "C09[%s:cancelling-unit:%s]" % (check.split(":")[0], eq)
    if dtype in narrow:
        return "C09[%s:narrow-dtype:%s]" % (check.split(":")[0], dtype)
    k = "C09[%s:%s:%s->%s" % (check, eq, A, B)
    if dtype != "float64":
        k += ":" + dtype
    if tag:
        k += ":" + tag
    return k + "]"


def worst(vals, exp, rtol, off):
    """text for the element that is furthest from the formula"""
    try:
        a = np.asarray(vals, dtype="f8").ravel()
        e = np.asarray(exp, dtype="f8").ravel()
        if a.shape != e.shape:
            return "shape %s vs %s" % (np.shape(vals), np.shape(exp))
        with np.errstate(all="ignore"):
            err = np.abs(a - e) / (np.abs(e - off) + 1e-300)
            err = np.where(np.isfinite(err), err, np.inf)
        i = int(np.argmax(err))
        return "element %d: got %r, formula %r (rel.err %.3g, allowed %.3g)" % (
            i, float(a[i]), float(e[i]), float(err[i]), float(np.broadcast_to(rtol, e.shape)[i]))
    except Exception as ex:  # noqa
        return "uncomparable: %r" % (ex,)


def run_combo(col, eq, A, B, uin, uout, kw, values, container="a", dtype="float64", reg=None,
              utype="str", copy_entries=None, inplace_entries=None, do_round=True, tag=None):
    """all checks for one (branch, units, kwargs, values, container, dtype, registry)"""
    copy_entries = COPY_ENTRIES if copy_entries is None else copy_entries
    inplace_entries = INPLACE_ENTRIES if inplace_entries is None else inplace_entries
    icode = input_code(values, uin, container, dtype, reg)
    head = icode + target_code(uout, utype) + "E = %r\nKW = %r\n" % (eq, kw)
    # the target unit as an object, resolved where the library resolves it: the input's registry
    tu_code = "TU = Unit(%r, registry=x.units.registry)\n" % uout
    try:
        ns0 = mk_ns(head + tu_code)
    except Exception as e:  # noqa
        col.notes.append("driver: cannot build input %r: %r" % (icode, e))
        return
    x0 = ns0["x"]
    in_vals = np.asarray(x0.d, dtype="f8")       # what the library actually sees (after dtype cast)
    x_si = to_si(in_vals, uin)
    y_si, cond = oracle_si(eq, A, B, x_si, kw)
    exp, off = from_si(y_si, uout)
    tu = ns0["TU"]
    cid0 = "%s|%s->%s|%s|%s|%s|%s|%s|%s|%s" % (eq, A, B, uin, uout, sorted(kw.items()), container, dtype, reg, utype)
    exp_l = "np.array(%s).reshape(%r)" % ([float(v) for v in exp.ravel()], tuple(exp.shape))
    where = "x=%s %s (%s, %s%s) -> %r %s" % (in_vals.ravel()[:8], uin, container, dtype,
                                             ", registry " + reg if reg else "", uout, kw or "")

    def fmt_rtol(r):
        return "np.array(%s).reshape(%r)" % ([float(v) for v in np.broadcast_to(r, exp.shape).ravel()], tuple(exp.shape))

    # ---- copying call forms: formula, result unit, input untouched --------------------------
    rt_copy = rtol_for(dtype, cond, inplace=False)
    core_ok = True
    names = [CORE] + [n for n in copy_entries if n != CORE] if CORE in copy_entries else list(copy_entries)
    for ename in names:
        expr = copy_entries[ename]
        ns = mk_ns(head)
        x, base = ns["x"], ns.get("base")
        before = snapshot(x, base)
        col.case(cid0 + "|" + ename, sample={"equivalence": eq, "from": uin, "to": uout, "kw": kw,
                                             "call": expr, "values": [float(v) for v in in_vals.ravel()[:3]]})
        # a call form gets a key of its own only where the core form is right
        check = "formula" if ename == CORE else "entry:" + ename
        report = ename == CORE or core_ok
        body_call = ("try:\n    r = %s\nexcept Exception as e:\n    print('raised', repr(e)); sys.exit(1)\n" % expr)
        try:
            r = eval(expr, ns)
        except Exception as e:  # noqa
            if ename == CORE:
                core_ok = False
            if report:
                col.fail(fam_key(check, eq, A, B, dtype, tag),
                         "%s with %s raised %s: %s; formula gives %s %s" % (expr, where, type(e).__name__, e, exp.ravel()[:4], uout),
                         replay_script(head + body_call))
            if snapshot(x, base) != before:
                col.fail(fam_key("pure:" + ename, eq, A, B, dtype, tag), "input changed by a raising copy form %s, %s" % (expr, where),
                         replay_script(SNAP_CODE + head + "b = snap(x, globals().get('base'))\ntry:\n    %s\nexcept Exception as e:\n    print(repr(e))\nsys.exit(1 if snap(x, globals().get('base')) != b else 0)\n" % expr))
            continue
        after = snapshot(x, base)
        if ename == "to_value":
            good_type = isinstance(r, float) if container == "q" else (type(r) is np.ndarray or isinstance(r, np.floating))
            vals = r
            unit_ok = True
        else:
            good_type = isinstance(r, unyt_array) and (container != "q" or isinstance(r, unyt_quantity))
            vals = r.d
            unit_ok = (r.units == tu and str(r.units) == str(tu) and
                       float(r.units.base_value) == float(tu.base_value) and r.units.dimensions == tu.dimensions)
        shape_ok = np.shape(vals) == exp.shape
        if not (shape_ok and close(vals, exp, rt_copy, off) and unit_ok and good_type):
            if ename == CORE:
                core_ok = False
            if report:
                col.fail(fam_key(check, eq, A, B, dtype, tag),
                         "%s with %s returned %s in %s (type %s): %s" % (
                             expr, where, np.asarray(vals).ravel()[:8], getattr(r, "units", "-"), type(r).__name__,
                             worst(vals, exp, rt_copy, off)),
                         replay_script(head + tu_code + body_call +
                                       "exp = %s\nrtol = %s\nv = np.asarray(getattr(r, 'd', r), dtype=float)\n"
                                       "print('got', v, getattr(r, 'units', ''), 'expected', exp, %r)\n"
                                       "bad = v.shape != exp.shape or not np.all(np.abs(v - exp) <= rtol*np.abs(exp - %r) + 1e-300)\n"
                                       "if hasattr(r, 'units'): bad = bad or str(r.units) != str(TU) or r.units.base_value != TU.base_value\n"
                                       "sys.exit(1 if bad else 0)\n" % (exp_l, fmt_rtol(rt_copy), uout, off)))
        # purity: untouched, and the result is a real copy
        pure_ok = after == before
        if pure_ok and isinstance(r, np.ndarray) and r.ndim > 0 and r.size:
            try:
                np.asarray(r).view(np.ndarray)[...] = 0
            except Exception:  # noqa
                pass
            pure_ok = snapshot(x, base) == before
        if not pure_ok:
            col.fail(fam_key("pure:" + ename, eq, A, B, dtype, tag),
                     "input of %s changed (bytes/units/dtype) or the result aliases the input; %s" % (expr, where),
                     replay_script(SNAP_CODE + head + "b = snap(x, globals().get('base'))\nr = %s\n"
                                   "a1 = snap(x, globals().get('base'))\n"
                                   "if isinstance(r, np.ndarray) and r.ndim: np.asarray(r).view(np.ndarray)[...] = 0\n"
                                   "a2 = snap(x, globals().get('base'))\nprint(b[:5]); print(a2[:5])\n"
                                   "sys.exit(1 if (a1 != b or a2 != b) else 0)\n" % expr))

    # reference copy result (fresh, because the purity probe zeroed the earlier ones); only a
    # copy result that itself obeys the formula is used as the yardstick for the in-place form
    ref = None
    try:
        ref = eval(COPY_ENTRIES[CORE], mk_ns(head))
        if not close(ref.d, exp, rt_copy, off):
            ref = None
    except Exception:  # noqa
        ref = None
    copy_raises = False
    if ref is None:
        try:
            eval(COPY_ENTRIES[CORE], mk_ns(head))
        except Exception:  # noqa
            copy_raises = True

    # ---- in-place call forms: same numbers and unit as the copy form and the formula ---------
    rt_in = rtol_for(dtype, cond, inplace=True)
    itag = tag
    if cancelling(uin) and tag not in ('offset-input',):
        itag = "cancelling-unit"
    # the buffer of a narrow dtype can only be asked to hold what its float type represents well
    isz = np.dtype(dtype).itemsize
    representable = True
    if dtype in NARROW_INPLACE and isz in SAFE_RANGE:
        lo, hi = SAFE_RANGE[isz]
        with np.errstate(all="ignore"):
            representable = bool(np.all((np.abs(exp) >= lo) & (np.abs(exp) <= hi)))
    core_in_ok = True
    inames = list(inplace_entries)
    for ename in inames:
        expr = inplace_entries[ename]
        ns = mk_ns(head)
        x, base = ns["x"], ns.get("base")
        before = snapshot(x, base)
        col.case(cid0 + "|" + ename, nontrivial=representable)
        if not representable:
            try:
                eval(expr, ns)
            except Exception:  # noqa
                pass
            continue
        first = ename == inames[0]
        check = "inplace" if first else "inplace-entry:" + ename
        report = first or core_in_ok
        key = fam_key(check, eq, A, B, dtype, itag, narrow=NARROW_INPLACE)
        pre = SNAP_CODE + head + "b = snap(x, globals().get('base'))\n"
        try:
            ret = eval(expr, ns)
        except Exception as e:  # noqa
            untouched = snapshot(x, base) == before
            if isz == 1 and untouched and not copy_raises:
                # a 1-byte buffer cannot hold any float: refusing while leaving the input as it
                # was is the only possible in-place outcome
                continue
            if copy_raises and untouched:
                continue        # the copy form raises too (recorded above); same behaviour
            if first:
                core_in_ok = False
            if report:
                col.fail(key, "%s with %s raised %s: %s (input %s) while the copy form returns %s" % (
                    expr, where, type(e).__name__, str(e)[:120], "untouched" if untouched else "MODIFIED: %r" % (x,), ref),
                    replay_script(pre + "try:\n    %s\nexcept Exception as e:\n    print('raised', repr(e)[:300], 'input now', repr(x)); sys.exit(1)\n" % expr))
            continue
        got_units = x.units
        why = None
        if ret is not None:
            why = "returned %r instead of None" % (ret,)
        elif not (got_units == tu and str(got_units) == str(tu) and float(got_units.base_value) == float(tu.base_value)):
            why = "unit is %s, not %s" % (got_units, tu)
        elif x.shape != exp.shape or not close(x.d, exp, rt_in, off):
            why = "vs formula " + worst(x.d, exp, rt_in, off)
        elif ref is not None:
            # "same numbers and unit as the copying form"
            e_in = feps(dtype) if np.dtype(dtype).kind == "f" or isz < 8 else EPS64
            rt_same = (1e-12 if e_in <= EPS64 else 64 * e_in) + 64 * e_in * cond
            if not (close(x.d, ref.d, rt_same, off) and str(ref.units) == str(got_units)):
                why = "vs copy form " + worst(x.d, ref.d, rt_same, off)
        if why is None and base is not None:
            # neighbours of a strided view must not be written
            nb = np.asarray(base.d)[1::2]
            if not bool(np.all(nb == np.asarray(shape_values(values, "a"), dtype=nb.dtype))):
                why = "elements of the parent array outside the view were written"
        if why is not None:
            if first:
                core_in_ok = False
            if report:
                col.fail(key, "%s with %s left %r: %s" % (expr, where, x, why),
                         replay_script(head + tu_code + "x0 = x.copy()\nref = x0.to_equivalent(U, E, **KW)\nret = %s\n"
                                       "exp = %s\nrtol = %s\nv = np.asarray(x.d, dtype=float)\n"
                                       "print('in-place', repr(x), 'copy', repr(ref), 'expected', exp, %r)\n"
                                       "bad = ret is not None or v.shape != exp.shape or not np.all(np.abs(v - exp) <= rtol*np.abs(exp - %r) + 1e-300)\n"
                                       "bad = bad or str(x.units) != str(TU) or x.units.base_value != TU.base_value\n"
                                       "sys.exit(1 if bad else 0)\n" % (expr, exp_l, fmt_rtol(rt_in), uout, off)))

    # ---- there and back (copy and in-place) ----------------------------------------------------
    if do_round and dtype == "float64" and ref is not None:
        # conditioning of the way back, evaluated at the intermediate value
        _, cond_back = oracle_si(eq, B, A, y_si, kw)
        rt = 1e-9 + 64 * EPS64 * (cond + cond_back + cond * cond_back)
        bv_in, off_in = unit_info(uin)
        col.case(cid0 + "|roundtrip")
        code = head + "r = x.to_equivalent(U, E, **KW)\nback = r.to_equivalent(%r, E, **KW)\n" % uin
        try:
            ns = mk_ns(code)
            back = ns["back"]
            ok = close(back.d, in_vals, rt, off_in) and str(back.units) == str(Unit(uin))
            why = "" if ok else worst(back.d, in_vals, rt, off_in)
        except Exception as e:  # noqa
            ok, back, why = False, e, "raised"
        if not ok:
            col.fail(fam_key("roundtrip", eq, A, B, dtype, tag),
                     "%s and back to %s came back as %r: %s" % (where, uin, back, why),
                     replay_script(code + "rtol = %s\nv = np.asarray(back.d, dtype=float); o = np.asarray(x.d, dtype=float)\n"
                                   "print('orig', o, 'back', v)\n"
                                   "sys.exit(0 if np.all(np.abs(v - o) <= rtol*np.abs(o - %r) + 1e-300) and str(back.units) == str(Unit(%r)) else 1)\n"
                                   % (fmt_rtol(rt), off_in, uin)))
        col.case(cid0 + "|roundtrip-inplace")
        rtag = tag
        if cancelling(uin) or cancelling(uout):
            rtag = "cancelling-unit"
        code = head + ("o = np.array(x.d, dtype=float)\ntry:\n    x.convert_to_equivalent(U, E, **KW)\n    x.convert_to_equivalent(%r, E, **KW)\n"
                       "except RecursionError as e:\n    print('raised RecursionError; input now', repr(x)); sys.exit(1)\n" % uin)
        code_run = head + "x.convert_to_equivalent(U, E, **KW)\nx.convert_to_equivalent(%r, E, **KW)\n" % uin
        try:
            ns = mk_ns(code_run)
            back = ns["x"]
            ok = close(back.d, in_vals, rt, off_in) and str(back.units) == str(Unit(uin))
            why = "" if ok else worst(back.d, in_vals, rt, off_in)
        except Exception as e:  # noqa
            ok, back, why = False, "%s: %s" % (type(e).__name__, str(e)[:100]), "raised"
        if not ok:
            k = fam_key("roundtrip-inplace", eq, A, B, dtype, rtag)
            if rtag == "cancelling-unit":
                k = fam_key("inplace", eq, A, B, dtype, rtag)     # same defect site as the one-way in-place form
            col.fail(k, "in place: %s and back to %s came back as %r: %s" % (where, uin, back, why),
                     replay_script(code + "rtol = %s\nv = np.asarray(x.d, dtype=float)\nprint('orig', o, 'back', v)\n"
                                   "sys.exit(0 if np.all(np.abs(v - o) <= rtol*np.abs(o - %r) + 1e-300) and str(x.units) == str(Unit(%r)) else 1)\n"
                                   % (fmt_rtol(rt), off_in, uin)))
    return ref, (x_si, y_si, cond)


def run_path(col, eq, A, B, Cdim, uin, uout, umid, kw, values):
    """A -> C -> B must agree with A -> B (and with the formula)"""
    head = input_code(values, uin, "a", "float64", None) + "U = %r\nE = %r\nKW = %r\n" % (uout, eq, kw)
    code = head + ("direct = x.to_equivalent(U, E, **KW)\nmid = x.to_equivalent(%r, E, **KW)\n"
                   "via = mid.to_equivalent(U, E, **KW)\n" % umid)
    x_si = to_si(values, uin)
    y_si, c1 = oracle_si(eq, A, B, x_si, kw)
    m_si, c2 = oracle_si(eq, A, Cdim, x_si, kw)
    _, c3 = oracle_si(eq, Cdim, B, m_si, kw)
    rt = 1e-9 + 64 * EPS64 * (c1 + c2 * c3 + c3)
    exp, off = from_si(y_si, uout)
    col.case("%s|path|%s->%s->%s|%s|%s|%s|%s" % (eq, A, Cdim, B, uin, umid, uout, sorted(kw.items())))
    try:
        ns = mk_ns(code)
        ok = close(ns["via"].d, ns["direct"].d, rt, off) and close(ns["via"].d, exp, rt, off) \
            and str(ns["via"].units) == str(ns["direct"].units)
        got = (ns["via"], ns["direct"])
    except Exception as e:  # noqa
        ok, got = False, e
    if not ok:
        col.fail("C09[path:%s:%s->%s->%s]" % (eq, A, Cdim, B),
                 "x=%s %s: via %s then %s vs direct: %r ; formula %s" % (np.asarray(values)[:4], uin, umid, uout, got, exp[:4]),
                 replay_script(code + "rtol = np.array(%s)\nv = np.asarray(via.d, dtype=float); d = np.asarray(direct.d, dtype=float)\n"
                               "print('via', v, 'direct', d)\n"
                               "sys.exit(0 if np.all(np.abs(v - d) <= rtol*np.abs(d - %r) + 1e-300) else 1)\n" % ([float(v) for v in rt], off)))


# ---------------------------------------------------------------------------------------
# value generators (physical domain)
# ---------------------------------------------------------------------------------------
def gen_values(rng, eq, A, uin, n):
    bv, _ = unit_info(uin)
    if eq == "lorentz" and A == "velocity":
        out = []
        for i in range(n):
            if i % 2:
                beta = 10 ** (-rng.uniform(0.0, 5.0))
            else:
                beta = 1.0 - 10 ** (-rng.uniform(0.3, 5.0))
            out.append(beta * CL / bv)
        return out
    if eq == "lorentz":
        return [(1.0 + 10 ** rng.uniform(-6.0, 4.0)) / bv for _ in range(n)]
    return [rng.uniform(1.0, 10.0) * 10 ** rng.randint(-15, 14) for _ in range(n)]


def pinned_values(eq, A, uin, kind):
    """deterministic witnesses inside the physical domain, used for non-float64 inputs"""
    bv, _ = unit_info(uin)
    if kind == "int":
        cands = [1, 2, 7, 100, 1000, 50000, 100000, 3000000000]
    elif kind == "narrow":
        cands = [1, 2, 100]
    else:
        cands = [1.5, 2.25, 0.003, 7000.0, 1.0, 64.0]
    if eq == "lorentz" and A == "velocity":
        cands = [c for c in cands if c * bv < 0.9999 * CL]
    if eq == "lorentz" and A == "dimensionless":
        cands = [c for c in cands if c * bv >= 1.0 and c * bv < 1e6]
        if kind != "int" and kind != "narrow":
            cands = [c for c in cands if c * bv > 1.0]
    if kind == "narrow":
        return cands[:2] if len(cands) >= 2 else []
    if kind == "int":
        return cands if len(cands) >= 2 else []
    return cands[:4] if len(cands) >= 2 else []


# ---------------------------------------------------------------------------------------
# one task = one branch (equivalence, A -> B)
# ---------------------------------------------------------------------------------------
def task_branch(args):
    eq, A, B, ki, seed, thorough = args
    col = Collector()
    rng = random.Random("%s|%s|%s|%s|%s" % (seed, eq, A, B, ki))
    members, kws_all = EQUIVS[eq]
    kws = [kws_all[ki]]
    try:
        nin = len(UNITS[A]) if thorough else 5
        nout = len(UNITS[B]) if thorough else 5
        uins, uouts = UNITS[A][:nin], UNITS[B][:nout]
        i = 0
        for kw in kws:
            for uin in uins:
                for uout in uouts:
                    i += 1
                    utype = "obj" if i % 3 == 0 else "str"
                    n = 6 if not thorough else 10
                    # full call-form set on the array; quantity gets the full set on a rotating third
                    run_combo(col, eq, A, B, uin, uout, kw, gen_values(rng, eq, A, uin, n), "a", "float64",
                              utype=utype)
                    if thorough or i % 3 == 1 or (uin == uins[0] and uout == uouts[0]):
                        run_combo(col, eq, A, B, uin, uout, kw, gen_values(rng, eq, A, uin, 1), "q", "float64",
                                  utype=utype)
            # exact end points of linear / lorentz maps
            if eq in ("thermal", "mass_energy", "schwarzschild", "number_density") or eq == "lorentz":
                v0 = [0.0, 0.0] if not (eq == "lorentz" and A == "dimensionless") else [1.0, 1.0]
                if eq == "lorentz" and A == "dimensionless":
                    run_combo(col, eq, A, B, "", uouts[0], kw, v0, "a", "float64", do_round=False, tag="endpoint")
                else:
                    run_combo(col, eq, A, B, uins[0], uouts[0], kw, v0, "a", "float64", do_round=False, tag="endpoint")
            # via an intermediate member (including the two end dimensions in other units)
            for Cdim in members:
                mids = UNITS[Cdim][: (len(UNITS[Cdim]) if thorough else 3)]
                for umid in mids:
                    for (uin, uout) in ([(uins[0], uouts[0]), (uins[1], uouts[2]), (uins[3], uouts[1])] if not thorough
                                        else [(a, b) for a in uins[:6] for b in uouts[:6]]):
                        if umid == uin or umid == uout:
                            continue
                        run_path(col, eq, A, B, Cdim, uin, uout, umid, kw, gen_values(rng, eq, A, uin, 5))
        # containers, dtypes, registries on a fixed set of unit pairs (default + last kwargs)
        pairs = [(uins[0], uouts[0]), (uins[1], uouts[1]), (uins[2], uouts[3])]
        if thorough:
            pairs += [(uins[3], uouts[2]), (uins[4], uouts[4])]
        for kw in (kws if ki < 2 else []):
            for (uin, uout) in pairs:
                for cont in ("0d", "n1", "2d", "view"):
                    run_combo(col, eq, A, B, uin, uout, kw, gen_values(rng, eq, A, uin, 6), cont, "float64",
                              do_round=False)
                for reg in ("fresh", "cgs"):
                    run_combo(col, eq, A, B, uin, uout, kw, gen_values(rng, eq, A, uin, 4), "a", "float64",
                              reg=reg, do_round=False, tag="registry-" + reg)
                    run_combo(col, eq, A, B, uin, uout, kw, gen_values(rng, eq, A, uin, 1), "q", "float64",
                              reg=reg, do_round=False, tag="registry-" + reg)
                for dt in ("float32", "int64", "int32", "float16", "int16", "int8", "uint8"):
                    kind = "int" if dt in ("int64", "int32") else ("narrow" if dt in NARROW else "f32")
                    vals = pinned_values(eq, A, uin, kind)
                    if dt == "int32":
                        vals = [v for v in vals if v < 2 ** 31]
                    if len(vals) < 2:
                        continue
                    for cont in ("a", "q"):
                        run_combo(col, eq, A, B, uin, uout, kw, vals, cont, dt, do_round=False)
            # symbols that exist only in the input's own registry
            creg = "custom:%s:%s" % (A, B)
            for (ui, uo) in (("u_in", "u_out"), ("u_in", uouts[0]), (uins[0], "u_out")):
                for cont in ("a", "q"):
                    run_combo(col, eq, A, B, ui, uo, kw, gen_values(rng, eq, A, ui, 4), cont, "float64",
                              reg=creg, do_round=False, tag="registry-custom")
        # offset temperature units as target (works) and as input (the formula is still defined)
        if B == "temperature" and ki == len(kws_all) - 1:
            for ou in OFFSET_UNITS:
                for uin in uins[:3]:
                    run_combo(col, eq, A, B, uin, ou, kws[-1], gen_values(rng, eq, A, uin, 5), "a", "float64",
                              do_round=False, tag="offset-target")
        if A == "temperature" and ki == len(kws_all) - 1:
            for ou in OFFSET_UNITS:
                for uout in uouts[:2]:
                    run_combo(col, eq, A, B, ou, uout, kws[-1], [25.0, 300.0, 1.0e4, 5.5e6], "a", "float64",
                              do_round=False, tag="offset-input",
                              copy_entries={CORE: COPY_ENTRIES[CORE], "to": COPY_ENTRIES["to"]},
                              inplace_entries={"convert_to_equivalent": INPLACE_ENTRIES["convert_to_equivalent"]})
    except Exception as e:  # noqa
        import traceback
        col.notes.append("driver error in %s %s->%s: %r %s" % (eq, A, B, e, traceback.format_exc()[-400:]))
    return col


def task_samedim(args):
    """same-dimension request with an equivalence given = ordinary unit conversion, pure"""
    eq, seed, thorough = args
    col = Collector()
    rng = random.Random("%s|same|%s" % (seed, eq))
    members, kws = EQUIVS[eq]
    try:
        for A in members:
            us = UNITS[A][: (8 if thorough else 4)]
            for uin in us:
                for uout in us:
                    run_combo(col, eq, A, A, uin, uout, kws[-1], gen_values(rng, eq, A, uin, 4), "a", "float64",
                              do_round=False, tag="same-dimension",
                              copy_entries={k: COPY_ENTRIES[k] for k in (CORE, "to", "to_value")},
                              inplace_entries={k: INPLACE_ENTRIES[k] for k in ("convert_to_equivalent", "convert_to_units")})
    except Exception as e:  # noqa
        col.notes.append("driver error in same-dimension %s: %r" % (eq, e))
    return col


def task_uncovered(args):
    """requests the equivalence does not cover must raise InvalidUnitEquivalence (all call forms)
    and leave the input as it was"""
    eq, seed, thorough = args
    col = Collector()
    members, kws = EQUIVS[eq]
    alld = {d: UNITS[d][0] for d in UNITS}
    alld["dimensionless"] = "dimensionless"
    alld.update(EXTRA_DIMS)
    kw = kws[-1]
    entries = dict(COPY_ENTRIES)
    entries.update(INPLACE_ENTRIES)
    try:
        for D, ud in alld.items():
            if D in members:
                continue
            mems = members if thorough else [members[0], members[-1]]
            for M in mems:
                ums = UNITS[M][: (3 if thorough else 2)]
                for um in ums:
                    for (uin, uout, way) in ((ud, um, "foreign-input"), (um, ud, "foreign-target")):
                        for cont, vals in (("a", [1.5, 2.5]), ("q", [2.0])):
                            head = input_code(vals, uin, cont, "float64", None) + "U = %r\nE = %r\nKW = %r\n" % (uout, eq, kw)
                            for ename, expr in entries.items():
                                ns = mk_ns(head)
                                x = ns["x"]
                                before = snapshot(x)
                                col.case("%s|uncovered|%s|%s->%s|%s|%s" % (eq, way, uin, uout, cont, ename))
                                try:
                                    r = eval(expr, ns)
                                    outcome = "returned %r" % (r if r is not None else x,)
                                except InvalidUnitEquivalence:
                                    outcome = None
                                except Exception as e:  # noqa
                                    outcome = "raised %s: %s" % (type(e).__name__, e)
                                key = "C09[uncovered:%s:%s:%s]" % (eq, way, ename.split("-")[0])
                                rep = replay_script(SNAP_CODE + head + "b = snap(x)\ntry:\n    r = %s\n"
                                                    "except unyt.exceptions.InvalidUnitEquivalence:\n"
                                                    "    sys.exit(1 if snap(x) != b else 0)\n"
                                                    "except Exception as e:\n    print('raised', repr(e)); sys.exit(1)\n"
                                                    "print('returned', repr(r), repr(x)); sys.exit(1)\n" % expr)
                                if outcome is not None:
                                    col.fail(key, "%s with x in %r, target %r (%s not related by %s) %s instead of raising InvalidUnitEquivalence"
                                             % (expr, uin, uout, D, eq, outcome), rep)
                                elif snapshot(x) != before:
                                    col.fail(key + "-modified", "%s raised but left the input as %r" % (expr, x), rep)
    except Exception as e:  # noqa
        col.notes.append("driver error in uncovered %s: %r" % (eq, e))
    return col


def run_task(t):
    import warnings
    warnings.filterwarnings("ignore")
    np.seterr(all="ignore")
    return {"branch": task_branch, "same": task_samedim, "uncovered": task_uncovered}[t[0]](t[1])


def main():
    R = Run("C09",
            "9 equivalences x all 32 ordered pairs of distinct member dimensions x cross product of "
            "5 (quick) / all listed (thorough) input and target units per dimension (string and Unit-object "
            "targets) x keyword sets (mu, gamma; default and non-default) x 6-10 random values over 30 decades "
            "(lorentz: beta in [1e-5, 1-1e-5], gamma-1 in [1e-6, 1e4]) x 9 call forms (6 copying, 3 in-place), "
            "each compared with the closed-form formula on SI magnitudes; plus there-and-back (copy and "
            "in-place), via-intermediate paths through every member dimension, containers (quantity, 0-d, "
            "size-1, 2-D, strided view), dtypes f32/f16/i64/i32/i16/i8/u8 on pinned values, fresh/cgs/custom-"
            "symbol registries, degC/degF as target and as input, exact end points, same-dimension requests "
            "and requests the equivalence does not cover (14-19 foreign dimensions x both directions x all call "
            "forms). One case = one call of one form; non-trivial = distinct (branch, units, kwargs, container, "
            "dtype, registry, call form) whose expected value the buffer dtype can represent",
            "unit lists of 5-17 names per dimension, values 1e-15..1e15 in the input unit, seeded; "
            "float64 rtol 1e-9 + 64 eps x condition number")
    # validate the unit lists against the library's dimension objects
    for d, names in list(UNITS.items()):
        good = []
        for n in names:
            try:
                if Unit(n).dimensions == DIMOBJ[d]:
                    good.append(n)
                else:
                    R.notes.append("unit %r is not of dimension %s; dropped" % (n, d))
            except Exception as e:  # noqa
                R.notes.append("unit %r does not parse (%r); dropped" % (n, e))
        UNITS[d] = good
    from unyt.equivalencies import equivalence_registry
    if sorted(equivalence_registry) != sorted(EQUIVS):
        R.case("registry")
        R.fail("C09[registry:names]", "equivalence_registry has %s, expected %s" % (sorted(equivalence_registry), sorted(EQUIVS)),
               replay_script("from unyt.equivalencies import equivalence_registry as r\nprint(sorted(r))\nsys.exit(1 if sorted(r) != %r else 0)\n" % sorted(EQUIVS)))
    for eq, (members, _) in EQUIVS.items():
        cls = equivalence_registry.get(eq)
        R.case("registry|" + eq)
        if cls is None or set(cls._dims) != set(DIMOBJ[m] for m in members):
            R.fail("C09[registry:%s]" % eq, "member dimensions of %s are %s, expected %s" % (eq, getattr(cls, "_dims", None), members),
                   replay_script("from unyt.equivalencies import equivalence_registry as r\nprint(r[%r]._dims)\nsys.exit(1)\n" % eq))

    seed, th = R.args.seed, R.thorough
    tasks = []
    for eq, (members, _) in EQUIVS.items():
        for A in members:
            for B in members:
                if A != B:
                    for ki in range(len(EQUIVS[eq][1])):
                        tasks.append(("branch", (eq, A, B, ki, seed, th)))
        tasks.append(("same", (eq, seed, th)))
        tasks.append(("uncovered", (eq, seed, th)))
    # long tasks first: branches that also carry the dtype / container / registry variants
    tasks.sort(key=lambda t: (t[0] != "branch", t[1][3] if t[0] == "branch" else 0))
    nproc = min(16, os.cpu_count() or 4)
    try:
        ctx = multiprocessing.get_context("fork")
        with ctx.Pool(nproc) as pool:
            cols = pool.map(run_task, tasks, chunksize=1)
    except Exception as e:  # noqa
        R.notes.append("multiprocessing unavailable (%r); running serially" % (e,))
        cols = [run_task(t) for t in tasks]
    allfails = {}
    counts = {}
    for col in cols:
        R.evaluations += col.ncase
        R.keys |= col.ids
        for s in col.samples:
            if len(R.samples) < 6:
                R.samples.append(s)
        R.notes.extend(col.notes[:5])
        for k, v in col.fails.items():
            allfails.setdefault(k, v)
        for k, n in col.counts.items():
            counts[k] = counts.get(k, 0) + n
    for k in sorted(allfails):
        what, rep = allfails[k]
        R.fail(k, "[%d cases] %s" % (counts[k], what), rep)
    R.finish()


if __name__ == "__main__":
    main()
