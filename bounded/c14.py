"""C14 bounded/exhaustive stand-in: every documented unit name resolves to exactly one,
correctly scaled unit -- on the real, imported package.  The name space is finite, so the
enumeration is complete (exhaustive: true)."""
import math
import sys, os
sys.path.insert(0, os.path.dirname(os.path.abspath(__file__)))
from common import Run, replay_script, safe

import unyt
from unyt import Unit, UnitRegistry
from unyt._unit_lookup_table import (default_unit_symbol_lut as LUT, unit_prefixes,
                                     default_unit_name_alternatives as ALT, name_alternatives,
                                     inv_name_alternatives)
from unyt.exceptions import UnitParseError
from unyt.unit_systems import add_symbols
import unyt.unit_symbols as US

R = Run("C14", "every name in name_alternatives/inv_name_alternatives, every attribute of "
        "unyt.unit_symbols and the unyt namespace, every (prefix spelling x prefixable symbol/alias), "
        "every (prefix x non-prefixable symbol); non-trivial = name differs from a plain table symbol",
        "finite name space enumerated completely")

MICRO = {"u", "μ", "µ"}


def expect(prefix_value, key):
    row = LUT[key]
    return row[0] * prefix_value, row[1], row[2]


def same(u, scale, dim, offset):
    return (u.dimensions == dim and math.isclose(u.base_value, scale, rel_tol=1e-13)
            and (u.base_offset == offset or math.isclose(u.base_offset, offset)))


def check(name, scale, dim, offset, how):
    st, u = safe(Unit, name)
    key = "C14[%s:%s]" % (how, name)
    R.case(key, nontrivial=(name not in LUT), sample={"name": name, "how": how})
    if st == "exc":
        R.fail(key, "Unit(%r) raised %r" % (name, u),
               replay_script("try:\n    unyt.Unit(%r)\nexcept Exception as e:\n    print(repr(e)); sys.exit(1)\n" % name))
        return None
    if not same(u, scale, dim, offset):
        R.fail(key, "Unit(%r) = scale %r dim %s offset %r, expected scale %r dim %s offset %r" % (
            name, u.base_value, u.dimensions, u.base_offset, scale, dim, offset),
            replay_script("u = unyt.Unit(%r)\nprint(u.base_value, u.dimensions, u.base_offset)\n"
                          "sys.exit(1 if abs(u.base_value - %r) > 1e-12*abs(%r) else 0)\n" % (name, scale, scale)))
    return u


# 1. table symbols
for k in LUT:
    check(k, *expect(1.0, k), how="symbol")

# 2. independent reading of every alternative name: symbol | alias | prefix(+word) + symbol/alias
reading = {}            # name -> (prefix_value, key), table symbol / alias reading wins
for k in LUT:
    reading[k] = (1.0, k)
for k, alts in ALT.items():
    for a in alts:
        reading.setdefault(a, (1.0, k))
        if a.islower() and len(a) >= 4:
            reading.setdefault(a.title(), (1.0, k))
for k, row in LUT.items():
    if len(k) > 3 and k.title() != k and all(len(p) > 3 for p in k.split("_")) and not row[4]:
        reading.setdefault(k.title(), (1.0, k))
ambiguous = []
for k, row in LUT.items():
    if not row[4]:
        continue
    spellings = [k] + list(ALT.get(k, ()))
    for p, (pv, word) in unit_prefixes.items():
        for sp in spellings:
            cands = []
            if sp == k or len(sp) < 4:
                cands.append(p + sp)
            if sp != k:
                cands += [word + sp, (word + sp).title()]
            for n in cands:
                if n in reading and reading[n] != (pv, k):
                    r0 = reading[n]
                    if not (math.isclose(r0[0] * LUT[r0[1]][0], pv * row[0]) and LUT[r0[1]][1] == row[1]):
                        ambiguous.append((n, reading[n], (pv, k)))
                    continue
                reading[n] = (pv, k)

for n in sorted(set(inv_name_alternatives) | set(reading)):
    if n == "":
        continue
    if n not in reading:
        R.case("C14[noreading:%s]" % n)
        R.fail("C14[noreading:%s]" % n, "name %r is exported by the library but the independent "
               "splitter has no reading for it" % n)
        continue
    pv, k = reading[n]
    u = check(n, *expect(pv, k), how="name")
    if u is None:
        continue
    # same unit by attribute (unit_symbols, top-level namespace unless a constant wins)
    if n.isidentifier():
        a = getattr(US, n, None)
        if a is not None:
            R.case("C14[attr:%s]" % n)
            if not (a == u):
                R.fail("C14[attr:%s]" % n, "unit_symbols.%s = %r differs from Unit(%r) = %r" % (n, a, n, u))
        top = getattr(unyt, n, None)
        if isinstance(top, Unit):
            R.case("C14[top:%s]" % n)
            if not (top == u):
                R.fail("C14[top:%s]" % n, "unyt.%s = %r differs from Unit(%r)" % (n, top, n))

# 3. strings with two readings: the table symbol / alias reading must win
for n, first, second in ambiguous:
    R.case("C14[ambiguous:%s]" % n, sample={"name": n, "wins": first, "loses": second})
    st, u = safe(Unit, n)
    pv, k = first
    if st == "exc" or not same(u, *expect(pv, k)):
        R.fail("C14[ambiguous:%s]" % n, "%r has readings %s and %s; resolved to %r" % (n, first, second, u))

# 4. non-prefixable units never accept a prefix (unless that string is itself a name)
for k, row in LUT.items():
    if row[4]:
        continue
    for p in unit_prefixes:
        n = p + k
        if n in reading or n in inv_name_alternatives:
            continue
        R.case("C14[noprefix:%s]" % n)
        st, u = safe(Unit, n)
        if st != "exc" or not isinstance(u, UnitParseError):
            R.fail("C14[noprefix:%s]" % n, "prefix %r accepted on non-prefixable %r: %r" % (p, k, u),
                   replay_script("try:\n    u = unyt.Unit(%r)\nexcept unyt.exceptions.UnitParseError:\n    sys.exit(0)\nprint(u); sys.exit(1)\n" % n))

# 5. custom registry namespace: same names, same units
reg = UnitRegistry()
ns = {}
add_symbols(ns, reg)
for n, v in vars(US).items():
    if n.startswith("_") or not isinstance(v, Unit):
        continue
    R.case("C14[ns:%s]" % n)
    w = ns.get(n)
    if w is None or not (w == v) or w.registry is not reg:
        R.fail("C14[ns:%s]" % n, "add_symbols namespace entry %s = %r vs unit_symbols %r" % (n, w, v))

R.exhaustive = True
R.finish()
