"""History machinery for the C12 bounded driver.

A *history* is a sequence of operation names applied to ONE custom UnitRegistry.  The oracle
is a net table T (symbol -> (scale, dimension, offset, prefixable)) that is updated from the
documented meaning of add / modify / remove / define_unit only -- never from reg.lut, because
looking a prefixed symbol up writes a derived row into reg.lut.  What a string resolves to is
computed from T by plain arithmetic (prefix value x scale, product over factors).  A real fresh
registry holding T is consulted as a second opinion (`fresh-registry` family).

Two observation regimes:
  dense  : after every operation ALL probes are evaluated (fills every memo layer as early as
           possible)
  sparse : only the observation operations that are part of the history are evaluated, then
           all probes once at the end
Any discrepancy is a violation in either regime, because the probes are themselves legal calls
and therefore part of a (longer) history.

Failure keys:  C12[cold:<edit family>:<probe class>] when NO observation call preceded the last
edit of the history (no memo layer can hold anything: the edit itself, or the cold resolution path,
is wrong), otherwise C12[stale:<edit family>:<probe class>] where <edit family> is the most recent
edit operation that changed what the probe must resolve to (computed from the oracle alone) and
<probe class> says which memo layers the probe goes through:
  atomic    Unit("foo")                     per-registry string->Unit memo only
  compound  Unit("foo/s"), Unit("foo*qux")   per-registry string->Unit memo only
  prefixed  Unit("kfoo"), "kfoo**2", ...     string->Unit memo + derived row in the table
  lookup    "kfoo" in reg, reg["kfoo"]       derived row in the table only
"""
import math

import numpy as np

import unyt
from unyt import Unit, UnitRegistry, unyt_array, unyt_quantity, define_unit  # noqa
from unyt import dimensions as _d
from unyt._unit_lookup_table import default_unit_symbol_lut as DLUT, unit_prefixes

PREFIX = {p: v[0] for p, v in unit_prefixes.items()}
RTOL = 1e-12

# --------------------------------------------------------------------------------------
# code shared verbatim between the driver and the generated replay scripts
# --------------------------------------------------------------------------------------
SHARED_SRC = r'''
import math
import numpy as np
import unyt
from unyt import Unit, UnitRegistry, unyt_array, unyt_quantity, define_unit
from unyt import dimensions as _d
from unyt._unit_lookup_table import default_unit_symbol_lut as DLUT

def mk_registry(base):
    if base == "defaults":
        return UnitRegistry()
    return UnitRegistry(add_default_symbols=False, lut={k: DLUT[k] for k in ("m", "s", "g", "K")})

def p_unit(r, st, s):
    u = Unit(s, registry=r)
    st.setdefault("old_units", [])
    if len(st["old_units"]) < 40 and all(u is not o[0] for o in st["old_units"]):
        st["old_units"].append((u, u.base_value, u.dimensions, u.base_offset, str(u.expr)))
    return (u.base_value, u.base_offset), u.dimensions, u.registry is r

def p_contains(r, st, s):
    return (1.0 if s in r else 0.0,), None, True

def p_getitem(r, st, s):
    row = r[s]
    return (row[0], row[2]), row[1], True

def p_arr(r, st, s):
    a = unyt_array([1.0, 2.0], s, registry=r)
    if st.get("old_arr") is None:
        st["old_arr"] = (a, tuple(a.value * a.units.base_value), a.units.dimensions)
    return (a.units.base_value,) + tuple(a.value), a.units.dimensions, a.units.registry is r

def p_conv(r, st, s, t):
    b = unyt_array([1.0, 2.0], s, registry=r).to(t)
    return tuple(b.value) + (b.units.base_value,), b.units.dimensions, b.units.registry is r

def p_mulA(r, st, s, t):
    c = unyt_array([1.0, 2.0], s, registry=r) * unyt_array([3.0, 4.0], t, registry=r)
    return tuple(np.asarray(c.value) * c.units.base_value), c.units.dimensions, c.units.registry is r

def p_divA(r, st, s, t):
    c = unyt_array([1.0, 2.0], s, registry=r) / unyt_array([4.0, 8.0], t, registry=r)
    return tuple(np.asarray(c.value) * c.units.base_value), c.units.dimensions, c.units.registry is r

def p_mulU(r, st, s, t):
    u = Unit(s, registry=r) * Unit(t, registry=r)
    return (u.base_value, u.base_offset), u.dimensions, u.registry is r

def p_old_to(r, st, s):
    if st.get("old_arr") is None:
        return None
    b = st["old_arr"][0].to(s)
    return tuple(b.value), b.units.dimensions, True

def p_old_base(r, st):
    if st.get("old_arr") is None:
        return None
    b = st["old_arr"][0].in_base("mks")
    return tuple(np.asarray(b.value) * b.units.base_value), b.units.dimensions, True

def p_old_units(r, st):
    for (u, bv, dims, off, ex) in st.get("old_units", []):
        if u.base_value != bv or u.dimensions != dims or u.base_offset != off or str(u.expr) != ex:
            return (0.0,), None, True
    return (1.0,), None, True

def observe(fn, *a):
    try:
        o = fn(*a)
    except Exception as e:
        return ("exc", type(e).__name__)
    if o is None:
        return ("skip",)
    return ("ok", tuple(float(x) for x in o[0]), None if o[1] is None else str(o[1]), bool(o[2]))

def same(got, want, rtol=1e-12):
    if got[0] != want[0]:
        return False
    if got[0] == "skip":
        return True
    if got[0] == "exc":
        return got[1] == want[1]
    if len(got[1]) != len(want[1]) or got[2] != want[2] or got[3] != want[3]:
        return False
    return all(math.isclose(a, b, rel_tol=rtol, abs_tol=0.0) or a == b for a, b in zip(got[1], want[1]))

def clear_process_caches():
    import unyt.array as _a, unyt.unit_object as _uo
    for mod in (_a, _uo):
        for f in vars(mod).values():
            if hasattr(f, "cache_clear"):
                try:
                    f.cache_clear()
                except Exception:
                    pass
'''
exec(SHARED_SRC, globals())

DIMS = {"length": _d.length, "time": _d.time, "mass": _d.mass}


# --------------------------------------------------------------------------------------
# configuration: which symbols play the roles F (focus, prefixable), Q (second, prefixable),
# Z (third, never prefixable) and which base table the registry starts from
# --------------------------------------------------------------------------------------
class Cfg:
    def __init__(self, base="small", F="foo", Q="qux", Z="baz"):
        self.base, self.F, self.Q, self.Z = base, F, Q, Z

    def table0(self):
        """net table of a fresh registry of this configuration"""
        if self.base == "defaults":
            src = DLUT
        else:
            src = {k: DLUT[k] for k in ("m", "s", "g", "K")}
        return {k: (float(v[0]), v[1], float(v[2]), bool(v[4])) for k, v in src.items()}

    def tag(self):
        return "%s/%s" % (self.base, self.F)


def tkey(cfg, T):
    out = []
    for s in (cfg.F, cfg.Q, cfg.Z):
        r = T.get(s)
        out.append(None if r is None else (r[0], str(r[1]), r[2], r[3]))
    return tuple(out)


def resolve_atom(T, name):
    if name in T:
        r = T[name]
        return r[0], r[1], r[2]
    hits = []
    for p, pv in PREFIX.items():
        if name.startswith(p):
            rest = name[len(p):]
            r = T.get(rest)
            if r is not None and r[3]:
                hits.append((pv * r[0], r[1], r[2]))
    if len(hits) == 1:
        return hits[0]
    if len(hits) > 1:        # does not happen for the probe alphabet; be loud if it does
        raise RuntimeError("ambiguous prefixed name in driver alphabet: %r" % name)
    return None


def resolve(T, factors):
    """factors: [(name, exponent)] -> (value, dims, offset) or None (unknown symbol)"""
    val, dims = 1.0, 1
    off = 0.0
    for name, e in factors:
        r = resolve_atom(T, name)
        if r is None:
            return None
        val *= r[0] ** e
        dims = dims * r[1] ** e
        if len(factors) == 1 and e == 1:
            off = r[2]
    return val, dims, off


def fstr(factors):
    """spelling used for a factor list"""
    num = [n if e == 1 else "%s**%d" % (n, e) for n, e in factors if e > 0]
    den = [n if e == -1 else "%s**%d" % (n, -e) for n, e in factors if e < 0]
    s = "*".join(num) if num else "1"
    for d in den:
        s += "/" + d
    return s


# --------------------------------------------------------------------------------------
# probes
# --------------------------------------------------------------------------------------
class Probe:
    def __init__(self, pid, cls, fn, args, expect, multi=False, attr=None):
        self.pid, self.cls, self.fn, self.args, self.expect = pid, cls, fn, args, expect
        self.multi = multi          # involves two of the edited symbols: keyed without edit family
        self.attr = attr or pid     # probe whose expectation history names the responsible edit

    def real(self, reg, st):
        return observe(self.fn, reg, st, *self.args)

    def code(self, regname="reg"):
        return "observe(%s, %s, st%s)" % (self.fn.__name__, regname,
                                           "".join(", %r" % a for a in self.args))


def _ok(vals, dims, bound=True):
    return ("ok", tuple(float(v) for v in vals), None if dims is None else str(dims), bound)


def make_probes(cfg):
    F, Q, Z = cfg.F, cfg.Q, cfg.Z
    P = []

    def unit_probe(factors, cls):
        s = fstr(factors)

        def expect(T, st, factors=factors):
            r = resolve(T, factors)
            if r is None:
                return ("exc", "UnitParseError")
            return _ok((r[0], r[2]), r[1])
        roles = sum(1 for sym in (F, Q, Z) if any(n == sym or n[1:] == sym for n, _ in factors))
        P.append(Probe("Unit(%s)" % s, cls, p_unit, (s,), expect, multi=roles > 1))

    unit_probe([(F, 1)], "atomic")
    unit_probe([("k" + F, 1)], "prefixed")
    unit_probe([("m" + F, 1)], "prefixed")
    unit_probe([(F, 1), ("s", -1)], "compound")
    unit_probe([("k" + F, 2)], "prefixed")
    unit_probe([("s", 1), ("k" + F, -1)], "prefixed")
    unit_probe([(F, 1), (Q, 1)], "compound")
    unit_probe([(Q, 1)], "atomic")
    unit_probe([("M" + Q, 1)], "prefixed")
    unit_probe([("m" + Q, 1), ("m", -1)], "prefixed")
    unit_probe([(Z, 1)], "atomic")
    unit_probe([("k" + Z, 1)], "prefixed")
    unit_probe([(Z, 1), (F, -2)], "compound")

    def contains_probe(name):
        def expect(T, st):
            return _ok((1.0 if resolve_atom(T, name) is not None else 0.0,), None)
        P.append(Probe("%s in reg" % name, "lookup", p_contains, (name,), expect))

    def getitem_probe(name):
        def expect(T, st):
            r = resolve_atom(T, name)
            if r is None:
                return ("exc", "SymbolNotFoundError")
            return _ok((r[0], r[2]), r[1])
        P.append(Probe("reg[%s]" % name, "lookup", p_getitem, (name,), expect))

    contains_probe(F)
    contains_probe("k" + F)
    getitem_probe("k" + F)
    getitem_probe("m" + Q)
    contains_probe("k" + Z)

    def arr_expect(T, st):
        r = resolve(T, [(F, 1)])
        if r is None:
            return ("exc", "UnitParseError")
        return _ok((r[0], 1.0, 2.0), r[1])
    P.append(Probe("array(%s)" % F, "atomic", p_arr, (F,), arr_expect))

    def conv_probe(s, t, cls):
        def expect(T, st):
            a, b = resolve_atom(T, s), resolve_atom(T, t)
            if a is None or b is None:
                return ("exc", "UnitParseError")
            if a[1] != b[1]:
                return ("exc", "UnitConversionError")
            return _ok((a[0] / b[0], 2.0 * a[0] / b[0], b[0]), b[1])
        P.append(Probe("array(%s).to(%s)" % (s, t), cls, p_conv, (s, t), expect))

    conv_probe("k" + F, "m", "prefixed")
    conv_probe("m", F, "atomic")

    def bin_probe(fn, label, s, t, sign, data, cls):
        def expect(T, st):
            a, b = resolve_atom(T, s), resolve_atom(T, t)
            if a is None or b is None:
                return ("exc", "UnitParseError")
            k = a[0] * b[0] ** sign
            return _ok((data[0] * k, data[1] * k), a[1] * b[1] ** sign)
        P.append(Probe("array(%s)%sarray(%s)" % (s, label, t), cls, fn, (s, t), expect,
                       multi=(t == Q)))

    bin_probe(p_mulA, "*", F, "s", 1, (3.0, 8.0), "atomic")
    bin_probe(p_mulA, "*", F, Q, 1, (3.0, 8.0), "atomic")
    bin_probe(p_divA, "/", "k" + F, "m", -1, (0.25, 0.25), "prefixed")

    def mulU_expect(T, st):
        a, b = resolve_atom(T, F), resolve_atom(T, Q)
        if a is None or b is None:
            return ("exc", "UnitParseError")
        return _ok((a[0] * b[0], 0.0), a[1] * b[1])
    P.append(Probe("Unit(%s)*Unit(%s)" % (F, Q), "atomic", p_mulU, (F, Q), mulU_expect, multi=True))

    def old_to_probe(name, cls):
        def expect(T, st):
            if st.get("old_arr") is None:
                return ("skip",)
            r = resolve_atom(T, name)
            if r is None:
                return ("exc", "UnitParseError")
            _, si, dims = st["old_arr"]
            if dims != r[1]:
                return ("exc", "UnitConversionError")
            return _ok((si[0] / r[0], si[1] / r[0]), r[1])
        P.append(Probe("old_array.to(%s)" % name, cls, p_old_to, (name,), expect, attr="Unit(%s)" % name))

    old_to_probe(F, "atomic")
    old_to_probe("k" + F, "prefixed")

    def old_base_expect(T, st):
        if st.get("old_arr") is None:
            return ("skip",)
        _, si, dims = st["old_arr"]
        return _ok(si, dims)
    P.append(Probe("old_array.in_base", "old-object", p_old_base, (), old_base_expect))
    P.append(Probe("old_units_unchanged", "old-object", p_old_units, (),
                   lambda T, st: _ok((1.0,), None)))
    return P


# --------------------------------------------------------------------------------------
# edit operations
# --------------------------------------------------------------------------------------
class Edit:
    kind = "edit"

    def __init__(self, name, family, code, real, oracle):
        self.name, self.family, self.code_s, self._real, self._oracle = name, family, code, real, oracle

    def real(self, reg):
        try:
            self._real(reg)
            return "ok"
        except Exception as e:
            return type(e).__name__

    def oracle(self, T):
        """returns 'ok' (and mutates T) or the name of the exception that must be raised"""
        return self._oracle(T)


def make_edits(cfg):
    F, Q, Z = cfg.F, cfg.Q, cfg.Z
    E = {}

    def add(name, sym, val, dim, pref):
        def oracle(T):
            T[sym] = (val, DIMS[dim], 0.0, pref)
            return "ok"
        E[name] = Edit(name, "add",
                       "reg.add(%r, %r, _d.%s, prefixable=%r)" % (sym, val, dim, pref),
                       lambda r: r.add(sym, val, DIMS[dim], prefixable=pref), oracle)

    def modf(name, sym, val, family="modify-float", must_exist_as_symbol=True):
        def oracle(T):
            if sym not in T:
                return "SymbolNotFoundError"
            o = T[sym]
            T[sym] = (float(val), o[1], o[2], o[3])
            return "ok"
        E[name] = Edit(name, family, "reg.modify(%r, %r)" % (sym, val),
                       lambda r: r.modify(sym, val), oracle)

    def modq(name, sym):
        def oracle(T):
            if sym not in T:
                return "SymbolNotFoundError"
            o = T[sym]
            T[sym] = (500.0, _d.length, o[2], o[3])
            return "ok"
        E[name] = Edit(name, "modify-quantity", "reg.modify(%r, unyt_quantity(0.5, 'km'))" % sym,
                       lambda r: r.modify(sym, unyt_quantity(0.5, "km")), oracle)

    def rm(name, sym, family="remove"):
        def oracle(T):
            if sym not in T:
                return "SymbolNotFoundError"
            del T[sym]
            return "ok"
        E[name] = Edit(name, family, "reg.remove(%r)" % sym, lambda r: r.remove(sym), oracle)

    def define(name, sym):
        def oracle(T):
            if resolve_atom(T, sym) is not None:
                return "RuntimeError"
            T[sym] = (6.0 * T["m"][0], T["m"][1], 0.0, True)
            return "ok"
        E[name] = Edit(name, "define_unit",
                       "define_unit(%r, (6.0, 'm'), prefixable=True, registry=reg)" % sym,
                       lambda r: define_unit(sym, (6.0, "m"), prefixable=True, registry=r), oracle)

    add("add_F_A", F, 2.0, "length", True)
    add("add_F_B", F, 3.0, "time", False)
    modf("modf_F", F, 5.0)
    modq("modq_F", F)
    rm("rm_F", F)
    define("def_F", F)
    modf("modf_kF", "k" + F, 9.0, family="modify-derived-row")
    rm("rm_kF", "k" + F, family="remove-derived-row")
    add("add_Q", Q, 7.0, "time", True)
    modf("modf_Q", Q, 0.25)
    rm("rm_Q", Q)
    add("add_Z", Z, 11.0, "mass", False)
    rm("rm_Z", Z)
    return E


EDITS_F = ["add_F_A", "add_F_B", "modf_F", "modq_F", "rm_F", "def_F", "modf_kF", "rm_kF"]
EDITS_ALL = EDITS_F + ["add_Q", "modf_Q", "rm_Q", "add_Z", "rm_Z"]
# observation operations usable inside sparse histories (indices into the probe list by id)
OBS_F = ["Unit(F)", "Unit(kF)", "Unit(F/s)", "Unit(kF**2)", "array(kF).to(m)", "array(F)*array(s)"]
OBS_ALL = OBS_F + ["Unit(mF)", "Unit(F*Q)", "Unit(MQ)", "Unit(Z)", "array(F)", "array(F)*array(Q)",
                   "Unit(F)*Unit(Q)", "kF in reg", "array(kF)/array(m)", "array(m).to(F)"]


class World:
    """everything that depends on the configuration only"""

    def __init__(self, cfg):
        self.cfg = cfg
        self.edits = make_edits(cfg)
        self.probes = make_probes(cfg)
        self.by_id = {p.pid: p for p in self.probes}
        # probes that never mention the second / third symbol (used when the alphabet edits only F)
        core = [self._expand(x) for x in ("Unit(F)", "Unit(kF)", "Unit(F/s)", "Unit(kF**2)", "kF in reg",
                                          "reg[kF]", "array(kF).to(m)", "array(F)*array(s)",
                                          "old_array.to(F)", "old_units_unchanged")]
        self.psets = {"all": self.probes,
                      "Fcore": [self.by_id[x] for x in core],
                      "F": [p for p in self.probes
                            if not any(cfg.Q in a or cfg.Z in a for a in p.args)]}
        self.obs = {}
        for short in OBS_ALL:
            full = self._expand(short)
            if full not in self.by_id:
                raise RuntimeError("driver alphabet: unknown observation %r -> %r" % (short, full))
            self.obs[short] = self.by_id[full]
        self._exp_cache = {}
        self._fresh_cache = {}

    def _expand(self, short):
        # replace the role letters F, Q, Z (optionally carrying a prefix letter)
        import re
        toks = {"F": self.cfg.F, "Q": self.cfg.Q, "Z": self.cfg.Z}

        def rep(m):
            pre, role = m.group(1), m.group(2)
            return pre + toks[role]
        return re.sub(r"(?<![A-Za-z])([kmM]?)([FQZ])(?![A-Za-z_])", rep, short)

    # expected value of a probe that does not depend on st is memoised per table state
    def expected(self, probe, T, st):
        if probe.fn in (p_old_to, p_old_base, p_old_units):
            return probe.expect(T, st)
        k = (probe.pid, tkey(self.cfg, T))
        v = self._exp_cache.get(k)
        if v is None:
            v = self._exp_cache[k] = probe.expect(T, st)
        return v

    def fresh_answer(self, probe, T):
        """what a really fresh registry with the net table T answers (second opinion)"""
        if probe.fn in (p_old_to, p_old_base, p_old_units):
            return None
        k = (probe.pid, tkey(self.cfg, T))
        if k not in self._fresh_cache:
            fr = mk_registry(self.cfg.base)
            for s in (self.cfg.F, self.cfg.Q, self.cfg.Z):
                if s in T:
                    v = T[s]
                    fr.add(s, v[0], v[1], offset=v[2], prefixable=v[3])
                elif s in fr.lut:
                    fr.remove(s)
            self._fresh_cache[k] = probe.real(fr, {})
        return self._fresh_cache[k]


def fresh_code(cfg, T):
    lines = ["fresh = mk_registry(%r)" % cfg.base]
    t0 = cfg.table0()
    for s in (cfg.F, cfg.Q, cfg.Z):
        if s in T:
            v = T[s]
            dn = [n for n, d in DIMS.items() if d == v[1]]
            lines.append("fresh.add(%r, %r, _d.%s, offset=%r, prefixable=%r)" % (s, v[0], dn[0], v[2], v[3]))
        elif s in t0:
            lines.append("fresh.remove(%r)" % s)
    return "\n".join(lines) + "\n"


def replay_body(world, mode, names, probe, want, T, where="sweep", pset="all", warm=False):
    """self-contained replay: exits 1 iff `probe` still answers differently from `want`"""
    cfg = world.cfg
    L = [SHARED_SRC, "def probe_all():"]
    for p in world.psets[pset]:
        L.append("    " + p.code())
    L.append("def step(src):\n    try:\n        exec(src, globals())\n    except Exception as e:\n"
             "        print('   raised', type(e).__name__)")
    B = ["global reg, st", "reg = mk_registry(%r)" % cfg.base, "st = {}"]
    if mode == "dense":
        B.append("probe_all()")
    for n in names:
        if n in world.edits:
            B.append("step(%r)" % world.edits[n].code_s)
            if mode == "dense":
                B.append("probe_all()")
        else:
            B.append(world.obs[n].code())
    if mode != "dense" and where == "sweep":
        # the final sweep of a sparse history evaluates the probes in order up to the failing one
        for p in world.psets[pset]:
            if p is probe:
                break
            B.append(p.code())
    L.append("def history():\n" + "\n".join("    " + b for b in B))
    L.append("clear_process_caches()")
    if warm:
        L.append("history()      # same history on a twin registry first: process-wide caches are warm")
    L.append("history()")
    L.append("got = " + probe.code())
    L.append("want = %r" % (want,))
    L.append(fresh_code(cfg, T) + "fresh_says = " + probe.code("fresh").replace(", st", ", {}", 1))
    L.append("print('history      :', %r)" % (list(names),))
    L.append("print('probe        :', %r)" % probe.pid)
    L.append("print('reg answers  :', got)\nprint('must answer  :', want)\nprint('fresh registry with the same contents answers:', fresh_says)")
    L.append("sys.exit(0 if same(got, want) else 1)")
    return "\n".join(L)


def run_history(world, mode, names, check="final", check_id=False, clear=True, pset="all", warm=False):
    """Run one history.  Returns (failures, info) where failures is a list of
    (key, what, replay_args) and info = {'nontrivial': bool}.
    check = 'final': compare only what is observed after the last operation (shorter
    histories are enumerated separately); 'all': compare after every operation."""
    cfg = world.cfg
    probes = world.psets[pset]
    if clear:
        clear_process_caches()
    reg = mk_registry(cfg.base)
    T = cfg.table0()
    st = {}
    fails = []
    seen = set()
    last_change = {}          # probe id -> family of the last edit that changed its expectation
    prev_exp = {p.pid: world.expected(p, T, st) for p in world.probes}
    n_edit = n_obs_after_edit = 0
    # cold: no observation call has been made before the most recent edit
    state = {"cold": mode != "dense", "observed": mode == "dense"}

    def compare(p, got, names, where="sweep"):
        want = world.expected(p, T, st)
        if same(got, want, RTOL):
            return
        fam = "multi-symbol" if p.multi else last_change.get(p.attr, "none")
        key = "C12[%s:%s:%s]" % ("cold" if state["cold"] else "stale", fam, p.cls)
        if p.cls == "old-object":
            key = "C12[old-object-changed]"
        if got[0] == "ok" and want[0] == "ok" and got[1:3] == want[1:3] and got[3] != want[3]:
            key = "C12[%sresult-registry:%s]" % ("warm-" if warm else "", p.cls)
        if key in seen:
            return
        seen.add(key)
        fr = world.fresh_answer(p, T)
        what = ("[%s, %s] after %s: %s answers %s; the registry contents imply %s (a fresh registry with "
                "the same contents answers %s)" % (cfg.tag(), mode, list(names), p.pid, got, want, fr))
        hist = tuple(names[:-1]) if where == "op" else tuple(names)
        fails.append((key, what, (mode, hist, p.pid, want, dict(T), where, pset)))
        if fr is not None and fr[0] == "ok":
            fr = fr[:3] + (True,)      # which registry a cached rule result is bound to is checked elsewhere
        if fr is not None and not same(fr, want, RTOL):
            k2 = "C12[fresh-registry:%s]" % p.cls
            if k2 not in seen:
                seen.add(k2)
                fails.append((k2, "fresh registry with table %s answers %s for %s, arithmetic oracle %s"
                              % (tkey(cfg, T), fr, p.pid, want), None))

    def sweep(do_compare, upto=names):
        for p in probes:
            got = p.real(reg, st)
            if do_compare:
                compare(p, got, upto)

    if mode == "dense":
        sweep(False)
    diverged = False
    for i, n in enumerate(names):
        final = i == len(names) - 1
        do_cmp = final or check == "all"
        if n in world.edits:
            e = world.edits[n]
            n_edit += 1
            state["cold"] = not state["observed"]
            id_before = None
            if check_id and do_cmp:
                id_before = reg.unit_system_id
            T_before = tkey(cfg, T)
            want = e.oracle(T)
            got = e.real(reg)
            if got != want:
                if do_cmp:
                    if e.family.endswith("derived-row"):
                        key = "C12[derived-row-editable:%s]" % e.family.split("-")[0]
                    else:
                        key = "C12[edit-outcome:%s]" % e.family
                    fails.append((key, "[%s, %s] after %s: %s gave %s, the registry contents imply %s"
                                  % (cfg.tag(), mode, list(names[:i]), e.code_s, got, want),
                                  ("edit", mode, tuple(names[:i]), n, want, pset)))
                diverged = True
                break
            if want == "ok":
                for p in world.probes:
                    ex = world.expected(p, T, st)
                    if ex != prev_exp[p.pid]:
                        last_change[p.pid] = e.family
                        prev_exp[p.pid] = ex
                if id_before is not None and tkey(cfg, T) != T_before:
                    if reg.unit_system_id == id_before:
                        fails.append(("C12[unit_system_id:unchanged-after-%s]" % e.family,
                                      "[%s] after %s the registry contents changed but unit_system_id "
                                      "did not" % (cfg.tag(), list(names[:i + 1])), None))
            if mode == "dense":
                sweep(do_cmp, names[:i + 1])
        else:
            p = world.obs[n]
            got = p.real(reg, st)
            state["observed"] = True
            if n_edit:
                n_obs_after_edit += 1
            # expectations of old_* probes may change when the first array is created
            if do_cmp:
                compare(p, got, names[:i + 1], "op")
    if mode != "dense" and not diverged:
        sweep(True)
    return fails, {"nontrivial": n_edit > 0 and not diverged, "diverged": diverged}


def edit_replay_body(world, mode, prefix, name, want, pset="all"):
    L = [SHARED_SRC, "clear_process_caches()", "reg = mk_registry(%r)" % world.cfg.base, "st = {}",
         "def probe_all():"]
    for p in world.psets[pset]:
        L.append("    " + p.code())
    L.append("def step(src):\n    try:\n        exec(src, globals())\n        return 'ok'\n    except Exception as e:\n"
             "        return type(e).__name__")
    if mode == "dense":
        L.append("probe_all()")
    for n in prefix:
        if n in world.edits:
            L.append("step(%r)" % world.edits[n].code_s)
            if mode == "dense":
                L.append("probe_all()")
        else:
            L.append(world.obs[n].code())
    L.append("got = step(%r)" % world.edits[name].code_s)
    L.append("print('history', %r, '\\n then', %r, '->', got, '; must be', %r)" % (list(prefix), world.edits[name].code_s, want))
    L.append("sys.exit(0 if got == %r else 1)" % want)
    return "\n".join(L)


def make_replay(world, args, warm=False):
    if args is None:
        return None
    if args[0] == "edit":
        _, mode, prefix, name, want, pset = args
        return edit_replay_body(world, mode, prefix, name, want, pset)
    mode, names, pid, want, T, where, pset = args
    return replay_body(world, mode, names, world.by_id[pid], want, T, where, pset, warm)
