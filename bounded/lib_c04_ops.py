"""C04 helper: unit families, operation table and reference semantics (SI magnitudes +
dimension vectors).  Nothing in this file calls unyt arithmetic: the reference works on
bare float64 SI magnitudes with NumPy and on dimension vectors with Fractions."""
from fractions import Fraction
import numpy as np

BASIS = ("mass", "length", "time", "angle", "temperature")


def D(**k):
    return tuple(Fraction(k.get(b, 0)) for b in BASIS)


def dmul(a, b):
    return tuple(x + y for x, y in zip(a, b))


def ddiv(a, b):
    return tuple(x - y for x, y in zip(a, b))


def dpow(a, p):
    return tuple(x * p for x in a)


DIMLESS = D()
ANGLE = D(angle=1)
TEMP = D(temperature=1)

# custom registry units: name -> (SI value, dimension vector)
CUSTOM = {
    "cubit_x": (0.4572, D(length=1)),
    "jiffy_x": (1.0 / 60.0, D(time=1)),
    "stone_x": (6.35029318, D(mass=1)),
    "turn_x": (6.283185307179586, ANGLE),
    "dozen_x": (12.0, DIMLESS),
    "rank_x": (5.0 / 9.0, TEMP),
}

# family -> (dimension vector, typical SI magnitude, unit specs).  A spec is "name" (default
# registry) or "name@R" (unit created in the custom registry REG, which also holds all defaults).
# The first unit of each family is the coherent SI one.
FAMILIES = {
    "length": (D(length=1), 40.0, ["m", "km", "cm", "mm", "um", "inch", "ft", "mile", "yd", "nmi",
                                   "furlong", "angstrom", "AU", "cubit_x@R", "km@R"]),
    "time": (D(time=1), 90.0, ["s", "ms", "us", "minute", "hr", "day", "yr", "jiffy_x@R", "ms@R"]),
    "mass": (D(mass=1), 3.0, ["kg", "g", "mg", "lb", "oz", "t", "slug", "stone_x@R", "g@R"]),
    "velocity": (D(length=1, time=-1), 12.0, ["m/s", "km/hr", "mile/hr", "cm/s", "ft/minute", "kt", "mph",
                                              "furlong/fortnight", "cubit_x/jiffy_x@R", "km/s@R"]),
    "force": (D(mass=1, length=1, time=-2), 25.0, ["N", "dyn", "lbf", "kN", "kg*m/s**2", "g*cm/s**2",
                                                    "stone_x*cubit_x/jiffy_x**2@R", "mN@R"]),
    "energy": (D(mass=1, length=2, time=-2), 500.0, ["J", "erg", "kJ", "cal", "BTU", "kW*hr", "N*m", "ft*lbf",
                                                      "kg*m**2/s**2", "keV", "stone_x*cubit_x**2/jiffy_x**2@R",
                                                      "erg@R"]),
    "pressure": (D(mass=1, length=-1, time=-2), 2.0e4, ["Pa", "kPa", "bar", "atm", "psi", "N/m**2", "dyn/cm**2",
                                                         "lbf/inch**2", "stone_x/(cubit_x*jiffy_x**2)@R",
                                                         "hPa@R"]),
    "area": (D(length=2), 30.0, ["m**2", "cm**2", "km**2", "ft**2", "inch*ft", "acre", "hectare",
                                 "cubit_x**2@R", "mm*km@R"]),
    "frequency": (D(time=-1), 5.0, ["Hz", "kHz", "1/s", "1/minute", "1/hr", "1/jiffy_x@R", "mHz@R"]),
    "angle": (ANGLE, 1.3, ["radian", "degree", "arcmin", "arcsec", "mrad", "turn_x@R", "degree@R"]),
    "angvel": (D(angle=1, time=-1), 0.2, ["radian/s", "degree/s", "rpm", "degree/minute", "arcmin/ms",
                                          "turn_x/jiffy_x@R", "mrad/s@R"]),
    "dimensionless": (DIMLESS, 2.0, ["dimensionless", "percent", "dozen_x@R", "percent@R"]),
    "temperature": (TEMP, 300.0, ["K", "mK", "R", "kK", "rank_x@R", "mK@R"]),
}

# reduced unit lists for the deterministic probes: SI, prefixed, imperial/compound, custom, default-in-REG
PROBE_UNITS = {
    "length": ["m", "km", "inch", "cubit_x@R", "km@R"],
    "time": ["s", "ms", "hr", "jiffy_x@R", "ms@R"],
    "mass": ["kg", "mg", "lb", "stone_x@R", "g@R"],
    "velocity": ["m/s", "km/hr", "mph", "cubit_x/jiffy_x@R", "km/s@R"],
    "force": ["N", "kN", "lbf", "g*cm/s**2", "stone_x*cubit_x/jiffy_x**2@R"],
    "energy": ["J", "erg", "kW*hr", "ft*lbf", "stone_x*cubit_x**2/jiffy_x**2@R"],
    "pressure": ["Pa", "kPa", "psi", "dyn/cm**2", "hPa@R"],
    "area": ["m**2", "cm**2", "acre", "inch*ft", "cubit_x**2@R"],
    "frequency": ["Hz", "kHz", "1/minute", "1/jiffy_x@R", "mHz@R"],
    "angle": ["radian", "degree", "arcmin", "mrad", "turn_x@R"],
    "angvel": ["radian/s", "degree/s", "rpm", "turn_x/jiffy_x@R", "mrad/s@R"],
    "dimensionless": ["dimensionless", "percent", "dozen_x@R", "percent@R"],
    "temperature": ["K", "mK", "R", "rank_x@R", "mK@R"],
}

# family pairs for multiply/divide-like probes (cancellation of commensurable factors)
PROBE_FAMILY_PAIRS = [
    ("length", "length"), ("length", "time"), ("velocity", "time"), ("energy", "force"),
    ("angvel", "time"), ("area", "length"), ("dimensionless", "length"), ("pressure", "area"),
    ("frequency", "time"), ("mass", "velocity"), ("length", "dimensionless"), ("temperature", "temperature"),
    ("angle", "angle"), ("dimensionless", "dimensionless"),
    # same-dimension compound units: the quotient's factors cancel only as a whole, not pairwise
    ("energy", "energy"), ("force", "force"), ("pressure", "pressure"), ("area", "area"), ("velocity", "velocity"),
]

SHAPES = [(), (3,), (2, 3), (1,)]

ILL = object()      # marker: the reference refuses (ill-conditioned or out of the real domain)


def _finite(x):
    x = np.asarray(x)
    if x.dtype == bool:
        return True
    if not np.all(np.isfinite(x)):
        return False
    ax = np.abs(np.atleast_1d(x).astype(float))
    ax = ax[ax != 0]
    return ax.size == 0 or bool(ax.max() < 1e60 and ax.min() > 1e-60)


def _cancel(res, *parts):
    """True if res lost more than 4 digits relative to its inputs (catastrophic cancellation)"""
    big = np.zeros(np.shape(res))
    for p in parts:
        big = np.maximum(big, np.abs(p))
    return bool(np.any(np.abs(res) < 1e-4 * big))


def _quot_ok(a, b):
    """margin test for floor-type operations on a/b"""
    with np.errstate(all="ignore"):
        q = a / b
    if not np.all(np.isfinite(q)) or np.any(np.abs(q) > 1e3):
        return False
    f = q - np.floor(q)
    return bool(np.all(np.minimum(f, 1 - f) > 1e-3))


def r_add(a, b):
    r = a + b
    return ILL if _cancel(r, a, b) else r


def r_sub(a, b):
    r = a - b
    return ILL if _cancel(r, a, b) else r


def r_rem(a, b):
    return np.remainder(a, b) if _quot_ok(a, b) else ILL


def r_fmod(a, b):
    return np.fmod(a, b) if _quot_ok(a, b) else ILL


def r_floordiv(a, b):
    return np.floor(a / b) if _quot_ok(a, b) else ILL


def _sep(a, b):
    return bool(np.all(np.abs(a - b) > 1e-6 * np.maximum(np.abs(a), np.abs(b))))


def _cmp(f):
    def g(a, b):
        return f(a, b) if _sep(a, b) else ILL
    return g


def r_minmax(f):
    def g(a, b):
        return f(a, b)
    return g


def r_tan(a):
    if np.any(np.abs(np.cos(a)) < 1e-2) or np.any(np.abs(a) > 1e4):
        return ILL
    return np.tan(a)


def r_sincos(f):
    def g(a):
        if np.any(np.abs(a) > 1e4):
            return ILL
        r = f(a)
        # relative error of sin near its zeros is unbounded: keep |f| away from 0
        if np.any(np.abs(r) < 1e-3):
            return ILL
        return r
    return g


def r_sum(axis):
    def g(a):
        r = np.sum(a, axis=axis)
        s = np.sum(np.abs(a), axis=axis)
        return ILL if np.any(np.abs(r) < 1e-4 * s) else r
    return g


def r_cumsum(a):
    r = np.add.accumulate(a)
    s = np.add.accumulate(np.abs(a))
    return ILL if np.any(np.abs(r) < 1e-4 * s) else r


def r_dot(f):
    def g(a, b):
        r = f(a, b)
        s = f(np.abs(a), np.abs(b))
        return ILL if np.any(np.abs(r) < 1e-4 * s) else r
    return g


def r_pow(a, p):
    with np.errstate(all="ignore"):
        r = np.power(a, float(p))
    return r


def r_divreduce(a):
    return np.divide.reduce(a)


class Op:
    def __init__(self, name, kind, code, fn, **kw):
        self.name = name
        self.kind = kind
        self.code = code
        self.fn = fn
        self.left = kw.get("left", False)          # sums/differences: unit of left-most operand
        self.inplace = kw.get("inplace", False)    # first operand must already have the result shape
        self.out = kw.get("out", None)             # None | 'q' (quantity out) | 'alias' | 'nd'
        self.p = kw.get("p", None)                 # fixed parameter
        self.intsafe = kw.get("intsafe", False)    # integer arithmetic == real arithmetic
        self.extra = kw.get("extra", None)
        self.shapes_a = kw.get("shapes_a", None)
        self.shapes_b = kw.get("shapes_b", None)
        self.weight = kw.get("weight", 1.0)


OPS = {}


def op(name, kind, code, fn, **kw):
    OPS[name] = Op(name, kind, code, fn, **kw)


QOUT = "{r}_o = unyt_array(np.zeros({shape}), 'g'); "
NDOUT = "{r}_o = np.zeros({shape}); "

# ---- sums / differences --------------------------------------------------------------
op("add", "same", "{r} = {a} + {b}", r_add, left=True, intsafe=True, weight=3)
op("sub", "same", "{r} = {a} - {b}", r_sub, left=True, intsafe=True, weight=3)
op("np.add", "same", "{r} = np.add({a}, {b})", r_add, left=True, intsafe=True)
op("np.subtract", "same", "{r} = np.subtract({a}, {b})", r_sub, left=True, intsafe=True)
op("iadd", "same", "{r} = {a}.copy(); {r} += {b}", r_add, left=True, inplace=True)
op("isub", "same", "{r} = {a}.copy(); {r} -= {b}", r_sub, left=True, inplace=True)
op("np.add(out=q)", "same", QOUT + "{r} = np.add({a}, {b}, out={r}_o)", r_add, left=True, out="q")
op("np.subtract(out=alias)", "same", "{r}_o = {a}.copy(); {r} = np.subtract({r}_o, {b}, out={r}_o)", r_sub,
   left=True, out="alias", inplace=True)
op("np.add(out=nd)", "same", NDOUT + "{r} = np.add({a}, {b}, out={r}_o)", r_add, left=True, out="nd")
# ---- same-dimension binary, result keeps the dimension --------------------------------
op("np.maximum", "same", "{r} = np.maximum({a}, {b})", np.maximum, intsafe=True)
op("np.minimum", "same", "{r} = np.minimum({a}, {b})", np.minimum, intsafe=True)
op("np.fmax", "same", "{r} = np.fmax({a}, {b})", np.fmax)
op("np.fmin", "same", "{r} = np.fmin({a}, {b})", np.fmin)
op("np.hypot", "same", "{r} = np.hypot({a}, {b})", np.hypot)
op("np.hypot(out=q)", "same", QOUT + "{r} = np.hypot({a}, {b}, out={r}_o)", np.hypot, out="q")
op("np.maximum(out=alias)", "same", "{r}_o = {a}.copy(); {r} = np.maximum({r}_o, {b}, out={r}_o)", np.maximum,
   out="alias", inplace=True)
op("np.remainder", "same", "{r} = np.remainder({a}, {b})", r_rem)
op("mod", "same", "{r} = {a} % {b}", r_rem)
op("np.fmod", "same", "{r} = np.fmod({a}, {b})", r_fmod)
op("imod", "same", "{r} = {a}.copy(); {r} %= {b}", r_rem, inplace=True)
# ---- same-dimension binary, dimensionless result ---------------------------------------
op("floordiv", "same0", "{r} = {a} // {b}", r_floordiv, weight=2)
op("np.floor_divide", "same0", "{r} = np.floor_divide({a}, {b})", r_floordiv)
op("ifloordiv", "same0", "{r} = {a}.copy(); {r} //= {b}", r_floordiv, inplace=True)
op("np.floor_divide(out=q)", "same0", QOUT + "{r} = np.floor_divide({a}, {b}, out={r}_o)", r_floordiv, out="q")
op("np.arctan2", "same0", "{r} = np.arctan2({a}, {b})", np.arctan2)
op("divmod", "divmod", "{r}, {r}_2 = divmod({a}, {b})", r_floordiv, extra=r_rem)
op("np.divmod", "divmod", "{r}, {r}_2 = np.divmod({a}, {b})", r_floordiv, extra=r_rem)
# ---- comparisons ---------------------------------------------------------------------
for sym, nm, f in (("<", "less", np.less), ("<=", "less_equal", np.less_equal), (">", "greater", np.greater),
                   (">=", "greater_equal", np.greater_equal), ("==", "equal", np.equal),
                   ("!=", "not_equal", np.not_equal)):
    op(sym, "cmp", "{r} = {a} %s {b}" % sym, _cmp(f), intsafe=True, weight=0.5)
    op("np." + nm, "cmp", "{r} = np.%s({a}, {b})" % nm, _cmp(f), intsafe=True, weight=0.5)
# ---- products / quotients ------------------------------------------------------------
op("mul", "mul", "{r} = {a} * {b}", np.multiply, intsafe=True, weight=3)
op("np.multiply", "mul", "{r} = np.multiply({a}, {b})", np.multiply, intsafe=True)
op("imul", "mul", "{r} = {a}.copy(); {r} *= {b}", np.multiply, inplace=True)
op("np.multiply(out=q)", "mul", QOUT + "{r} = np.multiply({a}, {b}, out={r}_o)", np.multiply, out="q")
op("np.multiply(out=alias)", "mul", "{r}_o = {a}.copy(); {r} = np.multiply({r}_o, {b}, out={r}_o)", np.multiply,
   out="alias", inplace=True)
op("np.multiply(out=nd)", "mul", NDOUT + "{r} = np.multiply({a}, {b}, out={r}_o)", np.multiply, out="nd")
op("truediv", "div", "{r} = {a} / {b}", np.divide, intsafe=True, weight=3)
op("np.divide", "div", "{r} = np.divide({a}, {b})", np.divide, intsafe=True)
op("np.true_divide", "div", "{r} = np.true_divide({a}, {b})", np.divide)
op("idiv", "div", "{r} = {a}.copy(); {r} /= {b}", np.divide, inplace=True)
op("np.divide(out=q)", "div", QOUT + "{r} = np.divide({a}, {b}, out={r}_o)", np.divide, out="q")
op("np.divide(out=alias)", "div", "{r}_o = {a}.copy(); {r} = np.divide({r}_o, {b}, out={r}_o)", np.divide,
   out="alias", inplace=True)
# ---- bare operands --------------------------------------------------------------------
op("bare*q", "scale", "{r} = 2.5 * {a}", lambda a: 2.5 * a, intsafe=True)
op("q*bare", "scale", "{r} = {a} * -0.75", lambda a: a * -0.75, intsafe=True)
op("q/bare", "scale", "{r} = {a} / 4.0", lambda a: a / 4.0, intsafe=True)
op("bare/q", "rscale", "{r} = 3.0 / {a}", lambda a: 3.0 / a, intsafe=True)
op("ndarray*q", "scale", "{r} = np.array([1.5, -2.0, 0.5]) * {a}", lambda a: np.array([1.5, -2.0, 0.5]) * a)
op("q/ndarray", "scale", "{r} = {a} / np.array([1.5, -2.0, 0.5])", lambda a: a / np.array([1.5, -2.0, 0.5]))
op("ndarray/q", "rscale", "{r} = np.array([1.5, -2.0, 0.5]) / {a}", lambda a: np.array([1.5, -2.0, 0.5]) / a)
# ---- unary --------------------------------------------------------------------------
op("neg", "un", "{r} = -{a}", np.negative, intsafe=True)
op("pos", "un", "{r} = +{a}", np.positive, intsafe=True)
op("abs", "un", "{r} = abs({a})", np.abs, intsafe=True)
op("np.negative", "un", "{r} = np.negative({a})", np.negative, intsafe=True)
op("np.absolute", "un", "{r} = np.absolute({a})", np.abs, intsafe=True)
op("np.fabs", "un", "{r} = np.fabs({a})", np.abs)
op("np.conj", "un", "{r} = np.conj({a})", np.conj, intsafe=True)
op("np.positive", "un", "{r} = np.positive({a})", np.positive, intsafe=True)
op("np.sign", "un0", "{r} = np.sign({a})", np.sign, intsafe=True)
op("np.negative(out=q)", "un", QOUT + "{r} = np.negative({a}, out={r}_o)", np.negative, out="q")
op("np.sqrt", "pow", "{r} = np.sqrt({a})", None, p=Fraction(1, 2))
op("np.cbrt", "pow", "{r} = np.cbrt({a})", np.cbrt, p=Fraction(1, 3))
op("np.square", "pow", "{r} = np.square({a})", None, p=Fraction(2), intsafe=True)
op("np.reciprocal", "pow", "{r} = np.reciprocal({a})", None, p=Fraction(-1))
op("np.square(out=q)", "pow", QOUT + "{r} = np.square({a}, out={r}_o)", None, p=Fraction(2), out="q")
op("np.sqrt(out=q)", "pow", QOUT + "{r} = np.sqrt({a}, out={r}_o)", None, p=Fraction(1, 2), out="q")
for pw, txt in ((Fraction(2), "2"), (Fraction(3), "3"), (Fraction(-1), "-1"), (Fraction(-2), "-2"),
                (Fraction(1, 2), "0.5"), (Fraction(3, 2), "1.5"), (Fraction(1, 3), "(1.0/3.0)"),
                (Fraction(0), "0"), (Fraction(1), "1"), (Fraction(-1, 2), "-0.5")):
    op("pow(%s)" % txt, "pow", "{r} = {a} ** %s" % txt, None, p=pw, intsafe=(pw in (2, 3, 1)))
    op("np.power(%s)" % txt, "pow", "{r} = np.power({a}, %s)" % txt, None, p=pw)
op("ipow(2)", "pow", "{r} = {a}.copy(); {r} **= 2", None, p=Fraction(2), inplace=True)
# ---- trigonometric functions of angles -------------------------------------------------
op("np.sin", "trig", "{r} = np.sin({a})", r_sincos(np.sin), weight=2)
op("np.cos", "trig", "{r} = np.cos({a})", r_sincos(np.cos), weight=2)
op("np.tan", "trig", "{r} = np.tan({a})", r_tan, weight=2)
op("np.sin(out=nd)", "trig", NDOUT + "{r} = np.sin({a}, out={r}_o)", r_sincos(np.sin), out="nd")
# ---- reductions ---------------------------------------------------------------------
op("np.add.reduce", "red", "{r} = np.add.reduce({a})", r_sum(0), left=True, intsafe=True)
op("np.add.reduce(axis=-1)", "red", "{r} = np.add.reduce({a}, axis=-1)", r_sum(-1), left=True)
op("np.add.reduce(axis=None)", "red", "{r} = np.add.reduce({a}, axis=None)", r_sum(None), left=True)
op("np.sum", "red", "{r} = np.sum({a})", r_sum(None), left=True, intsafe=True)
op("np.sum(axis=0)", "red", "{r} = np.sum({a}, axis=0)", r_sum(0), left=True)
op(".sum", "red", "{r} = {a}.sum()", r_sum(None), left=True)
op("np.add.accumulate", "red", "{r} = np.add.accumulate({a})", r_cumsum, left=True, intsafe=True)
op("np.maximum.reduce", "red", "{r} = np.maximum.reduce({a})", lambda a: np.max(a, axis=0), intsafe=True)
op("np.minimum.reduce", "red", "{r} = np.minimum.reduce({a})", lambda a: np.min(a, axis=0))
op("np.max", "red", "{r} = np.max({a})", np.max)
op("np.multiply.reduce", "prod", "{r} = np.multiply.reduce({a})", lambda a: np.prod(a, axis=0), p=0, intsafe=True)
op("np.multiply.reduce(axis=0)", "prod", "{r} = np.multiply.reduce({a}, axis=0)", lambda a: np.prod(a, axis=0), p=0)
op("np.multiply.reduce(axis=-1)", "prod", "{r} = np.multiply.reduce({a}, axis=-1)", lambda a: np.prod(a, axis=-1),
   p=-1)
op("np.multiply.reduce(axis=None)", "prod", "{r} = np.multiply.reduce({a}, axis=None)",
   lambda a: np.prod(a, axis=None), p=None)
op("np.prod", "prod", "{r} = np.prod({a})", lambda a: np.prod(a, axis=None), p=None, intsafe=True)
op("np.prod(axis=-1)", "prod", "{r} = np.prod({a}, axis=-1)", lambda a: np.prod(a, axis=-1), p=-1)
op(".prod", "prod", "{r} = {a}.prod()", lambda a: np.prod(a, axis=None), p=None)
op("np.divide.reduce", "divred", "{r} = np.divide.reduce({a})", r_divreduce)
# ---- outer ----------------------------------------------------------------------------
V = [(3,), (1,)]
op("np.multiply.outer", "outer_mul", "{r} = np.multiply.outer({a}, {b})", np.multiply.outer, shapes_a=V,
   shapes_b=V + [()], intsafe=True)
op("np.outer", "outer_mul", "{r} = np.outer({a}, {b})", np.outer, shapes_a=V, shapes_b=V)
op("np.divide.outer", "outer_div", "{r} = np.divide.outer({a}, {b})", np.divide.outer, shapes_a=V, shapes_b=V + [()])
op("np.add.outer", "outer_same", "{r} = np.add.outer({a}, {b})",
   lambda a, b: (ILL if _cancel(np.add.outer(a, b), np.add.outer(np.abs(a), np.abs(b))) else np.add.outer(a, b)),
   shapes_a=V, shapes_b=V + [()], left=True)
# ---- dot family -----------------------------------------------------------------------
M = [(3,), (2, 3)]
op("np.dot", "dot", "{r} = np.dot({a}, {b})", r_dot(np.dot), shapes_a=M, shapes_b=[(3,)], intsafe=True)
op(".dot", "dot", "{r} = {a}.dot({b})", r_dot(np.dot), shapes_a=M, shapes_b=[(3,)])
op("matmul", "dot", "{r} = {a} @ {b}", r_dot(np.matmul), shapes_a=M, shapes_b=[(3,)], intsafe=True, weight=2)
op("np.matmul", "dot", "{r} = np.matmul({a}, {b})", r_dot(np.matmul), shapes_a=M, shapes_b=[(3,)])
op("np.vecdot", "dot", "{r} = np.vecdot({a}, {b})", r_dot(lambda a, b: np.sum(a * b, axis=-1)), shapes_a=M,
   shapes_b=[(3,)])
op("np.inner", "dot", "{r} = np.inner({a}, {b})", r_dot(np.inner), shapes_a=M, shapes_b=[(3,)])
op("np.vdot", "dot", "{r} = np.vdot({a}, {b})", r_dot(np.vdot), shapes_a=[(3,)], shapes_b=[(3,)])
op("np.dot(out=q)", "dot", "{r}_o = unyt_array(np.zeros(2), 'g'); {r} = np.dot({a}, {b}, out={r}_o)", r_dot(np.dot),
   shapes_a=[(2, 3)], shapes_b=[(3,)], out="q")
op("matmul.T", "dot", "{r} = {a} @ {b}.T", r_dot(lambda a, b: a @ b.T), shapes_a=[(2, 3)], shapes_b=[(2, 3)])

BINARY_KINDS = {"same", "same0", "cmp", "mul", "div", "divmod", "outer_mul", "outer_div", "outer_same", "dot"}


def prod_count(o, shape):
    """number of factors multiplied together by a product reduction"""
    if o.p is None:
        return int(np.prod(shape))
    return shape[o.p]


def result_dim(o, da, db=None, shape_a=None):
    k = o.kind
    if k in ("same", "un", "red", "scale", "outer_same"):
        return da
    if k in ("same0", "un0", "trig", "divmod"):
        return DIMLESS
    if k == "cmp":
        return DIMLESS
    if k in ("mul", "outer_mul", "dot"):
        return dmul(da, db)
    if k in ("div", "outer_div"):
        return ddiv(da, db)
    if k == "rscale":
        return dpow(da, -1)
    if k == "pow":
        return dpow(da, o.p)
    if k == "prod":
        return dpow(da, prod_count(o, shape_a))
    if k == "divred":
        return dpow(da, 2 - shape_a[0])
    raise KeyError(k)


def reference(o, a, b=None):
    """SI magnitude of the result, or ILL"""
    with np.errstate(all="ignore"):
        if o.kind == "pow" and o.fn is None:
            r = r_pow(a, o.p)
        elif o.kind in BINARY_KINDS:
            r = o.fn(a, b)
        else:
            r = o.fn(a)
    if r is ILL:
        return ILL
    r = np.asarray(r)
    if r.dtype != bool and not _finite(r):
        return ILL
    return r


# ---------------------------------------------------------------------------------------------
# forward error bound of the reference itself (relative, max over elements).  A program is only
# used when every node's bound stays two orders below the comparison tolerance, so a mismatch
# can never be blamed on conditioning (cancellation, large trig arguments, remainders, ...).
EPS = 2.3e-16
INF = float("inf")


def _mx(x):
    x = np.asarray(x, float)
    if x.size == 0:
        return 0.0
    if not np.all(np.isfinite(x)):
        return INF
    return float(np.max(x))


def err_bound(o, a, b, r, ea, eb):
    k = o.kind
    with np.errstate(all="ignore"):
        if k in ("mul", "div", "outer_mul", "outer_div"):
            return ea + eb + 2 * EPS
        if k in ("scale", "rscale"):
            return ea + 2 * EPS
        if k == "un0":
            return 0.0
        if k == "un":
            return ea
        if k == "pow":
            return abs(float(o.p)) * ea + 4 * EPS
        if k == "trig":
            d = np.cos(a) if "sin" in o.name else (np.sin(a) if "cos" in o.name else 1.0 / np.cos(a) ** 2)
            return _mx(np.abs(a) * (ea + EPS) * np.abs(d) / np.abs(r)) + 4 * EPS
        if k in ("same", "outer_same", "same0", "divmod", "cmp"):
            if k == "outer_same":
                A, B = np.abs(a)[..., None] * np.ones(np.shape(b)), np.ones(np.shape(a))[..., None] * np.abs(b)
                return _mx((A * ea + B * eb) / np.abs(r)) + 2 * EPS
            if k == "cmp":
                ok = np.all(np.abs(a - b) > 100 * (np.abs(a) * (ea + EPS) + np.abs(b) * (eb + EPS)))
                return 0.0 if ok else INF
            if o.fn in (r_add, r_sub):
                return _mx((np.abs(a) * ea + np.abs(b) * eb) / np.abs(r)) + 2 * EPS
            if o.fn in (r_rem, r_fmod, r_floordiv):
                q = a / b
                f = q - np.floor(q)
                margin = np.minimum(f, 1 - f)
                if not np.all(margin > 1000 * np.abs(q) * (ea + eb + 4 * EPS)):
                    return INF
                if o.fn is r_floordiv and k != "divmod":
                    return 0.0
                rr = np.remainder(a, b) if o.fn is not r_fmod else np.fmod(a, b)
                abs_err = np.abs(a) * (ea + EPS) + np.abs(np.floor(q)) * np.abs(b) * (eb + 2 * EPS)
                return _mx(abs_err / np.abs(rr)) + 2 * EPS
            if o.name.startswith("np.arctan2"):
                return _mx(0.5 * (ea + eb + 2 * EPS) / np.abs(r)) + 4 * EPS
            return max(ea, eb) + 4 * EPS            # maximum / minimum / fmax / fmin / hypot
        if k == "red":
            if "reduce" in o.name and ("maximum" in o.name or "minimum" in o.name) or o.name == "np.max":
                return ea
            n = np.size(a)
            if "accumulate" in o.name:
                return _mx(np.add.accumulate(np.abs(a)) * (ea + n * EPS) / np.abs(r))
            ax = {"np.add.reduce": 0, "np.add.reduce(axis=-1)": -1, "np.sum(axis=0)": 0}.get(o.name, None)
            return _mx(np.sum(np.abs(a), axis=ax) * (ea + n * EPS) / np.abs(r))
        if k in ("prod", "divred"):
            return np.size(a) * (ea + 2 * EPS)
        if k == "dot":
            if o.name == "matmul.T":
                s = np.abs(a) @ np.abs(b).T
            elif o.name == "np.vecdot":
                s = np.sum(np.abs(a) * np.abs(b), axis=-1)
            else:
                s = np.abs(a) @ np.abs(b)
            return _mx(s * (ea + eb + 8 * EPS) / np.abs(r))
    return INF
