"""C08 bounded stand-in: offset temperature scales follow point/difference semantics or refuse.

Runs the REAL package.  The oracle is independent of unyt's tables: every temperature unit is
described by exact rationals (kelvin per degree `s`, zero-point `off` in the unit's own readings,
kelvin = (x - off) * s; SI prefix p: s*p, off/p) and all expected values are computed with
fractions.Fraction.

Families
  conv     conversions among all temperature units (every API) are the exact affine maps
  affine   point+/-difference, difference+point, difference+/-difference, point-point: when a
           value comes back it is the affine value in the scale of the label, and the label is a
           point scale / difference scale as appropriate (raising is accepted)
  mixed    two different offset scales combined (add, subtract, max/min, comparisons) must raise
           (comparisons may instead return the truth value of the kelvin comparison)
  refuse   multiply/divide/floor-divide/remainder/divmod/hypot/matmul/power/square/sqrt/cbrt/
           reciprocal/prod/... of an offset-scale quantity must raise (operator, reflected
           operator, ufunc, in-place, out=, reduce/accumulate/outer, array-function forms), and
           an in-place / out= refusal must not have written the product into the operand
  reduce   np.diff / np.ediff1d / np.ptp / subtract.reduce / gradient / sum: result is a difference
           scale with the right degree size (or raises for point arrays)
Keys name defect sites, not samples: conv:<api>[-dtype]:<unit class>-><unit class>,
affine|label:<operand class>:<same|other>-degree:<form>, mixed:<op>:<form>, mixed-writes,
compare|select:<kind>:<op>[:form], refuse:<op>:<operator|inplace|ufunc>, refuse-writes:<op>,
refuse-func:<numpy function>[:bare|self], reduce:<function>:<point|diff>:<kelvin|other>-degree.
Findings on the unchanged tree: bounded/c08_findings.md.

Reading of the statement adopted here (stated because it matters): "multiplying ... an
offset-scale quantity ... raises" is taken literally -- also for a bare number or a dimensionless
quantity as the other factor (unyt's own operator/ufunc path refuses `(5*degC)*2`), and for every
power other than 1 including 0.  `difference - point`, `point + point` on one scale and
point-vs-difference comparisons are not constrained by the statement and are not judged.
"""
import operator
import sys, os
from fractions import Fraction as Fr

sys.path.insert(0, os.path.dirname(os.path.abspath(__file__)))
from common import Run, replay_script, safe

import numpy as np
import unyt
from unyt import Unit, unyt_array, unyt_quantity
from unyt import dimensions as udims
from unyt.unit_registry import UnitRegistry

R = Run("C08",
        "all ordered pairs of temperature units (K, R, degC, degF, delta_degC, delta_degF, their "
        "alias spellings, SI-prefixed K/degC/delta_degC, plus a custom registry with a prefixable "
        "offset unit degre/delta_degre and that registry's own degC) x conversion APIs; ordered "
        "pairs of a 15-unit subset x {add, subtract, comparisons, max/min} x {operator, ufunc, "
        "in-place, out=, outer} x {scalar, array} operands; every offset unit x multiplicative/"
        "power operation x partner class x form; difference-type reductions.  Readings: negative, "
        "zero, positive, int and float, pinned + seeded random.  non-trivial = a value came back "
        "and was compared with the rational oracle, or a refusal was demanded",
        "finite unit table (all SI prefixes in thorough, 8 in quick) x fixed operation/form table "
        "x 3-12 readings per case; readings are sampled, not exhaustive")

QUICK = not R.thorough
rng = R.rng

# ----------------------------------------------------------------------------- unit catalogue
SI = {"Y": 24, "Z": 21, "E": 18, "P": 15, "T": 12, "G": 9, "M": 6, "k": 3, "h": 2, "da": 1,
      "d": -1, "c": -2, "m": -3, "µ": -6, "u": -6, "μ": -6, "n": -9, "p": -12, "f": -15,
      "a": -18, "z": -21, "y": -24}
SI_WORD = {"Y": "yotta", "Z": "zetta", "E": "exa", "P": "peta", "T": "tera", "G": "giga",
           "M": "mega", "k": "kilo", "h": "hecto", "da": "deca", "d": "deci", "c": "centi",
           "m": "milli", "u": "micro", "n": "nano", "p": "pico", "f": "femto", "a": "atto",
           "z": "zepto", "y": "yocto"}
# name -> (kelvin per degree, zero point in own readings, prefixable)
BASE = {
    "K": (Fr(1), Fr(0), True),
    "R": (Fr(5, 9), Fr(0), False),
    "degC": (Fr(1), Fr(-27315, 100), True),
    "degF": (Fr(5, 9), Fr(-45967, 100), False),
    "delta_degC": (Fr(1), Fr(0), True),
    "delta_degF": (Fr(5, 9), Fr(0), False),
    # custom registry: Reaumur scale, 0 degre = 273.15 K, 1 degre = 1.25 K.  (Spelled lower case on
    # purpose: _difference_units matches unit names by substring and "R" in "delta_degRe" would
    # make every difference-difference key fail for that reason alone; that accident is pinned
    # separately in run_substring_names.)
    "degre": (Fr(5, 4), Fr(-21852, 100), True),
    "delta_degre": (Fr(5, 4), Fr(0), True),
}
ALIASES = {
    "K": ["kelvin", "degree_kelvin"],
    "R": ["rankine", "degree_rankine"],
    "degC": ["°C", "degree_celsius", "degree_Celsius", "celsius", "celcius"],
    "degF": ["°F", "degree_fahrenheit", "degree_Fahrenheit", "fahrenheit"],
}

creg = UnitRegistry()
creg.add("degre", 1.25, udims.temperature, offset=-218.52, prefixable=True)
creg.add("delta_degre", 1.25, udims.temperature, prefixable=True)


class TU:
    """independent description of one temperature unit"""

    def __init__(self, base, pfx="", reg=None, spelled=None):
        s0, off0, _ = BASE[base]
        pv = Fr(10) ** SI[pfx] if pfx else Fr(1)
        self.base, self.pfx, self.reg = base, pfx, reg
        self.s = s0 * pv
        self.off = off0 / pv
        self.point = off0 != 0
        self.name = spelled or (pfx + base)
        self.cls = ("p-" if pfx else "") + base + ("@reg" if reg is not None else "")
        self.unit = Unit(self.name, registry=reg) if reg is not None else Unit(self.name)
        self.ctor = ("unyt.Unit(%r, registry=creg)" if reg is not None else "unyt.Unit(%r)") % self.name

    def kelvin(self, x):          # absolute kelvins of a reading / of a point
        return (x - self.off) * self.s

    def read(self, k):            # reading of absolute kelvins k
        return k / self.s + self.off

    def __repr__(self):
        return self.name + ("@reg" if self.reg is not None else "")


def same_scale(a, b):
    return a.s == b.s and a.off == b.off


_desc_cache = {}


def describe(unit):
    """TU for a unit object coming back from unyt (by its symbol), None if not a plain
    temperature symbol"""
    name = str(unit.expr)
    if name in _desc_cache:
        return _desc_cache[name]
    d = None
    if name in BASE:
        d = (name, "")
    else:
        for p in sorted(SI, key=len, reverse=True):
            if name.startswith(p) and name[len(p):] in BASE and BASE[name[len(p):]][2]:
                d = (name[len(p):], p)
                break
    if d is None:
        _desc_cache[name] = None
        return None
    s0, off0, _ = BASE[d[0]]
    pv = Fr(10) ** SI[d[1]] if d[1] else Fr(1)

    class _D:
        pass
    o = _D()
    o.s, o.off, o.point, o.name = s0 * pv, off0 / pv, off0 != 0, name
    _desc_cache[name] = o
    return o


CREG_SETUP = ("from unyt.unit_registry import UnitRegistry\nfrom unyt import dimensions as udims\n"
              "creg = UnitRegistry()\n"
              "creg.add('degre', 1.25, udims.temperature, offset=-218.52, prefixable=True)\n"
              "creg.add('delta_degre', 1.25, udims.temperature, prefixable=True)\n")

# ----------------------------------------------------------------------------- helpers
PINNED = [-459.67, -273.15, -40.0, -1.5, 0.0, 1.0, 37.5, 100.0, 2500.0]


def readings(n, nonzero=False):
    out = []
    while len(out) < n:
        c = rng.random()
        if c < 0.4:
            v = rng.choice(PINNED)
        elif c < 0.8:
            v = round(rng.uniform(-500, 500), 3)
        else:
            v = float(rng.randint(-300, 300))
        if nonzero and v == 0.0:
            continue
        out.append(v)
    return out


def fr_arr(vals, shape=None):
    a = np.empty(len(vals), dtype=object)
    for i, v in enumerate(vals):
        a[i] = Fr(v)
    if shape is not None:
        a = a.reshape(shape)
    return a


def fabs(a):
    return np.frompyfunc(abs, 1, 1)(a) if isinstance(a, np.ndarray) else abs(a)


def compare(actual, exp, mag, rtol=1e-12):
    """actual: numbers from unyt; exp, mag: object arrays / Fractions.  None if equal within
    rtol*mag, else a message"""
    act = np.asarray(actual)
    exp = np.asarray(exp, dtype=object)
    mag = np.asarray(mag, dtype=object)
    if act.shape != exp.shape:
        try:
            exp = np.broadcast_to(exp, act.shape)
            mag = np.broadcast_to(mag, act.shape)
        except ValueError:
            return "shape %s, expected %s" % (act.shape, exp.shape)
    mag = np.broadcast_to(mag, exp.shape)
    for a, e, m in zip(act.ravel().tolist(), exp.ravel().tolist(), mag.ravel().tolist()):
        e = float(e)
        tol = rtol * (float(m) + abs(e)) + 1e-300
        if not (abs(complex(a) - e) <= tol):
            return "got %r, expected %r (tol %.3g)" % (a, e, tol)
    return None


def mk(vals, tu, scalar=False, dtype=None):
    if scalar:
        return unyt_quantity(vals[0] if dtype is None else np.dtype(dtype).type(vals[0]), tu.unit)
    return unyt_array(np.array(vals, dtype=dtype or "float64"), tu.unit)


def lit(vals, tu, scalar=False, dtype=None):
    """python source that rebuilds mk(...)"""
    if scalar:
        return "unyt.unyt_quantity(%r, %s)" % (vals[0], tu.ctor)
    return "unyt.unyt_array(np.array(%r, dtype=%r), %s)" % (list(vals), dtype or "float64", tu.ctor)


def units_of(x):
    return getattr(x, "units", None)


FAILED = set()
FORM_FAMILY = {"operator": "operator", "reflected-operator": "operator", "inplace": "inplace",
               "inplace-offset-right": "inplace", "ufunc": "ufunc", "out": "ufunc", "out-ndarray": "ufunc",
               "outer": "ufunc", "out-self": "ufunc", "ufunc-array-exponent": "ufunc"}


def norm(key):
    """one key per defect site: the refusal guards sit per operation and per dispatch path
    (operator / in-place / ufunc incl. out= and outer), a write-before-raise per operation, an
    array function per function and partner kind; the exact form goes into the message"""
    body = key[4:-1].split(":")
    if body[0] == "refuse" and len(body) == 3:
        body[2] = FORM_FAMILY.get(body[2], body[2])
    elif body[0] == "refuse-writes":
        body = body[:2]
    elif body[0] == "refuse-func":
        n = body[1]
        kind = "bare" if "-bare" in n else ("self" if "-self" in n else "")
        n = n.split("-")[0] if not n.startswith("method-") else "np." + n.split("-")[1]
        body = [body[0], n] + ([kind] if kind else [])
    return "C08[" + ":".join(body) + "]"


PER_FAMILY = {}


def fail(key, what, replay=None):
    key = norm(key)
    # one witness per key is enough, the first stands for the family; and no single family
    # (e.g. conv:<api>) may use up the harness's 400-failure budget
    if key in FAILED:
        return
    fam = ":".join(key.split(":")[:2])
    PER_FAMILY[fam] = PER_FAMILY.get(fam, 0) + 1
    if PER_FAMILY[fam] > 12:
        if PER_FAMILY[fam] == 13:
            R.notes.append("more than 12 failing keys in family %s]; further ones not recorded" % fam)
        return
    FAILED.add(key)
    R.fail(key, what, replay)


VALUE_CASES = {"n": 0}

# ----------------------------------------------------------------------------- 1. conversions
if QUICK:
    PFXS = ["Y", "k", "da", "d", "m", "µ", "u", "y"]
else:
    PFXS = list(SI)

units_all = []
for b in ("K", "R", "degC", "degF", "delta_degC", "delta_degF"):
    units_all.append(TU(b))
    if BASE[b][2]:
        for p in PFXS:
            units_all.append(TU(b, p))
for b in ("degre", "delta_degre"):
    units_all.append(TU(b, reg=creg))
    for p in (PFXS if not QUICK else ["k", "m", "da", "u"]):
        units_all.append(TU(b, p, reg=creg))
units_all.append(TU("degC", reg=creg))
units_all.append(TU("degC", "m", reg=creg))
units_all.append(TU("K", reg=creg))


def conv_expected(xa, u, v):
    exp = (xa - u.off) * u.s / v.s + v.off
    mag = fabs(xa) * (u.s / v.s) + abs(u.off) * (u.s / v.s) + abs(v.off)
    return exp, mag


def api_to(x, u, v):
    r = x.to(v.unit)
    return np.asarray(r), units_of(r)


def api_to_str(x, u, v):
    r = x.to(v.name)
    return np.asarray(r), units_of(r)


def api_in_units(x, u, v):
    r = x.in_units(v.unit)
    return np.asarray(r), units_of(r)


def api_to_value(x, u, v):
    return np.asarray(x.to_value(v.unit)), None


def api_convert(x, u, v):
    y = x.copy()
    y.convert_to_units(v.unit)
    return np.asarray(y), units_of(y)


def api_factor(x, u, v):
    f, o = u.unit.get_conversion_factor(v.unit)
    return np.asarray(x) * f - (0.0 if o is None else o), None


CONV_APIS = [("to", api_to), ("to-str", api_to_str), ("in_units", api_in_units),
             ("to_value", api_to_value), ("convert_to_units", api_convert),
             ("get_conversion_factor", api_factor)]
CONV_SRC = {
    "to": "r = x.to(v)", "to-str": "r = x.to(%(vname)r)", "in_units": "r = x.in_units(v)",
    "to_value": "r = x.to_value(v)", "convert_to_units": "r = x.copy(); r.convert_to_units(v)",
    "get_conversion_factor": "f, o = x.units.get_conversion_factor(v); r = np.asarray(x)*f - (o or 0.0)",
}


def conv_replay(api, vals, u, v, scalar, dtype, exp, tol):
    body = CREG_SETUP + "x = %s\nv = %s\n" % (lit(vals, u, scalar, dtype), v.ctor)
    body += CONV_SRC[api] % {"vname": v.name} + "\n"
    body += "got = np.asarray(r, dtype='float64').ravel()\nexp = np.array(%r)\nprint(got, exp, getattr(r, 'units', None))\n" % (
        [float(e) for e in np.asarray(exp, dtype=object).ravel()],)
    body += "sys.exit(1 if np.any(np.abs(got - exp) > %r) else 0)\n" % tol
    return replay_script(body)


def check_conv(api, fn, vals, u, v, scalar=False, dtype=None, rtol=1e-12, keyextra=""):
    key = "C08[conv:%s%s:%s->%s]" % (api, keyextra, u.cls, v.cls)
    x = mk(vals, u, scalar, dtype)
    st, res = safe(fn, x, u, v)
    R.case(key, sample={"api": api, "from": repr(u), "to": repr(v), "x": vals[:3]})
    xa = fr_arr(vals[:1] if scalar else vals)
    if scalar:
        xa = xa.reshape(())
    exp, mag = conv_expected(xa, u, v)
    if st == "exc":
        fail(key, "%s of %s from %r to %r raised %r (a conversion between two temperature scales "
             "must be the affine map)" % (api, vals[:3], u, v, res),
             conv_replay(api, vals, u, v, scalar, dtype, exp, 1e300) + "")
        return
    got, lab = res
    msg = compare(got, exp, mag, rtol)
    if msg:
        maxmag = max(float(m) for m in np.asarray(mag, dtype=object).ravel())
        fail(key, "%s: %s %r -> %r: %s" % (api, vals[:4], u, v, msg),
             conv_replay(api, vals, u, v, scalar, dtype, exp, max(1e-9 * maxmag, 1e-300)))
        return
    if lab is not None:
        d = describe(lab)
        if d is None or not same_scale(d, v):
            fail(key.replace("conv:", "conv-label:"), "%s: result labelled %r, asked for %r" % (api, lab, v))


def run_conversions():
    fixed = PINNED + [1e-3, 1e6]
    for u in units_all:
        for v in units_all:
            vals = fixed[:] + readings(3)
            apis = CONV_APIS
            for api, fn in apis:
                if api == "to-str" and not (v.reg is None or v.reg is u.reg):
                    continue
                check_conv(api, fn, vals, u, v)
            # scalar quantity, integer and single precision sources
            check_conv("to", api_to, readings(1), u, v, scalar=True, keyextra="-scalar")
            check_conv("convert_to_units", api_convert, readings(1), u, v, scalar=True, keyextra="-scalar")
            ivals = [int(x) for x in readings(4)]
            for api, fn in (("in_units", api_in_units), ("convert_to_units", api_convert), ("to_value", api_to_value)):
                check_conv(api, fn, ivals, u, v, dtype="int64", keyextra="-int64")
            if Fr(1, 10**12) <= u.s / v.s <= 10**12 and abs(u.off) < 10**12 and abs(v.off) < 10**12:
                # float32 holds about 1e38; far-apart prefixes overflow legitimately
                fv = readings(4)
                for api, fn in (("to", api_to), ("convert_to_units", api_convert), ("to_value", api_to_value)):
                    check_conv(api, fn, fv, u, v, dtype="float32", rtol=2e-6, keyextra="-f32")
                check_conv("convert_to_units", api_convert, ivals, u, v, dtype="int32", rtol=2e-6, keyextra="-int32")
    # base / unit-system conversions and spellings
    for u in units_all:
        vals = PINNED[:] + readings(2)
        xa = fr_arr(vals)
        for how, tgt in (("in_base", "K"), ("in_mks", "K"), ("in_cgs", "K"), ("in_base-imperial", "R"),
                         ("convert_to_base", "K"), ("convert_to_mks", "K"), ("convert_to_cgs", "K")):
            key = "C08[conv:%s:%s]" % (how, u.cls)
            R.case(key)
            x = mk(vals, u)

            def go():
                if how == "in_base":
                    return x.in_base()
                if how == "in_mks":
                    return x.in_mks()
                if how == "in_cgs":
                    return x.in_cgs()
                if how == "in_base-imperial":
                    return x.in_base("imperial")
                y = x.copy()
                getattr(y, how)()
                return y
            st, r = safe(go)
            s_t = BASE[tgt][0]
            exp = (xa - u.off) * u.s / s_t
            mag = fabs(xa) * u.s / s_t + abs(u.off) * u.s / s_t
            src = {"in_base": "x.in_base()", "in_mks": "x.in_mks()", "in_cgs": "x.in_cgs()",
                   "in_base-imperial": "x.in_base('imperial')"}.get(how, "x.copy(); r.%s()" % how)
            rp = replay_script(CREG_SETUP + "x = %s\nr = %s\nprint(r)\nexp = np.array(%r)\n"
                               "sys.exit(1 if str(r.units.expr) != %r or np.any(np.abs(np.asarray(r) - exp) > 1e-9*(np.abs(exp)+500)) else 0)\n"
                               % (lit(vals, u), src, [float(e) for e in exp], tgt))
            if st == "exc":
                fail(key, "%s of %r raised %r" % (how, u, r), rp)
                continue
            msg = compare(np.asarray(r), exp, mag)
            d = describe(r.units)
            if msg or d is None or d.s != s_t or d.off != 0:
                fail(key, "%s of %s %r gave %r: %s" % (how, vals[:3], u, r, msg or "label"), rp)
    # alias and word-prefix spellings name the same scale
    spell = []
    for b, al in ALIASES.items():
        for a in al:
            spell.append((a, b, ""))
    for p in PFXS:
        if p in SI_WORD:
            w = SI_WORD[p]
            spell += [(w + "kelvin", "K", p), (w + "degree_celsius", "degC", p), (p + "°C", "degC", p),
                      (w + "celsius", "degC", p), (w + "degree_kelvin", "K", p)]
    kel = TU("K")
    for name, b, p in spell:
        key = "C08[conv:spelling:%s%s]" % ("p-" if p else "", b)
        R.case(key, sample={"spelling": name})
        st, tu = safe(TU, b, p, None, name)
        if st == "exc":
            fail(key, "Unit(%r) raised %r" % (name, tu),
                 replay_script("try:\n    unyt.Unit(%r)\nexcept Exception as e:\n    print(repr(e)); sys.exit(1)\n" % name))
            continue
        vals = [-40.0, 0.0, 37.5] + readings(2)
        for v in (kel, TU("degF")):
            check_conv("to", api_to, vals, tu, v, keyextra="-spelled")
            check_conv("to", api_to, vals, v, tu, keyextra="-spelled")


# ----------------------------------------------------------------------------- 2./3. additive
def arith_units():
    names = [("K", ""), ("K", "m"), ("R", ""), ("degC", ""), ("degC", "m"), ("degC", "k"),
             ("degF", ""), ("delta_degC", ""), ("delta_degC", "m"), ("delta_degF", "")]
    if not QUICK:
        names += [("K", "k"), ("K", "µ"), ("degC", "da"), ("degC", "u"), ("delta_degC", "k"), ("delta_degC", "da")]
    out = [TU(b, p) for b, p in names]
    out.append(TU("degC", spelled="degree_celsius"))
    out += [TU("degre", reg=creg), TU("degre", "m", reg=creg), TU("delta_degre", reg=creg),
            TU("degC", reg=creg)]
    if not QUICK:
        out += [TU("delta_degre", "k", reg=creg), TU("delta_degC", reg=creg), TU("degF", reg=creg)]
    return out


def classify(op, u, v):
    """-> (class, degree) ; class None if the statement does not constrain the case"""
    deg = "same-degree" if u.s == v.s else "other-degree"
    if u.point and v.point:
        if not same_scale(u, v):
            return "two-offset-scales", deg
        return ("point-point" if op == "subtract" else None), deg
    if u.point and not v.point:
        return ("point+diff" if op == "add" else "point-diff"), deg
    if not u.point and v.point:
        return ("diff+point" if op == "add" else None), deg
    return ("diff+diff" if op == "add" else "diff-diff"), deg


def affine_expected(cls, op, xa, ya, u, v, L):
    """expected reading (object array) in the scale L and the magnitude of the terms"""
    sgn = 1 if op == "add" else -1
    if cls in ("point+diff", "point-diff"):
        k = (xa - u.off) * u.s + sgn * ya * v.s
        exp = k / L.s + L.off
        mag = fabs(xa) * (u.s / L.s) + fabs(ya) * (v.s / L.s) + abs(u.off) * (u.s / L.s) + abs(L.off)
        want_point = True
    elif cls == "diff+point":
        k = xa * u.s + (ya - v.off) * v.s
        exp = k / L.s + L.off
        mag = fabs(xa) * (u.s / L.s) + fabs(ya) * (v.s / L.s) + abs(v.off) * (v.s / L.s) + abs(L.off)
        want_point = True
    elif cls == "point-point":
        k = (xa - u.off) * u.s - (ya - v.off) * v.s
        exp = k / L.s
        mag = fabs(xa) * (u.s / L.s) + fabs(ya) * (v.s / L.s)
        want_point = False
    else:  # diff+/-diff
        k = xa * u.s + sgn * ya * v.s
        exp = k / L.s
        mag = fabs(xa) * (u.s / L.s) + fabs(ya) * (v.s / L.s)
        want_point = False
    return exp, mag, want_point


OPS = {"add": (operator.add, np.add, operator.iadd), "subtract": (operator.sub, np.subtract, operator.isub)}
FORM_SRC = {
    ("operator", "add"): "r = a + b", ("operator", "subtract"): "r = a - b",
    ("ufunc", "add"): "r = np.add(a, b)", ("ufunc", "subtract"): "r = np.subtract(a, b)",
    ("inplace", "add"): "r = a.copy(); r += b", ("inplace", "subtract"): "r = a.copy(); r -= b",
    ("out", "add"): "r = unyt.unyt_array(np.full(np.broadcast(a, b).shape, 7.0), 'm'); np.add(a, b, out=r)",
    ("out", "subtract"): "r = unyt.unyt_array(np.full(np.broadcast(a, b).shape, 7.0), 'm'); np.subtract(a, b, out=r)",
    ("outer", "add"): "r = np.add.outer(a, b)", ("outer", "subtract"): "r = np.subtract.outer(a, b)",
}


OUT_RETURN = [None]
TARGET = [None]


def run_form(form, op, a, b):
    OUT_RETURN[0] = None
    TARGET[0] = None
    o, uf, io = OPS[op]
    if form == "operator":
        return o(a, b)
    if form == "ufunc":
        return uf(a, b)
    if form == "inplace":
        r = a.copy()
        TARGET[0] = r
        r = io(r, b)
        return r
    if form == "out":
        out = unyt_array(np.full(np.broadcast(a, b).shape, 7.0), "m")
        TARGET[0] = out
        ret = uf(a, b, out=out)
        OUT_RETURN[0] = ret
        return out
    if form == "outer":
        return uf.outer(a, b)
    raise KeyError(form)


def arith_replay(form, op, xv, yv, u, v, sa, sb, check):
    return replay_script(CREG_SETUP + "a = %s\nb = %s\n" % (lit(xv, u, sa), lit(yv, v, sb)) + check % FORM_SRC[(form, op)])


REFUSE_CHECK = "try:\n    %s\nexcept Exception as e:\n    print('raised', type(e).__name__); sys.exit(0)\nprint('returned', repr(r)); sys.exit(1)\n"


def value_check(exp, mag, labname):
    e = [float(x) for x in np.asarray(exp, dtype=object).ravel()]
    m = max(float(x) for x in np.asarray(mag, dtype=object).ravel())
    return ("%s\n" + "print(repr(r))\nexp = np.array(%r)\ngot = np.asarray(r, dtype='float64').ravel()\n"
            "bad = got.shape != exp.shape or np.any(np.abs(got - exp) > %r)\n"
            "print('expected', exp, %r)\nsys.exit(1 if bad else 0)\n" % (e, max(1e-9 * (m + 1), 1e-300), labname))


def run_additive():
    units = arith_units()
    forms = ["operator", "ufunc", "inplace", "out", "outer"]
    shapes = [(True, True), (False, True), (True, False), (False, False)]
    for u in units:
        for v in units:
            for op in ("add", "subtract"):
                cls, deg = classify(op, u, v)
                for form in forms:
                    for sa, sb in shapes:
                        if form == "outer" and (sa or sb):
                            continue
                        if form == "inplace" and sa and not sb:
                            continue
                        if form in ("inplace", "out") and (sa != sb) and rng.random() < 0.5:
                            continue
                        n = 3
                        xv = readings(1, nonzero=True) if sa else [rng.choice([-40.0, 37.5, 100.0]), 0.0] + readings(n - 2, nonzero=True)
                        yv = readings(1, nonzero=True) if sb else [0.0] + readings(n - 1, nonzero=True)
                        dt = "int64" if (rng.random() < 0.2 and form in ("operator", "ufunc", "outer")) else None
                        if dt:
                            xv = [float(int(x)) or 1.0 for x in xv]
                            yv = [float(int(y)) or 2.0 for y in yv]
                            if not sa:
                                xv[1] = 0.0
                        a = mk(xv, u, sa, dt)
                        b = mk(yv, v, sb, dt)
                        a0 = np.array(a, dtype="float64")
                        st, r = safe(run_form, form, op, a, b)
                        if st == "ok" and form == "out" and cls is not None and cls != "two-offset-scales":
                            ret = OUT_RETURN[0]
                            if ret is not r and (units_of(ret) is None or str(units_of(ret).expr) != str(units_of(r).expr)
                                                 or not np.array_equal(np.asarray(ret), np.asarray(r))):
                                fail("C08[label:%s:%s:out-vs-return]" % (cls, deg),
                                     "np.%s(%r, %r, out=o): o is %r but the call returned %r" % (op, u, v, r, ret),
                                     replay_script(CREG_SETUP + "a = %s\nb = %s\n" % (lit(xv, u, sa), lit(yv, v, sb))
                                                   + "o = unyt.unyt_array(np.full(np.broadcast(a, b).shape, 7.0), 'm')\nr = np.%s(a, b, out=o)\n" % op
                                                   + "print(repr(o), repr(r))\nsys.exit(1 if str(o.units) != str(r.units) else 0)\n"))
                        if cls is None:
                            R.case("C08[unjudged:%s:%s]" % (op, form), nontrivial=False)
                            continue
                        if cls == "two-offset-scales":
                            key = "C08[mixed:%s:%s]" % (op, form)
                            R.case(key, sample={"op": op, "form": form, "a": repr(u), "b": repr(v)})
                            if st != "exc":
                                fail(key, "%s of two different offset scales %r and %r (%s form) returned %r instead of raising"
                                     % (op, u, v, form, r), arith_replay(form, op, xv, yv, u, v, sa, sb, REFUSE_CHECK))
                            elif form in ("inplace", "out") and TARGET[0] is not None:
                                # a refusal must not have delivered the sum through the target
                                t = TARGET[0]
                                want = a0 if form == "inplace" else np.full(np.shape(t), 7.0)
                                wantu = str(u.unit.expr) if form == "inplace" else "m"
                                if not np.array_equal(np.asarray(t, dtype="float64"), np.broadcast_to(want, np.shape(t))) or str(t.units.expr) != wantu:
                                    fail("C08[mixed-writes:%s:%s]" % (op, form),
                                         "%s of %r and %r (%s form) raised %s but the target now holds %r"
                                         % (op, u, v, form, type(r).__name__, t))
                            continue
                        key = "C08[affine:%s:%s:%s]" % (cls, deg, form)
                        if st == "exc":
                            R.case(key, nontrivial=False)
                            continue
                        R.case(key, sample={"class": cls, "form": form, "a": repr(u), "b": repr(v)})
                        VALUE_CASES["n"] += 1
                        VALUE_CASES[cls + ":" + deg] = VALUE_CASES.get(cls + ":" + deg, 0) + 1
                        lab = units_of(r)
                        L = describe(lab) if lab is not None else None
                        xa = fr_arr(xv[:1]).reshape(()) if sa else fr_arr(xv)
                        ya = fr_arr(yv[:1]).reshape(()) if sb else fr_arr(yv)
                        if form == "outer":
                            xa, ya = xa[:, None], ya[None, :]
                        if L is None:
                            fail("C08[label:%s:%s]" % (cls, form), "%s %r %r (%s): result %r carries no temperature unit" % (op, u, v, form, r))
                            continue
                        exp, mag, want_point = affine_expected(cls, op, xa, ya, u, v, L)
                        if L.point != want_point:
                            fail("C08[label:%s:%s:%s]" % (cls, deg, form),
                                 "%s of %s %r and %s %r (%s) is labelled %s, a %s scale; a %s needs a %s scale"
                                 % (op, xv, u, yv, v, form, L.name, "point" if L.point else "difference", cls,
                                    "point" if want_point else "difference"),
                                 arith_replay(form, op, xv, yv, u, v, sa, sb,
                                              "%s\nprint(repr(r))\nsys.exit(1 if bool(r.units.base_offset) != " + repr(want_point) + " else 0)\n"))
                            continue
                        msg = compare(np.asarray(r), exp, mag)
                        if msg:
                            fail(key, "%s of %s %r and %s %r (%s form) is labelled %s: %s" % (op, xv, u, yv, v, form, L.name, msg),
                                 arith_replay(form, op, xv, yv, u, v, sa, sb, value_check(exp, mag, L.name)))


CMP = {"lt": (operator.lt, np.less), "le": (operator.le, np.less_equal), "gt": (operator.gt, np.greater),
       "ge": (operator.ge, np.greater_equal), "eq": (operator.eq, np.equal), "ne": (operator.ne, np.not_equal)}
SEL = {"maximum": np.maximum, "minimum": np.minimum, "fmax": np.fmax, "fmin": np.fmin}


def run_compare():
    units = arith_units()
    for u in units:
        for v in units:
            both_points = u.point and v.point
            both_diffs = not u.point and not v.point
            if not (both_points or both_diffs):
                R.case("C08[unjudged:compare-point-diff]", nontrivial=False)
                continue
            xv = [-40.0, 0.0] + readings(2, nonzero=True)
            # partner readings: the same kelvin value shifted up / down by a clear margin
            xa = fr_arr(xv)
            kx = u.kelvin(xa) if both_points else xa * u.s
            shift = [Fr(7), Fr(-3), Fr(11, 2), Fr(-250)]
            ky = kx + np.array(shift, dtype=object)
            ya = (ky / v.s + v.off) if both_points else ky / v.s
            yv = [float(y) for y in ya]
            ky = v.kelvin(fr_arr(yv)) if both_points else fr_arr(yv) * v.s   # what was really passed
            a, b = mk(xv, u), mk(yv, v)
            mixed = both_points and not same_scale(u, v)
            kind = "two-offset-scales" if mixed else ("points" if both_points else "diffs")
            for name, (o, uf) in CMP.items():
                truth = np.array([o(p, q) for p, q in zip(kx, ky)])
                for form, f in (("operator", o), ("ufunc", uf)):
                    key = "C08[compare:%s:%s:%s]" % (kind, name, form)
                    st, r = safe(f, a, b)
                    R.case(key, nontrivial=(st == "ok" or mixed))
                    if st == "exc":
                        continue
                    if not np.array_equal(np.asarray(r, dtype=bool), truth):
                        src = {"lt": "<", "le": "<=", "gt": ">", "ge": ">=", "eq": "==", "ne": "!="}[name]
                        call = "a %s b" % src if form == "operator" else "np.%s(a, b)" % uf.__name__
                        fail(key, "%s %r %s %s %r (%s) gave %r, the kelvin comparison is %r" % (xv, u, name, yv, v, form, r, truth),
                             replay_script(CREG_SETUP + "a = %s\nb = %s\ntry:\n    r = %s\nexcept Exception as e:\n    print('raised'); sys.exit(0)\n"
                                           "print(r)\nsys.exit(1 if list(np.asarray(r, dtype=bool)) != %r else 0)\n"
                                           % (lit(xv, u), lit(yv, v), call, [bool(t) for t in truth])))
            for name, uf in SEL.items():
                key = "C08[select:%s:%s]" % (kind, name)
                st, r = safe(uf, a, b)
                R.case(key, nontrivial=(st == "ok" or mixed))
                call = "r = np.%s(a, b)" % name
                if mixed:
                    if st != "exc":
                        fail("C08[mixed:%s:ufunc]" % name, "np.%s of two different offset scales %r, %r returned %r" % (name, u, v, r),
                             replay_script(CREG_SETUP + "a = %s\nb = %s\n" % (lit(xv, u), lit(yv, v)) + REFUSE_CHECK % call))
                    continue
                if st == "exc":
                    continue
                L = describe(r.units)
                pick = max if name in ("maximum", "fmax") else min
                if L is None or L.point != both_points:
                    fail(key, "np.%s(%r, %r) labelled %r" % (name, u, v, r.units))
                    continue
                kk = np.array([pick(p, q) for p, q in zip(kx, ky)], dtype=object)
                exp = (kk / L.s + L.off) if both_points else kk / L.s
                mag = fabs(kk) / L.s + abs(L.off)
                msg = compare(np.asarray(r), exp, mag)
                if msg:
                    fail(key, "np.%s(%s %r, %s %r) = %r: %s" % (name, xv, u, yv, v, r, msg),
                         replay_script(CREG_SETUP + "a = %s\nb = %s\n%s\nprint(repr(r))\nexp = np.array(%r)\n"
                                       "sys.exit(1 if np.any(np.abs(np.asarray(r) - exp) > 1e-9*(np.abs(exp)+500)) else 0)\n"
                                       % (lit(xv, u), lit(yv, v), call, [float(e) for e in exp])))


# ----------------------------------------------------------------------------- 4. refusals
def offset_units():
    out = [TU("degC"), TU("degC", spelled="°C"), TU("degC", "m"), TU("degC", "k"), TU("degF"),
           TU("degre", reg=creg), TU("degre", "m", reg=creg), TU("degC", reg=creg)]
    if not QUICK:
        out += [TU("degC", "da"), TU("degC", "µ"), TU("degF", spelled="fahrenheit"), TU("degF", reg=creg),
                TU("degre", "k", reg=creg)]
    return out


BIN = {  # name: (operator or None, ufunc or None, in-place operator or None, source forms)
    "multiply": (operator.mul, np.multiply, operator.imul, "*"),
    "divide": (operator.truediv, np.true_divide, operator.itruediv, "/"),
    "floor_divide": (operator.floordiv, np.floor_divide, operator.ifloordiv, "//"),
    "remainder": (operator.mod, np.remainder, operator.imod, "%"),
    "fmod": (None, np.fmod, None, None),
    "divmod": (divmod, np.divmod, None, None),
    "hypot": (None, np.hypot, None, None),
    "matmul": (operator.matmul, np.matmul, None, "@"),
}
if hasattr(np, "vecdot"):
    BIN["vecdot"] = (None, np.vecdot, None, None)


def refusal_replay(setup, stmt, result="r"):
    body = CREG_SETUP + setup + "try:\n    %s\nexcept Exception as e:\n    print('raised', type(e).__name__, e); sys.exit(0)\n" % stmt
    body += "print('returned', repr(%s)); sys.exit(1)\n" % result
    return replay_script(body)


def mutate_replay(setup, stmt, target):
    body = CREG_SETUP + setup + "before = np.array(%s, dtype='float64')\ntry:\n    %s\nexcept Exception as e:\n    print('raised', type(e).__name__)\n" % (target, stmt)
    body += "print(before, '->', np.asarray(%s))\nsys.exit(1 if not np.array_equal(before, np.asarray(%s, dtype='float64')) else 0)\n" % (target, target)
    return replay_script(body)


def demand_raise(key, st, r, desc, replay):
    key = norm(key)
    R.case(key, sample={"refuse": desc})
    if st != "exc":
        rr = repr(r)
        fail(key, "%s returned %s instead of raising" % (desc, rr[:200]), replay)


def run_refusals():
    for x_tu in offset_units():
        other = TU("degF") if x_tu.base != "degF" else TU("degC")
        xv = [3.0, -40.0] + readings(1, nonzero=True)
        partners = [
            ("same", lambda: mk([2.0, 5.0, -1.5], x_tu), lit([2.0, 5.0, -1.5], x_tu)),
            ("same-scalar", lambda: mk([2.0], x_tu, True), lit([2.0], x_tu, True)),
            ("other-offset", lambda: mk([2.0, 5.0, -1.5], other), lit([2.0, 5.0, -1.5], other)),
            ("K", lambda: mk([2.0, 5.0, -1.5], TU("K")), lit([2.0, 5.0, -1.5], TU("K"))),
            ("delta", lambda: mk([2.0], TU("delta_degC"), True), lit([2.0], TU("delta_degC"), True)),
            ("length", lambda: unyt_array([2.0, 5.0, -1.5], "m"), "unyt.unyt_array([2.0, 5.0, -1.5], 'm')"),
            ("dimensionless", lambda: unyt_quantity(2.0, "dimensionless"), "unyt.unyt_quantity(2.0, 'dimensionless')"),
            ("int", lambda: 2, "2"),
            ("float", lambda: 2.5, "2.5"),
            ("ndarray", lambda: np.array([2.0, 5.0, -1.5]), "np.array([2.0, 5.0, -1.5])"),
        ]
        for opname, (o, uf, io, sym) in BIN.items():
            for pname, pmk, psrc in partners:
                for order in ("xp", "px"):
                    for xs in (False, True):
                        if opname in ("matmul", "vecdot") and (xs or pname in ("same-scalar", "delta", "dimensionless", "int", "float")):
                            continue
                        if xs and rng.random() < 0.5:
                            continue
                        xsrc = lit(xv, x_tu, xs)
                        if order == "xp":
                            setup = "a = %s\nb = %s\n" % (xsrc, psrc)
                        else:
                            setup = "a = %s\nb = %s\n" % (psrc, xsrc)

                        def operands():
                            x = mk(xv, x_tu, xs)
                            p = pmk()
                            return (x, p) if order == "xp" else (p, x)
                        what = "%s of %s %r and %s (%s)" % (opname, "scalar" if xs else "array", x_tu, pname, "offset left" if order == "xp" else "offset right")
                        if o is not None:
                            a, b = operands()
                            st, r = safe(o, a, b)
                            src = ("r = a %s b" % sym) if sym else "r = divmod(a, b)"
                            demand_raise("C08[refuse:%s:%s]" % (opname, "operator" if order == "xp" else "reflected-operator"),
                                         st, r, what + " operator", refusal_replay(setup, src))
                        if uf is not None:
                            a, b = operands()
                            st, r = safe(uf, a, b)
                            demand_raise("C08[refuse:%s:ufunc]" % opname, st, r, what + " ufunc",
                                         refusal_replay(setup, "r = np.%s(a, b)" % uf.__name__))
                            if opname not in ("divmod", "matmul", "vecdot"):
                                a, b = operands()
                                try:
                                    shp = np.broadcast(a, b).shape
                                except ValueError:
                                    shp = None
                                if shp is not None:
                                    for oname, omk, osrc in (("out", lambda: unyt_array(np.full(shp, 7.0), "m"), "unyt.unyt_array(np.full(np.broadcast(a, b).shape, 7.0), 'm')"),
                                                             ("out-ndarray", lambda: np.full(shp, 7.0), "np.full(np.broadcast(a, b).shape, 7.0)")):
                                        out = omk()
                                        st, r = safe(uf, a, b, out=out)
                                        k = "C08[refuse:%s:%s]" % (opname, oname)
                                        demand_raise(k, st, r, what + " ufunc out=",
                                                     refusal_replay(setup + "o = %s\n" % osrc, "r = np.%s(a, b, out=o)" % uf.__name__))
                                        if st == "exc" and not np.all(np.asarray(out) == 7.0):
                                            fail("C08[refuse-writes:%s:%s]" % (opname, oname),
                                                 "%s with out= raised %s but had already written %r into out" % (what, type(r).__name__, np.asarray(out)),
                                                 mutate_replay(setup + "o = %s\n" % osrc, "np.%s(a, b, out=o)" % uf.__name__, "o"))
                                if not xs and pname in ("same", "K", "ndarray", "length"):
                                    a, b = operands()
                                    st, r = safe(uf.outer, a, b)
                                    demand_raise("C08[refuse:%s:outer]" % opname, st, r, what + " ufunc.outer",
                                                 refusal_replay(setup, "r = np.%s.outer(a, b)" % uf.__name__))
                        if io is not None:
                            a, b = operands()
                            if isinstance(a, np.ndarray) and a.shape == np.broadcast(a, b).shape:
                                a = a.astype("float64") if not isinstance(a, unyt_array) else a
                                before = np.array(a, dtype="float64")

                                def inplace():
                                    return io(a, b)
                                st, r = safe(inplace)
                                k = "C08[refuse:%s:%s]" % (opname, "inplace" if order == "xp" else "inplace-offset-right")
                                demand_raise(k, st, r, what + " in-place", refusal_replay(setup, "a %s= b; r = a" % sym))
                                if st == "exc" and not np.array_equal(before, np.asarray(a, dtype="float64")):
                                    fail("C08[refuse-writes:%s:%s]" % (opname, "inplace" if order == "xp" else "inplace-offset-right"),
                                         "%s in-place raised %s but the left operand was already overwritten: %r -> %r"
                                         % (what, type(r).__name__, before, np.asarray(a)),
                                         mutate_replay(setup, "a %s= b" % sym, "a"))
        # ---- powers and roots
        for xs in (False, True):
            xsrc = lit(xv, x_tu, xs)
            setup = "a = %s\n" % xsrc
            for uname in ("square", "sqrt", "cbrt", "reciprocal"):
                uf = getattr(np, uname)
                x = mk([abs(t) + 1.0 for t in xv], x_tu, xs)   # positive readings: sqrt stays real
                s2 = "a = %s\n" % lit([abs(t) + 1.0 for t in xv], x_tu, xs)
                st, r = safe(uf, x)
                demand_raise("C08[refuse:%s:ufunc]" % uname, st, r, "np.%s of %r" % (uname, x_tu), refusal_replay(s2, "r = np.%s(a)" % uname))
                if not xs:
                    out = unyt_array(np.full(3, 7.0), "m")
                    st, r = safe(uf, x, out=out)
                    demand_raise("C08[refuse:%s:out]" % uname, st, r, "np.%s(out=) of %r" % (uname, x_tu),
                                 refusal_replay(s2 + "o = unyt.unyt_array(np.full(3, 7.0), 'm')\n", "r = np.%s(a, out=o)" % uname))
                    if st == "exc" and not np.all(np.asarray(out) == 7.0):
                        fail("C08[refuse-writes:%s:out]" % uname, "np.%s(out=) of %r raised but wrote %r" % (uname, x_tu, np.asarray(out)),
                             mutate_replay(s2 + "o = unyt.unyt_array(np.full(3, 7.0), 'm')\n", "np.%s(a, out=o)" % uname, "o"))
                    y = x.copy()
                    st, r = safe(uf, y, out=y)
                    demand_raise("C08[refuse:%s:out-self]" % uname, st, r, "np.%s(a, out=a) of %r" % (uname, x_tu),
                                 refusal_replay(s2, "r = np.%s(a, out=a)" % uname))
                    if st == "exc" and not np.array_equal(np.asarray(y), np.asarray(x)):
                        fail("C08[refuse-writes:%s:out-self]" % uname, "np.%s(a, out=a) of %r raised but a is now %r" % (uname, x_tu, np.asarray(y)),
                             mutate_replay(s2, "np.%s(a, out=a)" % uname, "a"))
            for p, ptag, psrc in ((2, "2", "2"), (3, "3", "3"), (0.5, "half", "0.5"), (-1, "neg", "-1"), (0, "0", "0"),
                                  (1.5, "frac", "1.5"), (-2.0, "neg", "-2.0"), (Fr(1, 3), "frac", "Fraction(1, 3)"),
                                  (unyt_quantity(2.0, "dimensionless"), "2q", "unyt.unyt_quantity(2.0, 'dimensionless')"),
                                  (0.0, "0", "0.0"), (np.float64(2.0), "2", "np.float64(2.0)")):
                fam = "power0" if ptag == "0" else "power"
                pset = "from fractions import Fraction\n" + "a = %s\np = %s\n" % (lit([abs(t) + 1.0 for t in xv], x_tu, xs), psrc)
                x = mk([abs(t) + 1.0 for t in xv], x_tu, xs)
                st, r = safe(operator.pow, x, p)
                demand_raise("C08[refuse:%s:operator]" % fam, st, r, "%r ** %s" % (x_tu, psrc), refusal_replay(pset, "r = a ** p"))
                if isinstance(p, Fr):
                    continue
                st, r = safe(np.power, x, p)
                demand_raise("C08[refuse:%s:ufunc]" % fam, st, r, "np.power(%r, %s)" % (x_tu, psrc), refusal_replay(pset, "r = np.power(a, p)"))
                if not xs:
                    y = x.copy()

                    def ip():
                        z = y
                        z **= p
                        return z
                    st, r = safe(ip)
                    demand_raise("C08[refuse:%s:inplace]" % fam, st, r, "%r **= %s" % (x_tu, psrc), refusal_replay(pset, "a **= p; r = a"))
                    if st == "exc" and not np.array_equal(np.asarray(y), np.asarray(x)):
                        fail("C08[refuse-writes:%s:inplace]" % fam, "%r **= %s raised but the array is now %r" % (x_tu, psrc, np.asarray(y)),
                             mutate_replay(pset, "a **= p", "a"))
                    if not isinstance(p, unyt_quantity):
                        st, r = safe(np.power, x, np.full(3, float(p)))
                        demand_raise("C08[refuse:%s:ufunc-array-exponent]" % fam, st, r, "np.power(%r, [%s]*3)" % (x_tu, psrc),
                                     refusal_replay(pset, "r = np.power(a, np.full(3, float(p)))"))
                        out = unyt_array(np.full(3, 7.0), "m")
                        st, r = safe(np.power, x, p, out=out)
                        demand_raise("C08[refuse:%s:out]" % fam, st, r, "np.power(%r, %s, out=)" % (x_tu, psrc),
                                     refusal_replay(pset + "o = unyt.unyt_array(np.full(3, 7.0), 'm')\n", "r = np.power(a, p, out=o)"))
                        if st == "exc" and not np.all(np.asarray(out) == 7.0):
                            fail("C08[refuse-writes:%s:out]" % fam, "np.power(%r, %s, out=) raised but wrote %r" % (x_tu, psrc, np.asarray(out)),
                                 mutate_replay(pset + "o = unyt.unyt_array(np.full(3, 7.0), 'm')\n", "np.power(a, p, out=o)", "o"))
            # power 1 may return the same quantity
            x = mk(xv, x_tu, xs)
            for form, f, src in (("operator", lambda q: q ** 1, "a ** 1"), ("ufunc", lambda q: np.power(q, 1), "np.power(a, 1)"),
                                 ("operator-float", lambda q: q ** 1.0, "a ** 1.0")):
                key = "C08[power1:%s]" % form
                st, r = safe(f, x)
                R.case(key, nontrivial=(st == "ok"))
                if st == "ok":
                    L = describe(r.units) if units_of(r) is not None else None
                    xa = fr_arr(xv[:1]).reshape(()) if xs else fr_arr(xv)
                    if L is None or not same_scale(L, x_tu) or compare(np.asarray(r), xa, fabs(xa)):
                        fail(key, "%s of %s %r gave %r, power 1 must leave the quantity unchanged" % (src, xv, x_tu, r),
                             replay_script(CREG_SETUP + "a = %s\nr = %s\nprint(repr(r))\nsys.exit(1 if (r.units != a.units or r.units.base_offset != a.units.base_offset "
                                           "or not np.allclose(np.asarray(r), np.asarray(a), rtol=1e-12, atol=0)) else 0)\n" % (lit(xv, x_tu, xs), src)))
        # ---- product-type reductions and array functions
        x3 = [2.0, -3.0, 4.5]
        s3 = "a = %s\nm2 = %s\nw = np.array([2.0, 5.0, -1.5])\n" % (lit(x3, x_tu), "unyt.unyt_array(np.array([[2.0, -3.0], [4.5, 1.0]]), %s)" % x_tu.ctor)
        a3 = mk(x3, x_tu)
        m2 = unyt_array(np.array([[2.0, -3.0], [4.5, 1.0]]), x_tu.unit)
        w = np.array([2.0, 5.0, -1.5])
        red = [
            ("multiply.reduce", lambda: np.multiply.reduce(a3), "r = np.multiply.reduce(a)"),
            ("multiply.reduce-axis", lambda: np.multiply.reduce(m2, axis=0), "r = np.multiply.reduce(m2, axis=0)"),
            ("multiply.reduce-axis1", lambda: np.multiply.reduce(m2, axis=1), "r = np.multiply.reduce(m2, axis=1)"),
            ("multiply.accumulate", lambda: np.multiply.accumulate(a3), "r = np.multiply.accumulate(a)"),
            ("divide.reduce", lambda: np.true_divide.reduce(a3), "r = np.true_divide.reduce(a)"),
            ("divide.reduce-axis", lambda: np.true_divide.reduce(m2, axis=1), "r = np.true_divide.reduce(m2, axis=1)"),
            ("np.prod", lambda: np.prod(a3), "r = np.prod(a)"),
            ("np.prod-axis", lambda: np.prod(m2, axis=0), "r = np.prod(m2, axis=0)"),
            ("method-prod", lambda: a3.prod(), "r = a.prod()"),
            ("np.nanprod", lambda: np.nanprod(a3), "r = np.nanprod(a)"),
            ("np.cumprod", lambda: np.cumprod(a3), "r = np.cumprod(a)"),
            ("np.var", lambda: np.var(a3), "r = np.var(a)"),
            ("method-var", lambda: a3.var(), "r = a.var()"),
            ("np.std", lambda: np.std(a3), "r = np.std(a)"),
            ("method-std", lambda: a3.std(), "r = a.std()"),
            ("np.linalg.norm", lambda: np.linalg.norm(a3), "r = np.linalg.norm(a)"),
            ("np.dot-self", lambda: np.dot(a3, a3), "r = np.dot(a, a)"),
            ("np.dot-bare", lambda: np.dot(a3, w), "r = np.dot(a, w)"),
            ("np.dot-bare-left", lambda: np.dot(w, a3), "r = np.dot(w, a)"),
            ("method-dot-bare", lambda: a3.dot(w), "r = a.dot(w)"),
            ("np.inner-bare", lambda: np.inner(a3, w), "r = np.inner(a, w)"),
            ("np.inner-self", lambda: np.inner(a3, a3), "r = np.inner(a, a)"),
            ("np.outer-bare", lambda: np.outer(a3, w), "r = np.outer(a, w)"),
            ("np.outer-self", lambda: np.outer(a3, a3), "r = np.outer(a, a)"),
            ("np.kron-bare", lambda: np.kron(a3, w), "r = np.kron(a, w)"),
            ("np.vdot-bare", lambda: np.vdot(a3, w), "r = np.vdot(a, w)"),
            ("np.tensordot-bare", lambda: np.tensordot(a3, w, axes=1), "r = np.tensordot(a, w, axes=1)"),
            ("np.cross-self", lambda: np.cross(a3, a3[::-1]), "r = np.cross(a, a[::-1])"),
            ("np.cross-bare", lambda: np.cross(a3, w), "r = np.cross(a, w)"),
            ("np.matmul-bare", lambda: np.matmul(m2, np.eye(2) * 2), "r = np.matmul(m2, np.eye(2)*2)"),
            ("np.linalg.det", lambda: np.linalg.det(m2), "r = np.linalg.det(m2)"),
            ("np.linalg.inv", lambda: np.linalg.inv(m2), "r = np.linalg.inv(m2)"),
            ("np.linalg.matrix_power", lambda: np.linalg.matrix_power(m2, 2), "r = np.linalg.matrix_power(m2, 2)"),
        ]
        for name, f, src in red:
            st, r = safe(f)
            demand_raise("C08[refuse-func:%s]" % name, st, r, "%s on %r" % (src, x_tu), refusal_replay(s3, src))


# ----------------------------------------------------------------------------- 5. reductions
def run_reductions():
    units = arith_units()
    for u in units:
        kind = "point" if u.point else "diff"
        deg = "kelvin-degree" if u.s == 1 else "other-degree"
        for trial in range(2):
            xv = [37.5, -40.0, 0.0] + readings(2, nonzero=True) if trial == 0 else readings(5, nonzero=True)
            m = [[xv[0], xv[1]], [xv[2], xv[3]], [xv[4], xv[0] + 9.0]]
            xa = fr_arr(xv)
            ma = fr_arr([t for row in m for t in row], (3, 2))
            q0 = 12.5
            setup = "a = %s\nm2 = unyt.unyt_array(np.array(%r), %s)\nq = %s\n" % (lit(xv, u), m, u.ctor, lit([q0], u, True))

            def arr():
                return mk(xv, u)

            def mat():
                return unyt_array(np.array(m), u.unit)
            q = mk([q0], u, True)
            qa = fr_arr([q0])
            # (name, call, source, expected differences in the unit's own degrees, magnitude)
            d1 = xa[1:] - xa[:-1]
            mg1 = fabs(xa[1:]) + fabs(xa[:-1])
            cases = [
                ("np.diff", lambda: np.diff(arr()), "r = np.diff(a)", d1, mg1),
                ("np.diff-n2", lambda: np.diff(arr(), n=2), "r = np.diff(a, n=2)", d1[1:] - d1[:-1], mg1[1:] + mg1[:-1]),
                ("np.diff-axis0", lambda: np.diff(mat(), axis=0), "r = np.diff(m2, axis=0)", ma[1:] - ma[:-1], fabs(ma[1:]) + fabs(ma[:-1])),
                ("np.diff-prepend", lambda: np.diff(arr(), prepend=q), "r = np.diff(a, prepend=q)",
                 np.concatenate([qa, xa])[1:] - np.concatenate([qa, xa])[:-1], fabs(np.concatenate([qa, xa])[1:]) + fabs(np.concatenate([qa, xa])[:-1])),
                ("np.ediff1d", lambda: np.ediff1d(arr()), "r = np.ediff1d(a)", d1, mg1),
                ("np.ptp", lambda: np.ptp(arr()), "r = np.ptp(a)", np.array(max(xa) - min(xa), dtype=object), np.array(abs(max(xa)) + abs(min(xa)), dtype=object)),
                ("np.ptp-axis", lambda: np.ptp(mat(), axis=0), "r = np.ptp(m2, axis=0)",
                 np.array([max(ma[:, j]) - min(ma[:, j]) for j in range(2)], dtype=object),
                 np.array([abs(max(ma[:, j])) + abs(min(ma[:, j])) for j in range(2)], dtype=object)),
                ("subtract.reduce-2", lambda: np.subtract.reduce(arr()[:2]), "r = np.subtract.reduce(a[:2])",
                 np.array(xa[0] - xa[1], dtype=object), np.array(abs(xa[0]) + abs(xa[1]), dtype=object)),
                ("np.gradient", lambda: np.gradient(arr()), "r = np.gradient(a)",
                 np.concatenate([[xa[1] - xa[0]], (xa[2:] - xa[:-2]) / 2, [xa[-1] - xa[-2]]]),
                 np.concatenate([[abs(xa[1]) + abs(xa[0])], fabs(xa[2:]) + fabs(xa[:-2]), [abs(xa[-1]) + abs(xa[-2])]])),
            ]
            if not u.point:
                sm = sum(xa)
                smg = sum(abs(t) for t in xa)
                cases += [
                    ("np.sum", lambda: np.sum(arr()), "r = np.sum(a)", np.array(sm, dtype=object), np.array(smg, dtype=object)),
                    ("add.reduce", lambda: np.add.reduce(arr()), "r = np.add.reduce(a)", np.array(sm, dtype=object), np.array(smg, dtype=object)),
                    ("method-sum", lambda: arr().sum(), "r = a.sum()", np.array(sm, dtype=object), np.array(smg, dtype=object)),
                    ("np.cumsum", lambda: np.cumsum(arr()), "r = np.cumsum(a)", np.array([sum(xa[:i + 1]) for i in range(len(xa))], dtype=object),
                     np.array([smg] * len(xa), dtype=object)),
                    ("np.ediff1d-to_end", lambda: np.ediff1d(arr(), to_end=q), "r = np.ediff1d(a, to_end=q)",
                     np.concatenate([d1, qa]), np.concatenate([mg1, fabs(qa)])),
                    ("subtract.reduce-3", lambda: np.subtract.reduce(arr()[:3]), "r = np.subtract.reduce(a[:3])",
                     np.array(xa[0] - xa[1] - xa[2], dtype=object), np.array(abs(xa[0]) + abs(xa[1]) + abs(xa[2]), dtype=object)),
                ]
            for name, f, src, dexp, dmag in cases:
                key = "C08[reduce:%s:%s:%s]" % (name.split("-")[0], kind, deg)
                st, r = safe(f)
                if st == "exc":
                    R.case(key, nontrivial=False)
                    if not u.point and name in ("np.diff", "np.ptp", "np.ediff1d", "np.sum", "add.reduce"):
                        # differences of differences must work: nothing in the statement lets it refuse,
                        # but the statement only constrains returned values -> note, not failure
                        R.notes.append("%s on %r raised %r" % (name, u, r))
                    continue
                R.case(key, sample={"reduce": name, "unit": repr(u)})
                VALUE_CASES["n"] += 1
                lab = units_of(r)
                L = describe(lab) if lab is not None else None
                if L is None or L.point:
                    fail("C08[reduce-label:%s:%s]" % (name.split("-")[0], kind), "%s on %s %r is labelled %r; a difference of temperatures needs a difference scale"
                         % (src, xv, u, lab),
                         replay_script(CREG_SETUP + setup + "try:\n    %s\nexcept Exception as e:\n    print('raised'); sys.exit(0)\nprint(repr(r))\n"
                                       "sys.exit(1 if (not hasattr(r, 'units') or r.units.base_offset != 0 or str(r.units.dimensions) != '(temperature)') else 0)\n" % src))
                    continue
                exp = dexp * u.s / L.s
                mag = dmag * u.s / L.s
                msg = compare(np.asarray(r), exp, mag)
                if msg:
                    e = [float(t) for t in np.asarray(exp, dtype=object).ravel()]
                    fail(key, "%s on %s %r is labelled %s: %s (a degree of %r is %s K)" % (src, xv, u, L.name, msg, u, float(u.s)),
                         replay_script(CREG_SETUP + setup + "try:\n    %s\nexcept Exception as e:\n    print('raised'); sys.exit(0)\nprint(repr(r))\nexp = np.array(%r)\n"
                                       "got = np.asarray(r, dtype='float64').ravel()\n"
                                       "sys.exit(1 if got.shape != exp.shape or np.any(np.abs(got - exp) > 1e-9*(np.abs(exp) + 1)) else 0)\n" % (src, e)))


def run_substring_names():
    """a user-defined scale whose delta unit's name happens to contain another temperature symbol"""
    reg = UnitRegistry()
    reg.add("degRe", 1.25, udims.temperature, offset=-218.52, prefixable=True)
    reg.add("delta_degRe", 1.25, udims.temperature, prefixable=True)
    setup = ("from unyt.unit_registry import UnitRegistry\nfrom unyt import dimensions as udims\nreg = UnitRegistry()\n"
             "reg.add('degRe', 1.25, udims.temperature, offset=-218.52, prefixable=True)\n"
             "reg.add('delta_degRe', 1.25, udims.temperature, prefixable=True)\n")
    d = Unit("delta_degRe", registry=reg)
    for other, s_o in (("R", Fr(5, 9)), ("K", Fr(1))):
        for op, sgn, sym in (("subtract", -1, "-"), ("add", 1, "+")):
            for order in ("custom-left", "custom-right"):
                key = "C08[affine:diff%sdiff:unit-name-substring]" % sym
                x, y = 8.0, 100.0
                a = unyt_quantity(x, d) if order == "custom-left" else unyt_quantity(x, other)
                b = unyt_quantity(y, other) if order == "custom-left" else unyt_quantity(y, d)
                sa, sb = (Fr(5, 4), s_o) if order == "custom-left" else (s_o, Fr(5, 4))
                st, r = safe(operator.sub if sgn < 0 else operator.add, a, b)
                R.case(key, nontrivial=(st == "ok"))
                if st == "exc":
                    continue
                lab = str(r.units.expr)
                sL = {"delta_degRe": Fr(5, 4), "R": Fr(5, 9), "K": Fr(1)}.get(lab)
                k = Fr(x) * sa + sgn * Fr(y) * sb
                if sL is None or r.units.base_offset != 0 or compare(np.asarray(r), np.array(k / sL, dtype=object), np.array(abs(Fr(x) * sa / sL) + abs(Fr(y) * sb / sL), dtype=object)) if sL else True:
                    asrc = "unyt.unyt_quantity(%r, %s)" % (x, "unyt.Unit('delta_degRe', registry=reg)" if order == "custom-left" else repr(other))
                    bsrc = "unyt.unyt_quantity(%r, %s)" % (y, repr(other) if order == "custom-left" else "unyt.Unit('delta_degRe', registry=reg)")
                    fail(key, "%r %s %r = %r, the kelvin value is %s" % (a, sym, b, r, float(k)),
                         replay_script(setup + "try:\n    r = %s %s %s\nexcept Exception as e:\n    print('raised'); sys.exit(0)\nprint(repr(r))\n"
                                       "sys.exit(1 if abs(float(r.value) * r.units.base_value - %r) > 1e-9 * 500 else 0)\n" % (asrc, sym, bsrc, float(k))))


# ----------------------------------------------------------------------------- 7. mixed widths
def run_mixed_widths():
    """point / difference arithmetic when the two operands are stored in different widths: the value is the
    affine one to the precision of the WIDER operand's data -- a double-precision difference is not rounded to
    the float of a narrow point's item size (and vice versa); point readings are small integers, exactly
    representable in every dtype used"""
    import itertools
    dvals = [1000.3, 18.0, -7.125, 0.1]
    pvals = [20, 21, -5, 100]
    scale = {"degC": 1.0, "degF": 5.0 / 9.0}
    for (pname, dname), pdt, order in itertools.product(
            (("degC", "delta_degF"), ("degF", "delta_degC"), ("degC", "delta_degC"), ("degF", "delta_degF")),
            ("int16", "int32", "float16", "float32", "float64"), ("point-first", "difference-first")):
        key = "C08[mixed-width:%s:%s:%s:%s]" % (order, pname, dname, pdt)
        R.case(key, sample={"point": pname, "difference": dname, "point dtype": pdt, "order": order})
        p = unyt_array(np.array(pvals, dtype=pdt), pname)
        d = unyt_array(np.array(dvals, dtype="float64"), dname)
        st, r = safe(lambda: (p + d) if order == "point-first" else (d + p))
        if st == "exc":
            continue                       # a refusal is allowed wherever no value is demanded
        ratio = scale["degC" if dname == "delta_degC" else "degF"] / scale[pname]
        exp = np.array(pvals, dtype="float64") + np.array(dvals) * ratio
        got = np.asarray(r.d, dtype="float64")
        lab = str(r.units.expr)
        if lab not in ("degC", "degF") or lab != pname or not np.allclose(got, exp, rtol=1e-9, atol=1e-9):
            src = ("p = unyt.unyt_array(np.array(%r, dtype=%r), %r)\nd = unyt.unyt_array(np.array(%r), %r)\n"
                   "r = %s\nexp = np.array(%r)\nprint(r, exp)\n"
                   "sys.exit(0 if str(r.units.expr) == %r and np.allclose(np.asarray(r.d, dtype='f8'), exp, rtol=1e-9, atol=1e-9) else 1)\n"
                   % (pvals, pdt, pname, dvals, dname, "p + d" if order == "point-first" else "d + p", [float(x) for x in exp], pname))
            fail("C08[mixed-width:%s:%s]" % (order, pdt), "%s %s(%s) and %s(float64): got %r %s, affine arithmetic gives %r %s"
                 % (order, pname, pdt, dname, got.tolist(), lab, exp.tolist(), pname), replay_script(src))


# ----------------------------------------------------------------------------- main
REPS = {"additive": 6, "compare": 6, "reductions": 6, "refusals": 3} if R.thorough else {}
for name, fn in (("conversions", run_conversions), ("additive", run_additive), ("compare", run_compare),
                 ("refusals", run_refusals), ("reductions", run_reductions), ("substring-names", run_substring_names),
                 ("mixed-widths", run_mixed_widths)):
    t0 = R.elapsed()
    try:
        for _rep in range(REPS.get(name, 1)):   # fresh random readings / shapes each repetition
            fn()
    except Exception as e:  # driver error, not a finding
        import traceback
        R.notes.append("DRIVER ERROR in %s: %r %s" % (name, e, traceback.format_exc()[-600:]))
    R.notes.append("%s: %.1fs" % (name, R.elapsed() - t0))

R.notes.append("additive/reduction cases that returned a value and were compared: %r" % (VALUE_CASES,))
if VALUE_CASES["n"] < 500:
    R.notes.append("WARNING: very few value-returning cases; the affine family is close to vacuous")
R.finish()
