"""C01 bounded stand-in: incommensurable quantities are never silently combined.

Runs the REAL unyt over an enumerated matrix
    operation x call form x ordered pair of operand kinds x dimension pair x shape/dtype
and checks, for every case whose operands have different physical dimensions, that the call
raises and leaves every operand (bytes, dtype, units) as it was.  Every case is a pair of
source strings (setup, call) that the driver exec()s; the replay is the same source plus the
check, so a replay runs exactly what the driver ran.

Oracle (from the statement only):
  * every operand gets a dimension class: D1 / D2 (dimensional quantity or homogeneous list of
    quantities), 1 (dimensionless quantity, percent, nonzero bare number/array), zero (all-zero
    BARE number or sequence: wildcard), mixed (a list holding quantities of two dimensions).
  * classes equal or a zero wildcard present  -> commensurable, nothing to check (only the
    (same, same) pair is run, as a control that the call form is well-formed).
  * otherwise the call must raise and leave operands unchanged, except
      - == / != (and equality-like array functions) may answer all-False / all-True,
      - < <= > >= may answer when one operand is dimensionless.

Which ufuncs are "commensurability-requiring" (REQ below): add, subtract, the six comparisons,
maximum/minimum/fmax/fmin, hypot, remainder(=mod), fmod, divmod (floor_divide + remainder),
arctan2, nextafter (direction is decided by comparing x1 with x2), and the ternary clip.
Deliberately NOT in REQ (NOTREQ below, with reasons): multiply/divide/floor_divide/power/matmul
family (result carries the combined unit), heaviside (x2 is the *value* at x1 == 0, it never
needs the dimension of x1), copysign/ldexp (second operand only supplies a sign/exponent),
logaddexp/logaddexp2 (unyt's documented policy for transcendental functions is to ignore units),
logical_* (truthiness only), bit operations (always raise), all unary ufuncs.
"""
import itertools
import operator
import os
import sys
import textwrap

sys.path.insert(0, os.path.dirname(os.path.abspath(__file__)))
from common import Run, replay_script

import numpy as np
import unyt
from unyt import unyt_array

R = Run("C01",
        "operation (18 commensurability-requiring binary ufuncs; ~140 call sites of array functions unyt implements, "
        "NumPy functions it lets fall through, unyt's own u* helpers, ndarray methods, item assignment, "
        "reduce(initial=), .to()/in_units/convert_to_units/to_value) x call form (call, out= unyt/ndarray/int/"
        "positional, outer, at, operator, in-place, int in-place) x ordered pair of 14 operand kinds (same unit, same "
        "dimension other unit, different dimension, zero quantity of another dimension, dimensionless, percent, bare "
        "scalar/array, zero scalar/array/list, list of quantities same/other/mixed) x dimension pair x shape/dtype; a "
        "case is non-trivial when its operands are incommensurable (oracle: raise + every operand byte/dtype/unit-"
        "identical; ==-like may answer all-False/True; ordering may accept a dimensionless operand; documented CGS<->MKS "
        "EM unit pairs are not counted as different dimension); same-unit controls are run but counted trivial",
        "quick: kinds matrix on 2 unit triples (shape/dtype rotated) + every ordered pair of 10 dimensions; thorough: "
        "kinds matrix on 4 triples x 7 shape combos (ufuncs) / x 7 dtypes (array functions) + every ordered pair of "
        "the 36 dimensions present in the default unit table; values random per seed, enumeration deterministic")

ENV = {"np": np, "unyt": unyt, "operator": operator}

# --------------------------------------------------------------------------------------------
# snapshot / replay machinery (SNAP_SRC is shared verbatim by driver and replays)
SNAP_SRC = '''
def _snap(v):
    import numpy as np
    if isinstance(v, np.ndarray):
        u = getattr(v, "units", None)
        us = None if u is None else (str(u.expr), float(u.base_value), float(u.base_offset or 0.0), str(u.dimensions))
        return ("nd", type(v).__name__, v.dtype.str, v.shape, v.view(np.ndarray).tobytes(), us)
    if isinstance(v, (list, tuple)):
        return ("seq", type(v).__name__, tuple(_snap(i) for i in v))
    return ("py", type(v).__name__, repr(v))
def _allbool(r, want):
    import numpy as np
    if isinstance(r, tuple):
        return False
    a = np.asarray(r)
    if a.dtype.kind not in "bfiu":
        return False
    return bool(np.all(a == want))
'''
exec(SNAP_SRC, ENV)
_snap = ENV["_snap"]
_allbool = ENV["_allbool"]

_CODE = {}


def _compiled(src):
    c = _CODE.get(src)
    if c is None:
        c = compile(src, "<c01-case>", "exec")
        if len(_CODE) < 200000:
            _CODE[src] = c
    return c


def make_replay(setup, call, names, mode):
    body = "import operator\n" + SNAP_SRC + "\n" + setup + "\n"
    body += "_names = %r\n_b = {n: _snap(eval(n)) for n in _names}\n_r = None\n_raised = None\ntry:\n" % (list(names),)
    body += textwrap.indent(call, "    ") + "\nexcept Exception as _e:\n    _raised = _e\n"
    body += "_a = {n: _snap(eval(n)) for n in _names}\n"
    body += "_mut = [n for n in _names if _a[n] != _b[n]]\n"
    body += "print('raised:', repr(_raised)[:200]); print('result:', repr(_r)[:200]); print('mutated operands:', _mut)\n"
    if mode == "raise":
        body += "if _raised is None or _mut:\n    sys.exit(1)\n"
    else:
        want = mode == "ne"
        body += "if _mut or (_raised is None and not _allbool(_r, %r)):\n    sys.exit(1)\n" % want
    return replay_script(body)


EVAL = {}          # (family, site) -> set of incommensurable pair classes evaluated there
FAILS = {}         # (family, site) -> {(cls, symptom): [what, replay, count]}
CONTROL_BAD = {}
DRIVER_ERR = {}


def run_case(family, site, cls, setup, call, names, mode, sample=None, form=None):
    """mode: 'raise' | 'eq' | 'ne' | 'control'.  names: operands whose state must survive a raise (for an allowed
    ==/!= answer only the inputs, i.e. names not starting with 'o', must survive)."""
    ident = "C01[%s:%s:%s]" % (family, site, cls)
    env = dict(ENV)
    try:
        exec(_compiled(setup), env)
        before = {n: _snap(env[n]) for n in names}
    except Exception as e:  # driver problem, not a finding
        DRIVER_ERR.setdefault(ident, "setup failed: %r :: %s" % (e, setup[:200]))
        return
    raised = None
    try:
        exec(_compiled(call), env)
    except Exception as e:
        raised = e
    if mode == "control":
        R.case(ident, nontrivial=False)
        if raised is not None:
            CONTROL_BAD.setdefault("%s:%s %s" % (family, site, call.strip()[:60]), repr(raised)[:80])
        return
    R.case(ident + "|" + (form or "") + "|" + call.strip()[:70], nontrivial=True, sample=sample)
    EVAL.setdefault((family, site), set()).add(cls)
    try:
        after = {n: _snap(env[n]) for n in names}
    except Exception as e:
        after = {n: ("unsnappable", repr(e)) for n in names}
    res = env.get("_r")
    sym = what = None
    if mode == "raise":
        mut = [n for n in names if after[n] != before[n]]
        if raised is None:
            sym, what = "returned", "returned %s instead of raising" % (repr(res)[:160],)
        elif mut:
            sym, what = "mutated-before-raise", "raised %r but operand(s) %s changed: %s -> %s" % (
                raised, mut, [before[n][2:4] + (before[n][-1],) for n in mut], [after[n][2:4] + (after[n][-1],) for n in mut])
    else:
        want = mode == "ne"
        watch = names if raised is not None else [n for n in names if not n.startswith("o")]
        mut = [n for n in watch if after[n] != before[n]]
        if raised is None and not _allbool(res, want):
            sym, what = "compared-by-value", "answered %s; required all-%s (or raise)" % (repr(res)[:160], want)
        elif mut:
            sym, what = "mutated-before-raise" if raised is not None else "mutated", "operand(s) %s changed (raised: %r)" % (mut, raised)
    if sym is None:
        return
    fsite, fcls = site, cls
    if family == "ufunc" and sym.startswith("mutated"):
        fcls = "any"
        retyped = [n for n in mut if before[n][0] == "nd" and after[n][0] == "nd" and before[n][2][1] in "iu"
                   and after[n][2][1] == "f" and before[n][3] == after[n][3] and before[n][5] == after[n][5]]
        if retyped == mut:
            fsite = "form=int-out"     # one defect site (integer out= / in-place target retyped to float), not one per ufunc
    slot = FAILS.setdefault((family, fsite), {})
    if (fcls, sym) in slot:
        slot[(fcls, sym)][2] += 1
        return
    slot[(fcls, sym)] = ["%s  ::  %s  ::  %s" % (what, setup.replace("\n", "; ")[:300], call.strip().replace("\n", "; ")[:120]),
                         make_replay(setup, call, names, mode), 1]


CORE = {"diffdim", "dimless-q", "bare"}


def emit_failures():
    """one key per defect site: when a different-dimension quantity, a dimensionless quantity AND a nonzero bare
    number all go through at a site, the site has no check at all and gets the single key
    C01[family:site:unchecked]; otherwise one key per (class, symptom)."""
    counts = []
    for (family, site), slot in FAILS.items():
        through = {c for (c, sy) in slot if sy in ("returned", "compared-by-value")}
        evald = EVAL.get((family, site), set())
        if CORE <= through:
            first = None
            for pref in ("diffdim", "dimless-q", "qlist", "bare"):
                for (c, sy), v in slot.items():
                    if c == pref and sy in ("returned", "compared-by-value") and first is None:
                        first = v
            n = sum(v[2] for (c, sy), v in slot.items() if sy in ("returned", "compared-by-value"))
            key = "C01[%s:%s:unchecked]" % (family, site)
            R.fail(key, "no commensurability check for any operand class %s; first witness: %s" % (sorted(evald), first[0]), first[1])
            counts.append("%s x%d" % (key, n))
            rest = {k: v for k, v in slot.items() if k[1] not in ("returned", "compared-by-value")}
        else:
            rest = slot
        for (c, sy), v in rest.items():
            key = "C01[%s:%s:%s:%s]" % (family, site, c, sy)
            R.fail(key, v[0], v[1])
            counts.append("%s x%d" % (key, v[2]))
    return counts


# --------------------------------------------------------------------------------------------
# operand construction
KINDS = ["same", "samedim", "diffdim", "zeroq_diff", "dimless", "percent", "bare_scalar", "bare_array",
         "zero_scalar", "zero_array", "zero_list", "list_same", "list_diff", "list_mixed"]
UNYT_KINDS = {"same", "samedim", "diffdim", "zeroq_diff", "dimless", "percent"}
CLASS = {"same": "D1", "samedim": "D1", "list_same": "D1", "diffdim": "D2", "zeroq_diff": "D2", "list_diff": "D2",
         "dimless": "1q", "percent": "1q", "bare_scalar": "bare", "bare_array": "bare",
         "zero_scalar": "zero", "zero_array": "zero", "zero_list": "zero", "list_mixed": "mixed"}


def base(c):
    return "1" if c in ("1q", "bare") else c


def incommensurable(cx, cy):
    if "mixed" in (cx, cy):
        return True
    if "zero" in (cx, cy):
        return False
    return base(cx) != base(cy)


def pairclass(kx, ky):
    """which kind of incommensurable partner: a python list of quantities (NumPy may strip it before unyt sees it),
    a dimensionless quantity / percent, a nonzero bare number or array, or two dimensional quantities"""
    if kx.startswith("list_") or ky.startswith("list_"):
        return "qlist"
    cx, cy = CLASS[kx], CLASS[ky]
    if "1q" in (cx, cy):
        return "dimless-q"
    if "bare" in (cx, cy):
        return "bare"
    return "diffdim"


def mk_pair(kx, sx, ky, sy, dt, U, same_values):
    """two operand sources; for ==-like oracles every element of both operands is the same number, so that a
    by-value comparison would answer True whatever the shapes"""
    FORCE[0] = R.rng.randint(1, 9) if same_values else None
    try:
        return mk(kx, sx, dt, U), mk(ky, sy, dt, U)
    finally:
        FORCE[0] = None


ORDERING = {"greater", "greater_equal", "less", "less_equal"}
EQLIKE = {"equal": "eq", "not_equal": "ne"}


def ufunc_mode(op, cx, cy):
    if not incommensurable(cx, cy):
        return None
    if op in EQLIKE:
        return EQLIKE[op]
    if op in ORDERING and "mixed" not in (cx, cy) and "1" in (base(cx), base(cy)):
        return None
    return "raise"


FORCE = [None]


def _vals(n, dt, zero):
    k = np.dtype(dt).kind
    if zero:
        return [0] * n if k in "iu" else [0.0] * n
    if FORCE[0] is not None:
        return [FORCE[0] if k in "iu" else (complex(FORCE[0]) if k == "c" else float(FORCE[0]))] * n
    if k in "iu":
        v = sorted(R.rng.randint(1, 9) for _ in range(n))
    elif k == "c":
        v = [complex(round(R.rng.uniform(0.5, 9.5), 2), round(R.rng.uniform(0.5, 9.5), 2)) for _ in range(n)]
    else:
        v = sorted(round(R.rng.uniform(0.5, 9.5), 2) for _ in range(n))
    return v


def _nested(shape, dt, zero=False):
    n = int(np.prod(shape)) if shape else 1
    v = _vals(n, dt, zero)
    if not shape:
        return repr(v[0])
    return repr(np.array(v, dtype=object).reshape(shape).tolist())


def eff_shape(kind, shape):
    if kind in ("bare_scalar", "zero_scalar"):
        return ()
    if shape == "q":
        return (1,) if kind.startswith("list_") or kind == "zero_list" else ()
    return tuple(shape)


def mk(kind, shape, dt, U):
    """source expression building a fresh operand of `kind`; U = (U1, U1', U2)"""
    unit = {"same": U[0], "samedim": U[1], "diffdim": U[2], "zeroq_diff": U[2],
            "dimless": "dimensionless", "percent": "%"}.get(kind)
    zero = kind.startswith("zero")
    if unit is not None:
        if shape == "q":
            return "unyt.unyt_quantity(%s, %r, dtype=%r)" % (_nested((), dt, zero), unit, dt)
        return "unyt.unyt_array(np.array(%s, dtype=%r), %r)" % (_nested(tuple(shape), dt, zero), dt, unit)
    if kind in ("bare_scalar", "zero_scalar"):
        v = _nested((), dt, zero)
        return v if shape == "q" else "np.%s(%s)" % (np.dtype(dt).name, v)
    if kind in ("bare_array", "zero_array"):
        return "np.array(%s, dtype=%r)" % (_nested(() if shape == "q" else tuple(shape), dt, zero), dt)
    if kind == "zero_list":
        return _nested(eff_shape(kind, shape), dt, True)
    # lists of quantities
    shp = eff_shape(kind, shape)
    units = {"list_same": [U[0], U[0]], "list_diff": [U[2], U[2]], "list_mixed": [U[0], U[2]]}[kind]
    rows = shp[0]
    items = []
    for i in range(rows):
        u = units[i % 2] if rows > 1 else units[1]
        if len(shp) == 1:
            items.append("unyt.unyt_quantity(%s, %r)" % (_nested((), dt), u))
        else:
            items.append("unyt.unyt_array(np.array(%s, dtype=%r), %r)" % (_nested(shp[1:], dt), dt, u))
    if kind == "list_mixed" and rows == 1:   # a one-element list cannot be mixed: make it two rows of one
        return None
    return "[" + ", ".join(items) + "]"


# --------------------------------------------------------------------------------------------
# dimension sets
QDIMS = [("m", "km"), ("s", "min"), ("kg", "g"), ("K", "R"), ("rad", "degree"), ("A", "mA"),
         ("m/s", "km/hr"), ("J", "erg"), ("m**2", "cm**2"), ("Hz", "kHz")]
TRIPLES = [("m", "km", "s"), ("K", "R", "kg"), ("rad", "degree", "m"), ("J", "erg", "N")]


def table_dims():
    from unyt._unit_lookup_table import default_unit_symbol_lut as LUT
    groups = {}
    for sym, row in LUT.items():
        if row[1] == 1 or row[2]:
            continue
        groups.setdefault(row[1], []).append(sym)
    return [(v[0], v[1] if len(v) > 1 else v[0]) for v in groups.values()]


def em_equivalent(u1, u2):
    """documented exception (docs/usage.rst, 'electromagnetic units'): a single CGS EM unit converts to its MKS
    counterpart although unyt gives the two different dimensions; such pairs are not 'different dimension' here"""
    from unyt.dimensions import em_dimensions
    d1, d2 = unyt.Unit(u1).dimensions, unyt.Unit(u2).dimensions
    return em_dimensions.get(d1) == d2


SWEEP_DIMS = table_dims() if R.thorough else QDIMS
SWEEP_PAIRS = [(p, q) for p, q in itertools.permutations(SWEEP_DIMS, 2) if not em_equivalent(p[0], q[0])]
KIND_TRIPLES = TRIPLES if R.thorough else TRIPLES[:2]

# --------------------------------------------------------------------------------------------
# 0. classification guards: every table entry is either enumerated below or excluded for a stated reason
REQ = ["add", "subtract", "greater", "greater_equal", "less", "less_equal", "equal", "not_equal", "maximum", "minimum",
       "fmax", "fmin", "hypot", "remainder", "fmod", "divmod", "arctan2", "nextafter"]
NOTREQ = {"multiply", "divide", "floor_divide", "power", "matmul", "vecdot", "heaviside", "copysign", "ldexp",
          "logaddexp", "logaddexp2", "logical_and", "logical_or", "logical_xor", "bitwise_and", "bitwise_or",
          "bitwise_xor", "left_shift", "right_shift", "clip"}   # clip: ternary, enumerated separately
for uf in unyt_array._ufunc_registry:
    nm = uf.__name__
    k = "C01[registry:unclassified-ufunc:%s]" % nm
    R.case(k, nontrivial=False)
    nin = uf.nin if isinstance(uf, np.ufunc) else (1 if nm in ("isreal", "iscomplex") else 2)
    if nin >= 2 and nm not in REQ and nm not in NOTREQ:
        R.fail(k, "binary ufunc %s is in unyt_array._ufunc_registry but this driver does not know whether it "
                  "requires commensurable operands" % nm)

OPSYM = {"add": "+", "subtract": "-", "greater": ">", "greater_equal": ">=", "less": "<", "less_equal": "<=",
         "equal": "==", "not_equal": "!=", "remainder": "%"}
IOPSYM = {"add": "+=", "subtract": "-=", "remainder": "%="}
SHAPE_COMBOS = [("q", "q"), ((3,), "q"), ("q", (3,)), ((3,), (3,)), ((3, 1), (1, 4)), ((2, 3), (3,)), ((1,), (3,))]
DTYPES = ["float64", "float64", "int64", "float32", "int8", "float64"] + (["complex128"] if R.thorough else [])
_ctr = itertools.count()


def ufunc_forms(op, kx, ky, sx, sy, bshape):
    """yield (formname, extra_setup, call, names)"""
    two = op == "divmod"
    yield "call", "", "_r = np.%s(x, y)" % op, ["x", "y"]
    if op == "remainder":
        yield "call", "", "_r = np.mod(x, y)", ["x", "y"]
    if not two:
        yield "outer", "", "_r = np.%s.outer(x, y)" % op, ["x", "y"]
    oz = "np.full(%r, 7.0)" % (bshape,)
    if two:
        yield ("out", "o = unyt.unyt_array(%s, 'kg')\no2 = unyt.unyt_array(%s, 'kg')" % (oz, oz),
               "_r = np.divmod(x, y, out=(o, o2))", ["x", "y", "o", "o2"])
    else:
        yield "out", "o = unyt.unyt_array(%s, 'kg')" % oz, "_r = np.%s(x, y, out=o)" % op, ["x", "y", "o"]
        yield "out", "o = %s" % oz, "_r = np.%s(x, y, out=o)" % op, ["x", "y", "o"]
        yield "out", "o = unyt.unyt_array(%s, 'kg')" % oz, "_r = np.%s(x, y, o)" % op, ["x", "y", "o"]
        yield ("int-out", "o = unyt.unyt_array(np.full(%r, 7, dtype='int64'), 'kg')" % (bshape,),
               "_r = np.%s(x, y, out=o)" % op, ["x", "y", "o"])
    if op in OPSYM:
        yield "operator", "", "_r = x %s y" % OPSYM[op], ["x", "y"]
        yield "operator", "", "_r = operator.%s(x, y)" % {"+": "add", "-": "sub", ">": "gt", ">=": "ge", "<": "lt",
                                                           "<=": "le", "==": "eq", "!=": "ne", "%": "mod"}[OPSYM[op]], ["x", "y"]
    if two:
        yield "operator", "", "_r = divmod(x, y)", ["x", "y"]
    x_is_arr = kx in UNYT_KINDS or kx in ("bare_array", "zero_array")
    if op in IOPSYM and x_is_arr and eff_shape(kx, sx) == bshape:
        yield "inplace", "", "x %s y\n_r = x" % IOPSYM[op], ["x", "y"]
        if kx in UNYT_KINDS and len(bshape):
            yield "int-out", "x = x.astype('int64')", "x %s y\n_r = x" % IOPSYM[op], ["x", "y"]
    if x_is_arr and len(eff_shape(kx, sx)) == 1 and eff_shape(ky, sy) in ((), (1,)) and not two:
        yield "at", "", "np.%s.at(x, [0], y)\n_r = x" % op, ["x", "y"]


def ufunc_matrix():
    for U in KIND_TRIPLES:
        for op in REQ:
            for kx in KINDS:
                for ky in KINDS:
                    if kx not in UNYT_KINDS and ky not in UNYT_KINDS:
                        continue
                    cx, cy = CLASS[kx], CLASS[ky]
                    mode = ufunc_mode(op, cx, cy)
                    control = (kx, ky) == ("same", "same")
                    if mode is None and not control:
                        continue
                    combos = SHAPE_COMBOS if R.thorough else [SHAPE_COMBOS[next(_ctr) % len(SHAPE_COMBOS)]]
                    for sx, sy in combos:
                        dt = DTYPES[next(_ctr) % len(DTYPES)]
                        if control:
                            dt = "float64"
                        eqm = mode in ("eq", "ne")
                        xs, ys = mk_pair(kx, sx, ky, sy, dt, U, eqm)
                        if xs is None or ys is None:
                            sx = sy = (3,)
                            xs, ys = mk_pair(kx, sx, ky, sy, dt, U, eqm)
                        try:
                            bshape = tuple(np.broadcast_shapes(eff_shape(kx, sx), eff_shape(ky, sy)))
                        except ValueError:
                            continue
                        setup = "x = %s\ny = %s" % (xs, ys)
                        pc = pairclass(kx, ky)
                        for form, extra, call, names in ufunc_forms(op, kx, ky, sx, sy, bshape):
                            st = setup + ("\n" + extra if extra else "")
                            if control:
                                run_case("control-ufunc", op, form, st, call, names, "control")
                            else:
                                run_case("ufunc", op, pc, st, call, names, mode, form=form,
                                         sample={"op": op, "form": form, "kinds": [kx, ky], "units": U})


def ufunc_sweep():
    """every ordered pair of dimensions x every REQ ufunc, call + operator forms, two quantities"""
    for (u1, u1p), (u2, _) in SWEEP_PAIRS:
        U = (u1, u1p, u2)
        for op in REQ:
            sx, sy = SHAPE_COMBOS[next(_ctr) % len(SHAPE_COMBOS)]
            dt = DTYPES[next(_ctr) % len(DTYPES)]
            mode = ufunc_mode(op, "D1", "D2")
            setup = "x = %s\ny = %s" % mk_pair("same", sx, "diffdim", sy, dt, U, mode in ("eq", "ne"))
            calls = ["_r = np.%s(x, y)" % op]
            if op in OPSYM:
                calls.append("_r = x %s y" % OPSYM[op])
            if op == "divmod":
                calls.append("_r = divmod(x, y)")
            if op in IOPSYM and sx != "q" and eff_shape("same", sx) == tuple(np.broadcast_shapes(eff_shape("same", sx), eff_shape("diffdim", sy))):
                calls.append("x %s y\n_r = x" % IOPSYM[op])
            for call in calls:
                run_case("ufunc", op, "diffdim", setup, call, ["x", "y"], mode, form="sweep",
                         sample={"op": op, "units": [u1, u2]})


# --------------------------------------------------------------------------------------------
# array functions / methods.  Each entry: (site, handled numpy function or None, shape of a, shape of x,
# extra setup, call, operands to watch, equality-like?)
MK_ = "mk_ = np.array([True, False, True, False])"
AF = [
    ("concatenate", np.concatenate, (4,), (2,), "", "_r = np.concatenate([a, x])", "ax", 0),
    ("concatenate", np.concatenate, (4,), (2,), "", "_r = np.concatenate((x, a), axis=0)", "ax", 0),
    ("concatenate", np.concatenate, (4,), (2,), "o = unyt.unyt_array(np.full(6, 7.0), 'kg')", "_r = np.concatenate([a, x], out=o)", "axo", 0),
    ("concatenate", np.concatenate, (4,), (2,), "", "_r = np.concatenate([a, a.copy(), x])", "ax", 0),
    ("concatenate", np.concatenate, (4,), (2,), "", "_r = np.concatenate([a, x, a.copy()])", "ax", 0),
    ("hstack", np.hstack, (4,), (2,), "", "_r = np.hstack([a, x])", "ax", 0),
    ("hstack", np.hstack, (4,), (2,), "", "_r = np.hstack((x, a))", "ax", 0),
    ("hstack", np.hstack, (3,), (3,), "", "_r = np.hstack([a, x])", "ax", 0),
    ("vstack", np.vstack, (3,), (3,), "", "_r = np.vstack([a, x])", "ax", 0),
    ("vstack", np.vstack, (3,), (3,), "", "_r = np.vstack([x, a])", "ax", 0),
    ("dstack", np.dstack, (3,), (3,), "", "_r = np.dstack([a, x])", "ax", 0),
    ("dstack", np.dstack, (3,), (3,), "", "_r = np.dstack([x, a])", "ax", 0),
    ("column_stack", np.column_stack, (3,), (3,), "", "_r = np.column_stack([a, x])", "ax", 0),
    ("column_stack", np.column_stack, (3,), (3,), "", "_r = np.column_stack([x, a])", "ax", 0),
    ("stack", np.stack, (3,), (3,), "", "_r = np.stack([a, x])", "ax", 0),
    ("stack", np.stack, (3,), (3,), "", "_r = np.stack([x, a], axis=1)", "ax", 0),
    ("stack", np.stack, (3,), (3,), "", "_r = np.stack([a, a.copy(), x])", "ax", 0),
    ("vstack", np.vstack, (3,), (3,), "", "_r = np.vstack([a, a.copy(), x])", "ax", 0),
    ("block", np.block, (2,), (2,), "", "_r = np.block([[a, a.copy()], [a.copy(), x]])", "ax", 0),
    ("choose", np.choose, (4,), (4,), "", "_r = np.choose(np.array([0, 1, 2, 1]), [a, a.copy(), x])", "ax", 0),
    ("select", np.select, (4,), (4,), MK_, "_r = np.select([mk_, ~mk_, mk_], [a, a.copy(), x], default=a[0])", "ax", 0),
    ("stack", np.stack, (3,), (3,), "o = unyt.unyt_array(np.full((2, 3), 7.0), 'kg')", "_r = np.stack([a, x], out=o)", "axo", 0),
    ("block", np.block, (4,), (2,), "", "_r = np.block([a, x])", "ax", 0),
    ("block", np.block, (4,), (2,), "", "_r = np.block([x, a])", "ax", 0),
    ("block", np.block, (2,), (2,), "", "_r = np.block([[a], [x]])", "ax", 0),
    ("append", None, (4,), (2,), "", "_r = np.append(a, x)", "ax", 0),
    ("append", None, (4,), (2,), "", "_r = np.append(x, a)", "ax", 0),
    ("r_", None, (4,), (2,), "", "_r = np.r_[a, x]", "ax", 0),
    ("c_", None, (3,), (3,), "", "_r = np.c_[x, a]", "ax", 0),
    ("union1d", np.union1d, (4,), (2,), "", "_r = np.union1d(a, x)", "ax", 0),
    ("union1d", np.union1d, (4,), (2,), "", "_r = np.union1d(x, a)", "ax", 0),
    ("intersect1d", np.intersect1d, (4,), (2,), "", "_r = np.intersect1d(a, x)", "ax", 0),
    ("intersect1d", np.intersect1d, (4,), (2,), "", "_r = np.intersect1d(x, a, return_indices=True)", "ax", 0),
    ("setdiff1d", np.setdiff1d, (4,), (2,), "", "_r = np.setdiff1d(a, x)", "ax", 0),
    ("setdiff1d", np.setdiff1d, (4,), (2,), "", "_r = np.setdiff1d(x, a)", "ax", 0),
    ("setxor1d", None, (4,), (2,), "", "_r = np.setxor1d(a, x)", "ax", 0),
    ("setxor1d", None, (4,), (2,), "", "_r = np.setxor1d(x, a)", "ax", 0),
    ("isin", np.isin, (4,), (2,), "", "_r = np.isin(a, x)", "ax", 1),
    ("isin", np.isin, (4,), (2,), "", "_r = np.isin(x, a)", "ax", 1),
    ("in1d", getattr(np, "in1d", None), (4,), (2,), "", "_r = np.in1d(a, x)", "ax", 1),
    ("searchsorted", np.searchsorted, (4,), (2,), "", "_r = np.searchsorted(a, x)", "ax", 0),
    ("searchsorted", np.searchsorted, (4,), "q", "", "_r = np.searchsorted(a, x, side='right')", "ax", 0),
    ("digitize", None, (4,), (2,), "", "_r = np.digitize(x, a)", "ax", 0),
    ("insert", np.insert, (4,), "q", "", "_r = np.insert(a, 1, x)", "ax", 0),
    ("insert", np.insert, (4,), (2,), "", "_r = np.insert(a, [1, 2], x)", "ax", 0),
    ("put", np.put, (4,), (2,), "", "np.put(a, [0, 1], x)\n_r = a", "ax", 0),
    ("put", np.put, (4,), "q", "", "np.put(a, 0, x)\n_r = a", "ax", 0),
    ("putmask", np.putmask, (4,), (4,), MK_, "np.putmask(a, mk_, x)\n_r = a", "ax", 0),
    ("putmask", np.putmask, (4,), "q", MK_, "np.putmask(a, mk_, x)\n_r = a", "ax", 0),
    ("place", np.place, (4,), (2,), MK_, "np.place(a, mk_, x)\n_r = a", "ax", 0),
    ("place", np.place, (4,), "q", MK_, "np.place(a, mk_, x)\n_r = a", "ax", 0),
    ("put_along_axis", np.put_along_axis, (2, 3), (2, 1), "", "np.put_along_axis(a, np.array([[0], [1]]), x, 1)\n_r = a", "ax", 0),
    ("put_along_axis", np.put_along_axis, (2, 3), "q", "", "np.put_along_axis(a, np.array([[0], [1]]), x, axis=1)\n_r = a", "ax", 0),
    ("fill_diagonal", np.fill_diagonal, (3, 3), "q", "", "np.fill_diagonal(a, x)\n_r = a", "ax", 0),
    ("fill_diagonal", np.fill_diagonal, (3, 3), (3,), "", "np.fill_diagonal(a, x)\n_r = a", "ax", 0),
    ("copyto", np.copyto, (4,), (4,), "", "np.copyto(a, x)\n_r = a", "ax", 0),
    ("copyto", np.copyto, (4,), "q", "", "np.copyto(a, x)\n_r = a", "ax", 0),
    ("copyto-where", np.copyto, (4,), (4,), MK_, "np.copyto(a, x, where=mk_)\n_r = a", "ax", 0),
    ("copyto-where", np.copyto, (4,), "q", MK_, "np.copyto(a, x, where=mk_)\n_r = a", "ax", 0),
    ("where", np.where, (4,), (4,), MK_, "_r = np.where(mk_, a, x)", "ax", 0),
    ("where", np.where, (4,), "q", MK_, "_r = np.where(mk_, x, a)", "ax", 0),
    ("select", np.select, (4,), (4,), MK_, "_r = np.select([mk_, ~mk_], [a, x])", "ax", 0),
    ("select", np.select, (4,), (4,), MK_, "_r = np.select([mk_, ~mk_], [x, a])", "ax", 0),
    ("select", np.select, (4,), (4,), MK_, "_r = np.select([mk_, ~mk_], [a, x], default=a[0])", "ax", 0),
    ("select", np.select, (4,), (4,), MK_, "_r = np.select([mk_, ~mk_], [x, a], a[0])", "ax", 0),
    ("select-default", np.select, (4,), "q", MK_, "_r = np.select([mk_], [a], default=x)", "ax", 0),
    ("select-default", np.select, (4,), "q", MK_, "_r = np.select([mk_], [a], x)", "ax", 0),
    ("choose", np.choose, (4,), (4,), "", "_r = np.choose(np.array([0, 1, 0, 1]), [a, x])", "ax", 0),
    ("choose", np.choose, (4,), (4,), "", "_r = np.choose(np.array([0, 1, 0, 1]), [x, a])", "ax", 0),
    ("clip", np.clip, (4,), "q", "", "_r = np.clip(a, x, None)", "ax", 0),
    ("clip", np.clip, (4,), "q", "", "_r = np.clip(a, None, x)", "ax", 0),
    ("clip", np.clip, (4,), (4,), "", "_r = np.clip(a, x, x * 3)", "ax", 0),
    ("clip", np.clip, (4,), "q", "", "_r = np.clip(a, a[0], x)", "ax", 0),
    ("clip", np.clip, (4,), "q", "", "_r = np.clip(a, x, a[3])", "ax", 0),
    ("clip", np.clip, (4,), "q", "o = unyt.unyt_array(np.full(4, 7.0), 'kg')", "_r = np.clip(a, x, None, out=o)", "axo", 0),
    ("clip-kw", np.clip, (4,), "q", "", "_r = np.clip(a, a_min=x, a_max=None)", "ax", 0),
    ("clip-kw", np.clip, (4,), "q", "", "_r = np.clip(a, min=x)", "ax", 0),
    ("clip-kw", np.clip, (4,), "q", "", "_r = np.clip(a, max=x)", "ax", 0),
    ("linspace", np.linspace, "q", "q", "", "_r = np.linspace(a, x, 5)", "ax", 0),
    ("linspace", np.linspace, (2,), (2,), "", "_r = np.linspace(x, a, num=4, retstep=True)", "ax", 0),
    ("geomspace", np.geomspace, "q", "q", "", "_r = np.geomspace(a, x, 5)", "ax", 0),
    ("geomspace", np.geomspace, "q", "q", "", "_r = np.geomspace(x, a, 5)", "ax", 0),
    ("isclose", np.isclose, (4,), (4,), "", "_r = np.isclose(a, x)", "ax", 1),
    ("isclose", np.isclose, (4,), "q", "", "_r = np.isclose(x, a)", "ax", 1),
    ("allclose", np.allclose, (4,), (4,), "", "_r = np.allclose(a, x)", "ax", 1),
    ("allclose", np.allclose, (4,), "q", "", "_r = np.allclose(x, a)", "ax", 1),
    ("array_equal", np.array_equal, (4,), (4,), "", "_r = np.array_equal(a, x)", "ax", 1),
    ("array_equal", np.array_equal, (4,), (4,), "", "_r = np.array_equal(x, a)", "ax", 1),
    ("array_equiv", np.array_equiv, (4,), "q", "", "_r = np.array_equiv(a, x)", "ax", 1),
    ("array_equiv", np.array_equiv, (4,), (4,), "", "_r = np.array_equiv(x, a)", "ax", 1),
    ("interp", np.interp, (4,), (2,), "", "_r = np.interp(x, a, np.arange(4.0))", "ax", 0),
    ("interp", np.interp, (2,), (4,), "", "_r = np.interp(a, x, np.arange(4.0))", "ax", 0),
    ("interp-left-right", np.interp, (4,), "q", "", "_r = np.interp(a * 0.5, a, a.copy(), left=x)", "ax", 0),
    ("interp-left-right", np.interp, (4,), "q", "", "_r = np.interp(a * 2, a, a.copy(), right=x)", "ax", 0),
    ("histogram-bins", np.histogram, (4,), (3,), "", "_r = np.histogram(a, bins=x)", "ax", 0),
    ("histogram-range", np.histogram, (4,), "q", "", "_r = np.histogram(a, bins=3, range=(x * 0, x))", "ax", 0),
    ("histogram2d-bins", np.histogram2d, (4,), (3,), "", "_r = np.histogram2d(a, a.copy(), bins=[x, x])", "ax", 0),
    ("histogramdd-bins", np.histogramdd, (4,), (3,), "", "_r = np.histogramdd([a, a.copy()], bins=[x, x])", "ax", 0),
    ("histogram_bin_edges-range", np.histogram_bin_edges, (4,), "q", "", "_r = np.histogram_bin_edges(a, bins=3, range=(x * 0, x))", "ax", 0),
    ("pad-constant_values", np.pad, (4,), "q", "", "_r = np.pad(a, 1, constant_values=x)", "ax", 0),
    ("pad-end_values", np.pad, (4,), "q", "", "_r = np.pad(a, 1, mode='linear_ramp', end_values=x)", "ax", 0),
    ("diff-prepend-append", np.diff, (4,), "q", "", "_r = np.diff(a, prepend=x)", "ax", 0),
    ("diff-prepend-append", np.diff, (4,), (2,), "", "_r = np.diff(a, append=x)", "ax", 0),
    ("ediff1d-to_end-to_begin", np.ediff1d, (4,), "q", "", "_r = np.ediff1d(a, to_end=x)", "ax", 0),
    ("ediff1d-to_end-to_begin", np.ediff1d, (4,), (2,), "", "_r = np.ediff1d(a, to_begin=x)", "ax", 0),
    ("full_like", None, (4,), "q", "", "_r = np.full_like(a, x)", "ax", 0),
    ("nan_to_num", None, (4,), "q", "", "_r = np.nan_to_num(a, nan=x)", "ax", 0),
    # unyt's own helpers
    ("uconcatenate", None, (4,), (2,), "", "_r = unyt.uconcatenate([a, x])", "ax", 0),
    ("uconcatenate", None, (4,), (2,), "", "_r = unyt.uconcatenate([x, a])", "ax", 0),
    ("uvstack", None, (3,), (3,), "", "_r = unyt.uvstack([a, x])", "ax", 0),
    ("uhstack", None, (3,), (3,), "", "_r = unyt.uhstack([x, a])", "ax", 0),
    ("ustack", None, (3,), (3,), "", "_r = unyt.ustack([a, x])", "ax", 0),
    ("uunion1d", None, (4,), (2,), "", "_r = unyt.uunion1d(a, x)", "ax", 0),
    ("uintersect1d", None, (4,), (2,), "", "_r = unyt.uintersect1d(x, a)", "ax", 0),
    # reductions with a unit-carrying start value (initial is merged into the result like a second operand)
    ("reduce-initial:add", None, (4,), "q", "", "_r = np.add.reduce(a, initial=x)", "ax", 0),
    ("reduce-initial:add", None, (4,), "q", "", "_r = np.sum(a, initial=x)", "ax", 0),
    ("reduce-initial:add", None, (4,), "q", "", "_r = a.sum(initial=x)", "ax", 0),
    ("reduce-initial:maximum", None, (4,), "q", "", "_r = np.maximum.reduce(a, initial=x)", "ax", 0),
    ("reduce-initial:maximum", None, (4,), "q", "", "_r = np.max(a, initial=x)", "ax", 0),
    ("reduce-initial:maximum", None, (4,), "q", "", "_r = a.max(initial=x)", "ax", 0),
    ("reduce-initial:minimum", None, (4,), "q", "", "_r = np.minimum.reduce(a, initial=x)", "ax", 0),
    ("reduce-initial:minimum", None, (4,), "q", "", "_r = a.min(initial=x)", "ax", 0),
    ("reduce-initial:fmax", None, (4,), "q", "", "_r = np.fmax.reduce(a, initial=x)", "ax", 0),
    ("reduce-initial:fmin", None, (4,), "q", "", "_r = np.fmin.reduce(a, initial=x)", "ax", 0),
    # ndarray methods that write / compare a value against the array
    ("method-fill", None, (4,), "q", "", "a.fill(x)\n_r = a", "ax", 0),
    ("method-put", None, (4,), "q", "", "a.put([0], x)\n_r = a", "ax", 0),
    ("method-flat-setitem", None, (4,), "q", "", "a.flat[0] = x\n_r = a", "ax", 0),
    ("method-searchsorted", None, (4,), "q", "", "_r = a.searchsorted(x)", "ax", 0),
    ("method-clip", None, (4,), "q", "", "_r = a.clip(x, None)", "ax", 0),
    ("method-clip", None, (4,), "q", "", "_r = a.clip(max=x)", "ax", 0),
    ("ufunc-clip", None, (4,), "q", "", "_r = np._core.umath.clip(a, x, x * 3)", "ax", 0),
    # item assignment
    ("setitem", None, (4,), "q", "", "a[0] = x\n_r = a", "ax", 0),
    ("setitem", None, (4,), (2,), "", "a[1:3] = x\n_r = a", "ax", 0),
    ("setitem", None, (4,), (2,), MK_, "a[mk_] = x\n_r = a", "ax", 0),
    ("setitem", None, (4,), (2,), "", "a[[0, 2]] = x\n_r = a", "ax", 0),
    ("setitem", None, (4,), "q", "", "a[...] = x\n_r = a", "ax", 0),
    ("setitem", None, (2, 3), (3,), "", "a[1] = x\n_r = a", "ax", 0),
    ("setitem", None, (2, 3), "q", "", "a[1, 2] = x\n_r = a", "ax", 0),
    ("setitem", None, "q", "q", "", "a[()] = x\n_r = a", "ax", 0),
]

# handlers in unyt/_array_functions.py that never need commensurable operands (products, single-array
# functions, text); anything else registered there must appear in AF above
NOMERGE = {"array2string", "dot", "vdot", "inner", "outer", "kron", "inv", "tensorinv", "pinv", "svd", "cross", "norm",
           "around", "fft", "fft2", "fftn", "hfft", "rfft", "rfft2", "rfftn", "ifft", "ifft2", "ifftn", "ihfft", "irfft",
           "irfft2", "irfftn", "fftshift", "ifftshift", "sort_complex", "logspace", "prod", "var", "trace", "percentile",
           "quantile", "nanpercentile", "nanquantile", "det", "lstsq", "solve", "tensorsolve", "eig", "eigh", "eigvals",
           "eigvalsh", "savetxt", "apply_over_axes", "ptp", "cumprod", "cumulative_prod", "sinc", "triu", "tril", "einsum",
           "convolve", "correlate", "tensordot", "array_repr", "unwrap", "asfarray", "trapezoid", "trapz", "take"}


def handler_guard():
    from unyt._array_functions import _HANDLED_FUNCTIONS
    covered = {e[1] for e in AF if e[1] is not None}
    for f in _HANDLED_FUNCTIONS:
        nm = getattr(f, "__name__", repr(f))
        k = "C01[handlers:unclassified:%s]" % nm
        R.case(k, nontrivial=False)
        if f not in covered and nm not in NOMERGE:
            R.fail(k, "unyt implements numpy.%s but this driver neither enumerates it nor lists it as not merging values" % nm)


# the first operand `a` is an array (a unyt_array, or a bare array when the other operand carries the units); sites
# that are methods / item assignment / reductions of `a` need a unyt_array there
A_KINDS = [k for k in KINDS if k in UNYT_KINDS or k in ("bare_array", "zero_array")]
A_KINDS_UNYT = [k for k in KINDS if k in UNYT_KINDS]
A_MUST_BE_UNYT = ("method-", "setitem", "reduce-initial", "ufunc-clip")


def af_mode(eqlike, ca, cx):
    if not incommensurable(ca, cx):
        return None
    return "eq" if eqlike else "raise"


def af_run(entry, ka, kx, U, dt, how):
    site, _f, sa, sx, extra, call, names, eqlike = entry
    ca, cx = CLASS[ka], CLASS[kx]
    mode = af_mode(eqlike, ca, cx)
    control = (ka, kx) == ("same", "same")
    if mode is None and not control:
        return
    a_s, x_s = mk_pair(ka, sa, kx, sx, dt, U, bool(eqlike))
    if a_s is None or x_s is None:
        return
    setup = "a = %s\nx = %s" % (a_s, x_s) + ("\n" + extra if extra else "")
    nm = [{"a": "a", "x": "x", "o": "o"}[c] for c in names]
    if control:
        run_case("control-af", site, "same", setup, call, nm, "control")
    else:
        run_case("af", site, pairclass(ka, kx), setup, call, nm, mode,
                 sample={"site": site, "kinds": [ka, kx], "units": U, "how": how})


def af_matrix():
    for U in KIND_TRIPLES:
        for entry in AF:
            if entry[1] is None and entry[0] == "in1d":
                continue
            a_kinds = A_KINDS_UNYT if entry[0].startswith(A_MUST_BE_UNYT) else A_KINDS
            for ka in a_kinds:
                for kx in KINDS:
                    if ka not in UNYT_KINDS and kx not in UNYT_KINDS:
                        continue
                    dts = DTYPES if R.thorough else [DTYPES[next(_ctr) % len(DTYPES)]]
                    for dt in dts:
                        if (ka, kx) == ("same", "same"):
                            dt = "float64"
                        af_run(entry, ka, kx, U, dt, "kinds")


def af_sweep():
    for (u1, u1p), (u2, _) in SWEEP_PAIRS:
        U = (u1, u1p, u2)
        for entry in AF:
            if entry[1] is None and entry[0] == "in1d":
                continue
            af_run(entry, "same", "diffdim", U, DTYPES[next(_ctr) % len(DTYPES)], "dims")


# --------------------------------------------------------------------------------------------
# conversions
CONV_CALLS = ["_r = a.to(%(t)s)", "_r = a.in_units(%(t)s)", "a.convert_to_units(%(t)s)\n_r = a", "_r = a.to_value(%(t)s)",
              "_r = a.to(unyt.Unit(%(t)s))", "_r = a.in_units(%(t)s, equivalence=None)", "_r = a.units.get_conversion_factor(unyt.Unit(%(t)s))",
              "_r = a.to(a.units * unyt.Unit(%(t)s) / a.units)"]


def conversions():
    dims = list(SWEEP_DIMS) + [("dimensionless", "%")]
    for (u1, u1p), (u2, _) in itertools.permutations(dims, 2):
        if em_equivalent(u1, u2):
            continue
        for call in CONV_CALLS:
            shape = [(3,), "q", (2, 2), (1,)][next(_ctr) % 4]
            dt = ["float64", "int64", "int8", "float32", "int16"][next(_ctr) % 5]
            U = (u1, u1p, u2)
            pc = "dimless-q" if "dimensionless" in (u1, u2) else "diffdim"
            run_case("convert", call.split("(")[0].replace("_r = ", "").replace("a.", ""), pc,
                     "a = %s" % mk("same", shape, dt, U), call % {"t": repr(u2)}, ["a"], "raise",
                     sample={"convert": call, "units": [u1, u2]})
    for (u1, u1p) in dims[:4]:
        for call in CONV_CALLS:
            run_case("control-convert", call[:30], "same", "a = %s" % mk("same", (3,), "float64", (u1, u1p, u1p)),
                     call % {"t": repr(u1p)}, ["a"], "control")


def unit_addsub():
    for (u1, u1p), (u2, _) in itertools.product(SWEEP_DIMS, SWEEP_DIMS):
        for sym in "+-":
            run_case("unit", "add" if sym == "+" else "sub", "any", "p = unyt.Unit(%r)\nq = unyt.Unit(%r)" % (u1, u2), "_r = p %s q" % sym, [], "raise")


# --------------------------------------------------------------------------------------------
# calls NumPy never routes through unyt (no operand is a unyt_array at top level): pinned witnesses
NODISPATCH = [
    ("x = [unyt.unyt_quantity(1.0, 'm'), unyt.unyt_quantity(2.0, 's')]", "_r = np.add.reduce(x)"),
    ("x = [unyt.unyt_quantity(1.0, 'm'), unyt.unyt_quantity(2.0, 's')]", "_r = np.add.accumulate(x)"),
    ("x = [unyt.unyt_quantity(1.0, 'm'), unyt.unyt_quantity(2.0, 'm')]", "_r = np.add(x, 3.0)"),
    ("x = [unyt.unyt_quantity(1.0, 'm')]\ny = [unyt.unyt_quantity(2.0, 's')]", "_r = np.add(x, y)"),
    ("x = [[unyt.unyt_quantity(1.0, 'm')], [unyt.unyt_quantity(2.0, 's')]]", "_r = np.concatenate(x)"),
    ("x = np.array([1.0, 2.0])\ny = unyt.unyt_quantity(3.0, 'm')", "x[0] = y\n_r = x"),
]


def nodispatch():
    for setup, call in NODISPATCH:
        names = [ln.split(" = ")[0] for ln in setup.split("\n")]
        run_case("nodispatch", "quantities-inside-plain-containers", "any", setup, call, names, "raise")


# --------------------------------------------------------------------------------------------
STAGES = [handler_guard, ufunc_matrix, ufunc_sweep, af_matrix, af_sweep, conversions, unit_addsub, nodispatch]
for stage in STAGES:
    t = R.elapsed()
    try:
        stage()
    except Exception as e:  # never crash
        import traceback
        R.notes.append("driver error in %s: %r %s" % (stage.__name__, e, traceback.format_exc()[-400:]))
    R.notes.append("%s: %.1fs, %d evaluations so far" % (stage.__name__, R.elapsed() - t, R.evaluations))

if CONTROL_BAD:
    R.notes.append("call forms whose same-unit control raised (their must-raise cases prove nothing): " +
                   "; ".join("%s -> %s" % kv for kv in sorted(CONTROL_BAD.items()))[:3000])
if DRIVER_ERR:
    R.notes.append("driver-side errors: " + "; ".join("%s -> %s" % kv for kv in sorted(DRIVER_ERR.items()))[:2000])
R.notes.append("witness counts per failing key: " + ", ".join(sorted(emit_failures())))
R.finish()
