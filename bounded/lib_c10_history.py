"""C10 history section: conversion results must not depend on what happened earlier in the
process.  A *history* is a list of steps executed in ONE process:

    ["define", sid, defn]             create a UnitSystem (name, base units, overrides, registry)
    ["override", sid, dim, unit]      S[dim] = unit on the system created by `sid`
    ["default", sid]                  registry.unit_system = S  (code registries only)
    ["default-by-name", sid]          nothing is executed: the registry default still holds the replaced
                                      object of the same name, which designates the system of `sid`
    ["use", sid, via, mode, off]      convert the panel into the system (sid None: built-in cgs/mks
                                      through in_cgs/in_mks); via: name | obj | code | default | cgs | mks

Oracle: for every use step, every (unit, variant) outcome must equal the outcome computed by a
FRESH process (fork taken before the history executes anything) that only ever saw the system
definition current at that step (its own fork per variant, so the copy / in-place / Unit-level
variants are not primed by each other either); and the variants run in one step must agree with
each other whatever the order in which they were primed.

The part above `# ---- END CORE` is self-contained and is embedded verbatim into replays.
"""
# ---- BEGIN CORE
import json, math, os, sys
import numpy as np
import sympy
import unyt

H_VALS = [2.0, -0.5]
H_PERMS = ["cig", "gic", "icg", "cgi", "gci", "igc"]
H_PLANS = ["c", "i", "g", "ci", "gc", "ig", "ic", "cg", "gi"] + H_PERMS
H_VARIANT = {"c": "in_base (copy)", "i": "convert_to_base (in place)", "g": "Unit.get_base_equivalent"}


def h_sig(u):
    c, pw = 1.0, {}
    for f in sympy.Mul.make_args(u.expr):
        if f.is_number:
            c *= float(f)
        else:
            b, e = f.as_base_exp()
            pw[str(b)] = round(pw.get(str(b), 0.0) + float(e), 9)
    return [c, sorted([k, v] for k, v in pw.items() if v)]


def h_regs(H):
    out = {}
    for k, adds in sorted(H.get("regs", {}).items()):
        r = unyt.UnitRegistry()
        for sym, val, dim in adds:
            r.add(sym, val, getattr(unyt.dimensions, dim))
        out[k] = r
    return out


def h_define(d, regs):
    """create the system described by d: base units as strings / ["u", s] Unit objects /
    ["q", coef, s] quantities, overrides applied at once, optionally made the registry default"""
    reg = regs[d["reg"]] if d.get("reg") else None
    name = regs[d["name"][1:]].unit_system_id if d["name"].startswith("@") else d["name"]
    kw = {}
    for k, v in d["args"].items():
        if not (v is None or isinstance(v, str)):
            U = unyt.Unit(v[-1], registry=reg) if reg is not None else unyt.Unit(v[-1])
            v = U if v[0] == "u" else v[1] * U
        kw[k] = v
    if reg is not None:
        kw["registry"] = reg
    S = unyt.UnitSystem(name, **kw)
    for dim, u in d.get("over", []):
        S[dim] = u
    if d.get("default"):
        reg.unit_system = S
    return S


def h_convert(v, ustr, via, S, reg):
    """one variant (c copy / i in place / g Unit level) of one unit; JSON-able outcome"""
    try:
        u = unyt.Unit(ustr, registry=reg) if reg is not None else unyt.Unit(ustr)
        if via in ("cgs", "mks"):
            if v == "c":
                r = getattr(unyt.unyt_array(list(H_VALS), u), "in_" + via)()
            elif v == "i":
                r = unyt.unyt_array(list(H_VALS), u)
                getattr(r, "convert_to_" + via)()
            else:
                r = getattr(u, "get_%s_equivalent" % via)()
        else:
            a = {"name": (S.name,), "obj": (S,), "code": ("code",), "default": ()}[via]
            if v == "c":
                r = unyt.unyt_array(list(H_VALS), u).in_base(*a)
            elif v == "i":
                r = unyt.unyt_array(list(H_VALS), u)
                r.convert_to_base(*a)
            else:
                r = u.get_base_equivalent(*a)
    except Exception as e:
        return ["exc", type(e).__name__]
    if v == "g":
        return ["ok", h_sig(r), None, str(r.dimensions)]
    return ["ok", h_sig(r.units), [float(x) for x in r.d], str(r.units.dimensions)]


def h_show(o):
    if o[0] == "exc":
        return "raises " + o[1]
    c, pw = o[1]
    us = "*".join("%s**%g" % (k, e) if e != 1 else k for k, e in pw) or "1"
    if not math.isclose(c, 1.0):
        us = "%r*%s" % (c, us)
    return us if o[2] is None else "%r %s" % (o[2], us)


def h_same(a, b):
    if a[0] != b[0]:
        return False
    if a[0] == "exc":
        return a[1] == b[1]
    if a[1][1] != b[1][1] or not math.isclose(a[1][0], b[1][0], rel_tol=1e-12) or a[3] != b[3]:
        return False
    if a[2] is None or b[2] is None:        # Unit-level variant: unit only
        return True
    return bool(np.allclose(a[2], b[2], rtol=1e-12, atol=0.0, equal_nan=True))


def h_fresh(H, d, via, ureg, v):
    """variant v of every panel unit in a new process that only ever saw definition d"""
    r, w = os.pipe()
    pid = os.fork()
    if pid == 0:
        code = 0
        try:
            os.close(r)
            regs = h_regs(H)
            S = h_define(d, regs) if d is not None else None
            out = [h_convert(v, u, via, S, regs.get(ureg)) for u in H["panel"]]
            os.write(w, json.dumps(out).encode())
        except BaseException as e:
            code = 1
            try:
                os.write(w, json.dumps({"error": repr(e)}).encode())
            except Exception:
                pass
        os._exit(code)
    os.close(w)
    with os.fdopen(r, "rb") as f:
        data = f.read()
    os.waitpid(pid, 0)
    return json.loads(data.decode())


def h_order(mode, off, j):
    return H_PERMS[(j + off) % 6] if mode == "full" else H_PLANS[(j + off) % 15]


def h_uses(H):
    """for every use step: (step index, system definition current at that step, via, registry
    of the units, mode, offset)"""
    cur, out = {}, []
    for n, st in enumerate(H["steps"]):
        if st[0] == "define":
            cur[st[1]] = json.loads(json.dumps(st[2]))
        elif st[0] == "override":
            d = cur[st[1]]
            d["over"] = [o for o in d.get("over", []) if o[0] != st[2]] + [[st[2], st[3]]]
        elif st[0] in ("default", "default-by-name"):
            cur[st[1]]["default"] = True
        elif st[0] == "use":
            d = json.loads(json.dumps(cur[st[1]])) if st[1] is not None else None
            out.append((n, d, st[2], (d or {}).get("reg"), st[3], st[4]))
    return out


def h_run(H):
    """execute the history; returns (problems, number of outcomes compared).  problem:
    (family, step index, unit, text) with family 'history' or 'variants'"""
    uses = h_uses(H)
    ref = {}
    for n, d, via, ureg, mode, off in uses:            # references first: this process is still pristine
        k = json.dumps([d, via, ureg], sort_keys=True)
        if k not in ref:
            ref[k] = {v: h_fresh(H, d, via, ureg, v) for v in "cig"}
            for v in "cig":
                if isinstance(ref[k][v], dict):
                    raise RuntimeError("fresh process failed for %s: %s" % (k, ref[k][v]["error"]))
    regs = h_regs(H)
    objs, problems, ncmp = {}, [], 0
    uses = {u[0]: u for u in uses}
    for n, st in enumerate(H["steps"]):
        if st[0] == "define":
            objs[st[1]] = h_define(st[2], regs)
        elif st[0] == "override":
            objs[st[1]][st[2]] = st[3]
        elif st[0] == "default":
            objs[st[1]].registry.unit_system = objs[st[1]]
        elif st[0] == "use":
            _, d, via, ureg, mode, off = uses[n]
            want = ref[json.dumps([d, via, ureg], sort_keys=True)]
            where = "step %d (%s)" % (n, "built-in " + via if d is None else "system %r via %s" % (d["name"], via))
            for j, ustr in enumerate(H["panel"]):
                got = {}
                for v in h_order(mode, off, j):
                    got[v] = json.loads(json.dumps(h_convert(v, ustr, via, objs.get(st[1]), regs.get(ureg))))
                    ncmp += 1
                    if not h_same(got[v], want[v][j]):
                        problems.append(("history", n, ustr, "%s: %s of %s gives %s, a fresh process with the same "
                                         "system definition gives %s" % (where, H_VARIANT[v], ustr, h_show(got[v]),
                                                                         h_show(want[v][j]))))
                vs = list(got)
                for a in range(len(vs)):
                    for b in range(a + 1, len(vs)):
                        if not h_same(got[vs[a]], got[vs[b]]):
                            problems.append(("variants", n, ustr, "%s: %s primed in the order %s: %s gives %s but %s "
                                             "gives %s" % (where, ustr, "".join(vs), H_VARIANT[vs[a]], h_show(got[vs[a]]),
                                                           H_VARIANT[vs[b]], h_show(got[vs[b]]))))
    return problems, ncmp
# ---- END CORE


def core_source():
    src = open(os.path.abspath(__file__).replace(".pyc", ".py")).read()
    return src[src.index("\n# ---- BEGIN CORE\n") + 1:src.index("\n# ---- END CORE\n") + 1]


def replay_for(H, family):
    """self-contained program: runs the history (references from fresh forks first), exit 1 iff a
    problem of `family` shows"""
    return ("import warnings\nwarnings.filterwarnings('ignore')\n" + core_source() +
            "H = json.loads(%r)\n" % json.dumps(H) +
            "for st in H['steps']:\n    print(st)\n"
            "try:\n    problems, n = h_run(H)\nexcept Exception as e:\n"
            "    print('the history could not be run:', repr(e)); sys.exit(0)\n"
            "problems = [p for p in problems if p[0] == %r]\n" % family +
            "for p in problems[:12]:\n    print(p[3])\n"
            "print(len(problems), 'problems in', n, 'outcomes')\n"
            "sys.exit(1 if problems else 0)\n")


# ----------------------------------------------------------------------------- catalogue
PANEL = [
    # E&M atoms, SI flavour / Gaussian flavour (canonical, prefixed, alias)
    "C", "T", "A", "V", "ohm", "mC", "kV", "uT", "statC", "G", "statA", "statV", "statohm", "uG", "kstatC", "esu",
    # E&M compounds
    "A*s", "V/m", "Wb", "F", "C/m**2", "statC/s", "G*cm", "statV/cm",
    # mechanical
    "km", "lb", "erg/s", "N", "mile/hr", "g/cm**3", "dyne", "J",
    # thermal
    "K", "degC", "R", "J/K", "W/m**2/K**4", "delta_degF",
    # other base dimensions
    "degree", "cd", "lm", "dB",
]
REG_A = [["code_length", 3.0856775809623245e+22, "length"], ["code_mass", 1.98841586e+40, "mass"],
         ["code_time", 3.15576e+16, "time"], ["code_temperature", 2.5, "temperature"],
         ["code_magnetic", 1.5e-7, "magnetic_field_cgs"], ["code_velocity", 9.7779222e5, "velocity"]]
REG_B = [["code_length", 1.0e5, "length"], ["code_mass", 2.0e3, "mass"], ["code_time", 50.0, "time"],
         ["code_temperature", 10.0, "temperature"], ["code_magnetic", 3.0e-3, "magnetic_field_cgs"],
         ["code_velocity", 2.0e3, "velocity"]]
PANEL_CODE = ["code_length", "code_mass", "code_time", "code_temperature", "code_magnetic", "code_velocity",
              "code_mass/code_length**3", "code_length/code_time", "code_magnetic**2", "erg/code_length**3",
              "code_mass*code_length**2/code_time**2"] + PANEL[:16] + ["A*s", "G*cm", "km", "erg/s", "N", "K", "degC",
                                                                        "J/K", "degree", "lm"]

BASES = {
    "b0": {"length_unit": "cm", "mass_unit": "g", "time_unit": "s"},
    "b1": {"length_unit": "m", "mass_unit": "kg", "time_unit": "s"},
    "b2": {"length_unit": "km", "mass_unit": "Msun", "time_unit": "Gyr"},
    "b3": {"length_unit": "inch", "mass_unit": "oz", "time_unit": "min", "temperature_unit": "R",
           "angle_unit": "degree"},
    "b4": {"length_unit": "mm", "mass_unit": "mg", "time_unit": "ms", "luminous_intensity_unit": "kcd",
           "logarithmic_unit": "dB"},
    "code": {"length_unit": "code_length", "mass_unit": "code_mass", "time_unit": "code_time",
             "temperature_unit": "code_temperature"},
    "code-mixed": {"length_unit": "code_length", "mass_unit": "g", "time_unit": "code_time"},
}
CURS = {"none": None, "A": "A", "mA": "mA", "halfA": ["q", 0.5, "A"]}
OVERS = {
    "O0": [],
    "O1": [["energy", "eV"], ["pressure", "bar"], ["velocity", "km/s"]],
    "O2": [["magnetic_field_cgs", "uG"], ["charge_cgs", "esu"], ["energy", "erg"]],
    "O3": [["magnetic_field_mks", "mT"], ["charge_mks", "mA*hr"], ["electric_potential_mks", "kV"]],   # needs a current
}


def defn(base="b0", cur="A", over="O0", how="str", name="c10h", reg=None):
    args = {}
    for k, s in BASES[base].items():
        args[k] = s if how == "str" else (["u", s] if how == "unit" else ["q", 3.0, s])
    if cur != "A" or how != "str":          # "A" in string form: the constructor default
        c = CURS[cur]
        if how == "unit" and isinstance(c, str):
            c = ["u", c]
        args["current_mks_unit"] = c
    d = {"name": name, "args": args, "over": [list(o) for o in OVERS[over]]}
    if reg:
        d["reg"] = reg
    return d


def _base_of(d):
    out = {}
    for k, v in d["args"].items():
        if k != "current_mks_unit":
            out[k] = v if isinstance(v, str) else (v[-1] if v[0] == "u" else "%r*%s" % (v[1], v[2]))
    return out


def _cur_of(d):
    v = d["args"].get("current_mks_unit", "A")
    if v is None or isinstance(v, str):
        return v
    return v[-1] if v[0] == "u" else "%r*%s" % (v[1], v[2])


def diff_directed(d1, d2):
    parts = []
    if _base_of(d1) != _base_of(d2):
        parts.append("base")
    c1, c2 = _cur_of(d1), _cur_of(d2)
    if c1 != c2:
        parts.append("current-added" if c1 is None else ("current-removed" if c2 is None else "current-changed"))
    if d1.get("over", []) != d2.get("over", []):
        parts.append("overrides")
    if d1.get("reg") != d2.get("reg"):
        parts.append("registry")
    return "+".join(parts) or "same"


def diff_chain(ds):
    asp = set()
    for a, b in zip(ds, ds[1:]):
        for p in diff_directed(a, b).split("+"):
            asp.add({"current-added": "current-presence", "current-removed": "current-presence",
                     "current-changed": "current-unit"}.get(p, p))
    asp.discard("same")
    return "+".join(x for x in ("base", "current-presence", "current-unit", "overrides", "registry") if x in asp) or "same"


def hist(kind, what, steps, panel=None, regs=None):
    H = {"kind": kind, "what": what, "steps": steps, "panel": list(panel or PANEL)}
    if regs:
        H["regs"] = regs
    return H


def t_redefine(d1, d2, off=0, via="name", modes=("prime", "full")):
    return hist("redefine", diff_directed(d1, d2),
                [["define", "s1", d1], ["use", "s1", via, modes[0], off],
                 ["define", "s2", d2], ["use", "s2", via, modes[1], off + 1]])


def t_chain(ds, off=0, via="name", modes=None):
    steps = []
    for k, d in enumerate(ds):
        m = modes[k] if modes else ("prime" if k < len(ds) - 2 else "full")
        steps += [["define", "s%d" % k, d], ["use", "s%d" % k, via, m, off + k]]
    return hist("chain", diff_chain(ds), steps)


def t_override(what, d, overs, off=0, via="name", modes=None):
    steps = [["define", "s", d], ["use", "s", via, (modes or ["prime"])[0], off]]
    for k, (dim, u) in enumerate(overs):
        steps += [["override", "s", dim, u], ["use", "s", via, modes[k + 1] if modes else "full", off + k + 1]]
    # the three base-dimension probes are one site (derived units memoised from the old base unit)
    return hist("override", "base-dimension" if what.endswith("base-dimension") else what, steps)


OVERRIDE_CASES = {
    "derived": ("b1", "A", [("energy", "eV")]),
    "derived-twice": ("b2", "A", [("energy", "eV"), ("energy", "erg")]),
    "derived-then-em": ("b1", "A", [("pressure", "bar"), ("charge_mks", "C")]),
    "em-si": ("b2", "A", [("magnetic_field_mks", "T"), ("charge_mks", "mA*hr")]),
    "em-gauss": ("b4", "none", [("magnetic_field_cgs", "uG"), ("charge_cgs", "esu")]),
    "em-gauss-with-current": ("b1", "mA", [("magnetic_field_cgs", "G"), ("electric_potential_cgs", "statV")]),
    "base-dimension": ("b1", "A", [("length", "km")]),
    "thermal-base-dimension": ("b0", "none", [("temperature", "R")]),
    "current-base-dimension": ("b1", "A", [("current_mks", "mA")]),
}


def t_override_dropped(d1, d2, over, off=0):
    return hist("override", "dropped-by-redefine",
                [["define", "s1", d1], ["override", "s1", over[0], over[1]], ["use", "s1", "name", "prime", off],
                 ["define", "s2", d2], ["use", "s2", "name", "full", off + 1]])


def t_interleave(what, off=0, dx=None, dy=None):
    if what in ("clone-of-cgs", "clone-of-mks"):
        b = what[-3:]
        dx = dx or (defn("b0", "none") if b == "cgs" else defn("b1", "A"))
        steps = [["use", None, b, "prime", off], ["define", "x", dx], ["use", "x", "name", "prime", off + 1],
                 ["use", None, b, "full", off + 2], ["use", "x", "name", "full", off + 3]]
    elif what == "same-def-other-name":
        dx = dx or defn("b1", "A")
        dy = dict(json.loads(json.dumps(dx)), name="c10h_other")
        steps = [["define", "x", dx], ["use", "x", "name", "prime", off], ["define", "y", dy],
                 ["override", "y", "energy", "eV"], ["use", "y", "name", "full", off + 1],
                 ["use", "x", "name", "full", off + 2]]
    else:
        via = "obj" if what == "by-object" else "name"
        if dx is None:
            dx, dy = {"current": (defn("b0", "none"), defn("b0", "A")),
                      "base": (defn("b0", "A"), defn("b2", "A")),
                      "overrides": (defn("b1", "A", "O1"), defn("b1", "A", "O3")),
                      "by-object": (defn("b1", "none", "O2"), defn("b3", "halfA", "O1"))}[what]
        dy = dict(dy, name="c10h_other")
        steps = [["define", "x", dx], ["use", "x", via, "prime", off], ["define", "y", dy],
                 ["use", "y", via, "prime", off + 1], ["use", "x", via, "full", off + 2],
                 ["use", "y", via, "full", off + 3]]
    return hist("interleave", what, steps)


INTERLEAVE_CASES = ["clone-of-cgs", "clone-of-mks", "same-def-other-name", "current", "base", "overrides", "by-object"]


def t_registries(what, off=0):
    if what == "code-values":
        regs = {"A": REG_A, "B": REG_B}
        steps = [["define", "a", defn("code", "A", name="c10h_code", reg="A")], ["use", "a", "name", "prime", off],
                 ["define", "b", defn("code", "A", name="c10h_code", reg="B")], ["use", "b", "name", "full", off + 1]]
    elif what == "current":
        regs = {"A": REG_A, "B": REG_B}
        steps = [["define", "a", defn("code", "none", name="c10h_code", reg="A")], ["use", "a", "name", "prime", off],
                 ["define", "b", defn("code", "A", name="c10h_code", reg="B")], ["use", "b", "name", "full", off + 1],
                 ["define", "a2", defn("code", "none", name="c10h_code", reg="A")], ["use", "a2", "obj", "full", off + 2]]
    elif what == "same-lut":
        regs = {"A": REG_A, "A2": REG_A}
        steps = [["define", "a", defn("code", "A", name="@A", reg="A")], ["use", "a", "code", "prime", off],
                 ["define", "b", defn("code-mixed", "none", name="@A2", reg="A2")], ["use", "b", "code", "full", off + 1]]
    elif what == "default-system":
        regs = {"A": REG_A}
        steps = [["define", "a", defn("code", "A", name="@A", reg="A")], ["default", "a"],
                 ["use", "a", "default", "prime", off],
                 ["define", "b", defn("code-mixed", "none", "O2", name="@A", reg="A")], ["default", "b"],
                 ["use", "b", "default", "full", off + 1], ["use", "b", "code", "full", off + 2]]
    elif what == "default-system-kept-object":
        # the registry keeps pointing at the replaced object; the name decides which system is used
        regs = {"A": REG_A}
        db = defn("code-mixed", "none", "O2", name="@A", reg="A")
        steps = [["define", "a", defn("code", "A", name="@A", reg="A")], ["default", "a"],
                 ["use", "a", "default", "prime", off], ["define", "b", db], ["default-by-name", "b"],
                 ["use", "b", "default", "full", off + 1], ["use", "b", "code", "full", off + 2]]
    else:   # plain-then-code: a name first used by a system on the default registry, then by a code system
        regs = {"A": REG_A}
        steps = [["define", "a", defn("b0", "none", "O2", name="c10h_code")], ["use", "a", "name", "prime", off],
                 ["define", "b", defn("code", "A", name="c10h_code", reg="A")], ["use", "b", "name", "full", off + 1]]
        H = hist("registries", what, steps, PANEL_CODE[11:], regs)
        return H
    return hist("registries", what, steps, PANEL_CODE, regs)


REGISTRY_CASES = ["code-values", "current", "same-lut", "default-system", "default-system-kept-object", "plain-then-code"]


def pinned_histories():
    out = []
    n = 0
    # redefine: every combination of what differs between the two definitions
    for base in (0, 1):
        for cur in ("same-none", "same-some", "added", "removed", "changed"):
            for over in (0, 1):
                c1, c2 = {"same-none": ("none", "none"), "same-some": ("mA", "mA"), "added": ("none", "A"),
                          "removed": ("A", "none"), "changed": ("A", "halfA")}[cur]
                b1, b2 = ("b0", "b1") if base else (("b0", "b0") if n % 2 else ("b1", "b1"))
                o1, o2 = ("O1", "O2") if over else (("O0", "O0") if n % 4 < 2 else ("O2", "O2"))
                hows = [("str", "str"), ("str", "unit"), ("unit", "str")][n % 3]
                out.append(t_redefine(defn(b1, c1, o1, hows[0]), defn(b2, c2, o2, hows[1]), off=n,
                                      via="name" if n % 5 else "obj"))
                n += 1
    # chains of three / four definitions under one name
    for base in (0, 1):
        for cp in (0, 1):
            for cu in (0, 1):
                for over in (0, 1):
                    if cp and cu:
                        curs = ["none", "A", "mA", "none"]
                    elif cp:
                        curs = ["none", "A", "none"] if n % 2 else ["A", "none", "A"]
                    elif cu:
                        curs = ["A", "mA", "A"]
                    else:
                        curs = ["A"] * 3 if n % 2 else ["none"] * 3
                    ds = []
                    for k, c in enumerate(curs):
                        b = ["b0", "b2", "b0", "b3"][k] if base else "b1"
                        o = ["O1", "O2", "O1", "O0"][k] if over else "O1"
                        ds.append(defn(b, c, o))
                    out.append(t_chain(ds, off=n))
                    n += 1
    for what, (b, c, overs) in OVERRIDE_CASES.items():
        out.append(t_override(what, defn(b, c), overs, off=n))
        n += 1
    out.append(t_override_dropped(defn("b1", "A"), defn("b1", "A"), ("magnetic_field_mks", "T"), off=n))
    for what in INTERLEAVE_CASES:
        out.append(t_interleave(what, off=n))
        n += 1
    for what in REGISTRY_CASES:
        out.append(t_registries(what, off=n))
        n += 1
    return out


def random_history(rng):
    """same templates and key families as the pinned set, other definitions / priming plans"""
    def rd(name="c10h"):
        cur = rng.choice(list(CURS))
        over = rng.choice(["O0", "O1", "O2"] + (["O3"] if cur != "none" else []))
        return defn(rng.choice(["b0", "b1", "b2", "b3", "b4"]), cur, over, rng.choice(["str", "str", "unit", "quantity"]),
                    name=name)
    off = rng.randrange(0, 30)
    t = rng.random()
    mode = lambda: rng.choice(["prime", "full"])
    if t < 0.35:
        return t_redefine(rd(), rd(), off, rng.choice(["name", "name", "obj"]), (mode(), "full"))
    if t < 0.65:
        n = rng.choice([3, 3, 4])
        ds = [rd() for _ in range(n)]
        if rng.random() < 0.4:
            ds[-1] = json.loads(json.dumps(ds[0]))
        return t_chain(ds, off, rng.choice(["name", "name", "obj"]), [mode() for _ in range(n - 1)] + ["full"])
    if t < 0.8:
        what = rng.choice(sorted(OVERRIDE_CASES))
        b, c, overs = OVERRIDE_CASES[what]
        b2 = rng.choice(["b0", "b1", "b2", "b3", "b4"])
        if what in ("em-si", "derived-then-em", "current-base-dimension"):
            c = rng.choice(["A", "mA", "halfA"])
        return t_override(what, defn(b2, c, how=rng.choice(["str", "unit"])), overs, off,
                          modes=[mode() for _ in overs] + ["full"])
    if t < 0.93:
        what = rng.choice(INTERLEAVE_CASES)
        if what in ("current", "base", "overrides", "by-object"):
            dx, dy = rd(), rd()
            if what == "current":
                bs = ["b0", "b1", "b2", "b3", "b4"]
                dx = defn(rng.choice(bs), "none", rng.choice(["O0", "O1", "O2"]))
                dy = defn(rng.choice(bs), rng.choice(["A", "mA", "halfA"]), rng.choice(["O0", "O1", "O2", "O3"]))
            return t_interleave(what, off, dx, dy)
        return t_interleave(what, off)
    return t_registries(rng.choice(REGISTRY_CASES), off)
